package props

import (
	"fmt"
	"go/ast"
	"go/token"
	"go/types"
	"sort"
	"strings"

	"verif/internal/an"
	"verif/internal/load"
)

func init() { register(&Prop{ID: "C09", Run: runC09}) }

func runC09(c *Ctx) {
	r := c.R
	tls := c.P.TLS
	info := tls.TypesInfo
	r.Technique = "may/must set analysis of generateRandomizedSpec with trace partitioning on its boolean/version locals (coin flips are non-deterministic branches); effect (entropy-source) rule over its call graph; typed-AST shape rules on the cipher ordering helpers"
	r.Explanation = "C09.1 seed reproducibility: neither generateRandomizedSpec nor anything it reaches in the module draws from crypto/rand, math/rand's global source, the clock or a map iteration; every random choice comes from a prng built from id.Seed (optionally salted with a constant); a fresh seed is created only when id.Seed is nil. " +
		"C09.2 consistency, decided per partition over all coin outcomes: TLS 1.3 specs must contain RSA-PSS, padding, key_share, psk_key_exchange_modes and supported_versions = makeSupportedVersions(min,max); every group that may get a key share must be in supported_groups; a hybrid group that may be in supported_groups must get a key share; ALPS may appear only when ALPN is present. " +
		"C09.3 cipher order: TLS 1.3 suites are prepended to the shuffled list, shuffledCiphers sorts non-TLS1.2-only (obsolete) suites last, removeRandomCiphers never removes the first suite, RC4 removal names every RC4 suite of the table and runs for TLS 1.3. " +
		"C09.4 the weighted coin's 0/1 corners (shared with C30.3)."
	r.NotDecided = "equality of two concrete runs; the distribution of the choices"

	fd := load.FuncDecl(tls, "", "generateRandomizedSpec")
	if fd == nil {
		r.Unknown("C09.1", "generateRandomizedSpec", "", "not found")
		return
	}
	// ---- C09.1 effects
	reach := moduleReach(c, []*ast.FuncDecl{fd})
	var names []string
	for f := range reach {
		names = append(names, load.RecvName(f)+"."+f.Name.Name)
	}
	sort.Strings(names)
	r.Count("functions_reachable_from_generator", len(reach))
	for f := range reach {
		who := load.RecvName(f) + "." + f.Name.Name
		seedCtor := f.Name.Name == "NewPRNGSeed" || f.Name.Name == "newPRNG"
		bad := ""
		ast.Inspect(f.Body, func(n ast.Node) bool {
			switch x := n.(type) {
			case *ast.RangeStmt:
				if _, isMap := info.TypeOf(x.X).Underlying().(*types.Map); isMap {
					bad = "ranges over a map (iteration order is random per run)"
				}
			case *ast.CallExpr:
				fo, _ := an.Callee(info, x).(*types.Func)
				if fo == nil || fo.Pkg() == nil {
					return true
				}
				sig := fo.Type().(*types.Signature)
				switch fo.Pkg().Path() {
				case "crypto/rand":
					if !seedCtor {
						bad = "calls crypto/rand." + fo.Name()
					}
				case "time":
					if fo.Name() == "Now" || fo.Name() == "Since" {
						bad = "reads the clock"
					}
				case "math/rand", "math/rand/v2":
					if sig.Recv() == nil && fo.Name() != "New" && fo.Name() != "NewSource" {
						bad = "uses math/rand's global source (rand." + fo.Name() + ")"
					}
				}
			}
			return true
		})
		r.Check(bad == "", "C09.1", who+":entropy", c.Pos(f), "draws only from the seeded prng", who+" "+bad+": the same seed no longer yields the same fingerprint")
	}
	// NewPRNGSeed only under id.Seed == nil ; prngs built from id.Seed
	fn := an.NewFn(tls, fd)
	idParam := info.Defs[fd.Type.Params.List[0].Names[0]]
	isSeed := func(e ast.Expr) bool {
		se, ok := an.Unparen(e).(*ast.SelectorExpr)
		if !ok || se.Sel.Name != "Seed" {
			return false
		}
		id, ok := an.Unparen(se.X).(*ast.Ident)
		return ok && info.Uses[id] == idParam
	}
	pass, _, _ := condEdges(fn, func(cond ast.Expr) (bool, bool) {
		op, ok := an.BinaryWith(cond, isSeed, func(e ast.Expr) bool { return an.IsNilIdent(info, e) })
		return ok, ok && op == token.EQL
	})
	for _, h := range fn.FindNodes(an.CallTo(info, Mod, "", "NewPRNGSeed")) {
		r.Check(len(pass) > 0 && fn.MustPass(h.P, nil, pass), "C09.1", "generateRandomizedSpec:fresh-seed-only-when-nil", c.Pos(h.N), "a new seed is drawn only when id.Seed is nil", "a new seed can be drawn although the caller supplied one")
	}
	nPRNG := 0
	for _, ctor := range []string{"newPRNGWithSeed", "newPRNGWithSaltedSeed"} {
		for _, h := range fn.FindNodes(an.CallTo(info, Mod, "", ctor)) {
			nPRNG++
			call := h.N.(*ast.CallExpr)
			ok := isSeed(call.Args[0])
			if ctor == "newPRNGWithSaltedSeed" && ok {
				_, isConst := an.ConstString(info, call.Args[1])
				ok = isConst
			}
			r.Check(ok, "C09.1", "generateRandomizedSpec:"+ctor, c.Pos(call), "the prng is built from id.Seed (constant salt)", "a prng is not built from id.Seed with a constant salt")
		}
	}
	// every FlipWeightedCoin / Intn / Perm / Shuffle receiver in the reachable functions is a *prng (or its rand field)
	r.Check(nPRNG >= 1, "C09.1", "generateRandomizedSpec:prng-from-seed", c.Pos(fd), fmt.Sprintf("%d prng(s) derived from id.Seed", nPRNG), "no prng is derived from id.Seed")
	r.Floor("C09.1", 8)

	// ---- C09.2 may/must
	sf, finals := runSetFlow(tls, fd)
	if len(sf.issues) > 0 {
		r.Unknown("C09.2", "generateRandomizedSpec:setflow", c.Pos(fd), "%s", strings.Join(sf.issues, "; "))
	}
	if len(finals) < 2 {
		r.Unknown("C09.2", "generateRandomizedSpec:partitions", c.Pos(fd), "only %d partitions reached the successful return", len(finals))
	}
	hybrids := map[string]bool{"X25519MLKEM768": true, "X25519Kyber768Draft00": true}
	for _, st := range finals {
		part := st.key()
		cons := "partition[" + part + "]"
		tls13 := st.consts["p.TLSVersMax"] == "VersionTLS13"
		get := func(name string) *mmSet {
			if s := st.sets[name]; s != nil {
				return s
			}
			return newMM()
		}
		exts := get("p.Extensions")
		curves := get("curves.Curves")
		ks := get("ks.KeyShares")
		sig := get("sigAndHash.SupportedSignatureAlgorithms")
		var probs []string
		for _, need := range []string{"SNIExtension", "SupportedCurvesExtension", "SupportedPointsExtension", "SignatureAlgorithmsExtension"} {
			if !exts.must[need] {
				probs = append(probs, need+" is not always present")
			}
		}
		if tls13 {
			for _, need := range []string{"UtlsPaddingExtension", "KeyShareExtension", "SupportedVersionsExtension", "PSKKeyExchangeModesExtension"} {
				if !exts.must[need] {
					probs = append(probs, "a TLS 1.3 spec may lack "+need)
				}
			}
			if !sig.must["PSSWithSHA256"] {
				probs = append(probs, "a TLS 1.3 spec may lack RSA-PSS (PSSWithSHA256)")
			}
			if len(ks.may) == 0 {
				probs = append(probs, "a TLS 1.3 spec has no key share")
			}
		} else {
			for _, no := range []string{"KeyShareExtension", "SupportedVersionsExtension"} {
				if exts.may[no] {
					probs = append(probs, "a TLS 1.2 spec may carry "+no)
				}
			}
		}
		for g := range ks.may {
			if !curves.must[g] {
				probs = append(probs, "key share group "+g+" may be sent without being listed in supported_groups")
			}
		}
		for g := range curves.may {
			if hybrids[g] && !ks.must[g] {
				probs = append(probs, "hybrid group "+g+" may be listed in supported_groups without a key share")
			}
		}
		if (exts.may["ApplicationSettingsExtension"] || exts.may["ApplicationSettingsExtensionNew"]) && !exts.must["ALPNExtension"] {
			probs = append(probs, "ALPS may appear without ALPN")
		}
		sort.Strings(probs)
		if len(probs) == 0 {
			r.Ok("C09.2", cons, c.Pos(fd), "curves %s ; key shares %s", curves, ks)
		} else {
			r.Bad("C09.2", cons, c.Pos(fd), "%s", strings.Join(probs, "; "))
		}
	}
	r.Floor("C09.2", 6)
	// supported_versions = makeSupportedVersions(p.TLSVersMin, p.TLSVersMax) and that helper counts down from max to min
	okSV := false
	ast.Inspect(fd.Body, func(n ast.Node) bool {
		kv, ok := n.(*ast.KeyValueExpr)
		if !ok {
			return true
		}
		if k, ok := kv.Key.(*ast.Ident); ok && k.Name == "Versions" {
			if call, ok := an.Unparen(kv.Value).(*ast.CallExpr); ok && an.IsCallTo(info, call, Mod, "", "makeSupportedVersions") && len(call.Args) == 2 {
				a, _ := an.Unparen(call.Args[0]).(*ast.SelectorExpr)
				b, _ := an.Unparen(call.Args[1]).(*ast.SelectorExpr)
				if a != nil && b != nil && a.Sel.Name == "TLSVersMin" && b.Sel.Name == "TLSVersMax" {
					okSV = true
				}
			}
		}
		return true
	})
	r.Check(okSV, "C09.2", "generateRandomizedSpec:supported_versions", c.Pos(fd), "supported_versions = makeSupportedVersions(p.TLSVersMin, p.TLSVersMax)", "supported_versions is not built from the spec's own [min,max]")
	c09MakeVersions(c)

	// ---- C09.3 cipher order
	c09Ciphers(c, fd)
	// ---- C09.4 coin corners
	saved := len(r.Obls)
	c30Coin(c)
	for i := saved; i < len(r.Obls); i++ {
		r.Obls[i].Rule = "C09.4"
	}
	r.Floor("C30.3", 0)
	r.Floor("C09.4", 4)
}

func c09MakeVersions(c *Ctx) {
	r := c.R
	tls := c.P.TLS
	info := tls.TypesInfo
	fd := load.FuncDecl(tls, "", "makeSupportedVersions")
	if fd == nil {
		r.Unknown("C09.2", "makeSupportedVersions", "", "not found")
		return
	}
	minP := info.Defs[fd.Type.Params.List[0].Names[0]]
	maxP := info.Defs[fd.Type.Params.List[0].Names[1]]
	// length max-min+1 ; element i = max - i
	okLen, okElem := false, false
	ast.Inspect(fd.Body, func(n ast.Node) bool {
		switch x := n.(type) {
		case *ast.CallExpr:
			if id, ok := x.Fun.(*ast.Ident); ok && id.Name == "make" && len(x.Args) == 2 {
				le := &linExec{info: info, vars: map[types.Object]Lin{minP: linAtom("min"), maxP: linAtom("max")}}
				if l, ok := le.eval(x.Args[1]); ok && l.Eq(linAtom("max").Sub(linAtom("min")).AddC(1)) {
					okLen = true
				}
			}
		case *ast.RangeStmt:
			if k, ok := x.Key.(*ast.Ident); ok && len(x.Body.List) == 1 {
				if as, ok := x.Body.List[0].(*ast.AssignStmt); ok && len(as.Rhs) == 1 {
					le := &linExec{info: info, vars: map[types.Object]Lin{minP: linAtom("min"), maxP: linAtom("max"), info.Defs[k]: linAtom("i")}}
					if l, ok := le.eval(as.Rhs[0]); ok && l.Eq(linAtom("max").Sub(linAtom("i"))) {
						if ix, ok := an.Unparen(as.Lhs[0]).(*ast.IndexExpr); ok {
							if id, ok := an.Unparen(ix.Index).(*ast.Ident); ok && info.Uses[id] == info.Defs[k] {
								okElem = true
							}
						}
					}
				}
			}
		}
		return true
	})
	r.Check(okLen && okElem, "C09.2", "makeSupportedVersions", c.Pos(fd), "yields max, max-1, …, min (max-min+1 entries)", "makeSupportedVersions does not enumerate exactly [min,max] downwards")
}

func c09Ciphers(c *Ctx, gen *ast.FuncDecl) {
	r := c.R
	tls := c.P.TLS
	info := tls.TypesInfo
	// TLS 1.3 suites first: shuffledSuites = append(tls13ciphers, shuffledSuites...)
	okPrepend, okRC4 := false, false
	var tls13Obj types.Object
	ast.Inspect(gen.Body, func(n ast.Node) bool {
		as, ok := n.(*ast.AssignStmt)
		if !ok || len(as.Lhs) != 1 || len(as.Rhs) != 1 {
			return true
		}
		call, ok := an.Unparen(as.Rhs[0]).(*ast.CallExpr)
		if !ok {
			return true
		}
		if id, ok := call.Fun.(*ast.Ident); ok && id.Name == "make" && len(call.Args) == 2 {
			if an.Contains(call.Args[1], func(m ast.Node) bool { x, ok := m.(*ast.Ident); return ok && x.Name == "defaultCipherSuitesTLS13" }) {
				if l, ok := as.Lhs[0].(*ast.Ident); ok {
					tls13Obj = objOf(info, l)
				}
			}
		}
		if id, ok := call.Fun.(*ast.Ident); ok && id.Name == "append" && call.Ellipsis.IsValid() && len(call.Args) == 2 {
			a, ok1 := an.Unparen(call.Args[0]).(*ast.Ident)
			b, ok2 := an.Unparen(call.Args[1]).(*ast.Ident)
			l, ok3 := as.Lhs[0].(*ast.Ident)
			if ok1 && ok2 && ok3 && tls13Obj != nil && info.Uses[a] == tls13Obj && objOf(info, b) == objOf(info, l) {
				okPrepend = true
			}
		}
		if an.IsCallTo(info, call, Mod, "", "removeRC4Ciphers") {
			okRC4 = true
		}
		return true
	})
	r.Check(okPrepend, "C09.3", "generateRandomizedSpec:tls13-suites-first", c.Pos(gen), "TLS 1.3 suites are prepended to the TLS 1.2 list", "the TLS 1.3 suites are not placed before the TLS 1.2 suites")
	r.Check(okRC4, "C09.3", "generateRandomizedSpec:rc4-removed-for-tls13", c.Pos(gen), "RC4 suites are filtered out of TLS 1.3 specs", "TLS 1.3 specs no longer filter RC4 suites")
	// the spec's suites come from removeRandomCiphers(r, shuffledSuites, …)
	okFinal := false
	ast.Inspect(gen.Body, func(n ast.Node) bool {
		as, ok := n.(*ast.AssignStmt)
		if ok && len(as.Lhs) == 1 && len(as.Rhs) == 1 {
			if se, ok := an.Unparen(as.Lhs[0]).(*ast.SelectorExpr); ok && se.Sel.Name == "CipherSuites" {
				if call, ok := an.Unparen(as.Rhs[0]).(*ast.CallExpr); ok && an.IsCallTo(info, call, Mod, "", "removeRandomCiphers") {
					okFinal = true
				}
			}
		}
		return true
	})
	r.Check(okFinal, "C09.3", "generateRandomizedSpec:suites-from-ordered-list", c.Pos(gen), "p.CipherSuites = removeRandomCiphers(ordered list)", "the spec's cipher suites are not taken from the ordered list")
	// removeRC4Ciphers names every RC4 suite of cipherSuites
	rc4 := load.FuncDecl(tls, "", "removeRC4Ciphers")
	if rc4 != nil {
		named := map[int64]bool{}
		ast.Inspect(rc4.Body, func(n ast.Node) bool {
			be, ok := n.(*ast.BinaryExpr)
			if ok && be.Op == token.EQL {
				if v, ok := an.ConstInt(info, be.Y); ok {
					named[v] = true
				}
				if v, ok := an.ConstInt(info, be.X); ok {
					named[v] = true
				}
			}
			if cc, ok := n.(*ast.CaseClause); ok { // switch cipher { case A, B, C: … }
				for _, e := range cc.List {
					if v, ok := an.ConstInt(info, e); ok {
						named[v] = true
					}
				}
			}
			return true
		})
		missing := []string{}
		scope := tls.Types.Scope()
		for _, n := range scope.Names() {
			if k, ok := scope.Lookup(n).(*types.Const); ok && strings.HasPrefix(n, "TLS_") && strings.Contains(n, "_RC4_") {
				v, _ := constOf(c, n)
				_ = k
				// only suites utls implements (present in cipherSuites table)
				if c09SuiteImplemented(c, v) && !named[v] {
					missing = append(missing, n)
				}
			}
		}
		r.Check(len(missing) == 0, "C09.3", "removeRC4Ciphers:complete", c.Pos(rc4), "every implemented RC4 suite is removed", fmt.Sprintf("RC4 suites %v are not removed from TLS 1.3 specs", missing))
	}
	// removeRandomCiphers: loop index starts at 1
	rr := load.FuncDecl(tls, "", "removeRandomCiphers")
	if rr != nil {
		ok := false
		ast.Inspect(rr.Body, func(n ast.Node) bool {
			fs, isFor := n.(*ast.ForStmt)
			if !isFor || fs.Init == nil {
				return true
			}
			if as, isAs := fs.Init.(*ast.AssignStmt); isAs && len(as.Rhs) == 1 {
				if v, isC := an.ConstInt(info, as.Rhs[0]); isC && v >= 1 {
					ok = true
				}
			}
			return true
		})
		r.Check(ok, "C09.3", "removeRandomCiphers:keeps-first", c.Pos(rr), "the removal loop starts at index 1 (the most preferred suite is never removed)", "the first cipher suite can be removed: a TLS 1.3 spec may lose its leading TLS 1.3 suite ordering")
	}
	// shuffledCiphers: isObsolete = (flags & suiteTLS12) == 0 and Less sorts obsolete last
	sc := load.FuncDecl(tls, "", "shuffledCiphers")
	less := load.FuncDecl(tls, "sortableCiphers", "Less")
	if sc != nil && less != nil {
		okObs := false
		ast.Inspect(sc.Body, func(n ast.Node) bool {
			kv, ok := n.(*ast.KeyValueExpr)
			if !ok {
				return true
			}
			if k, ok := kv.Key.(*ast.Ident); ok && k.Name == "isObsolete" {
				if be, ok := an.Unparen(kv.Value).(*ast.BinaryExpr); ok && be.Op == token.EQL {
					if z, ok := an.ConstInt(info, be.Y); ok && z == 0 {
						if and, ok := an.Unparen(be.X).(*ast.BinaryExpr); ok && and.Op == token.AND {
							if id, ok := an.Unparen(and.Y).(*ast.Ident); ok && id.Name == "suiteTLS12" {
								okObs = true
							}
						}
					}
				}
			}
			return true
		})
		// Less(i,j): if i obsolete && !j obsolete -> false ; if j obsolete && !i obsolete -> true
		okLess := c09LessShape(c, less)
		r.Check(okObs && okLess, "C09.3", "shuffledCiphers:obsolete-last", c.Pos(sc), "suites without the TLS 1.2 flag sort after TLS 1.2 suites; ties are broken by the seeded permutation", "the cipher ordering no longer puts TLS 1.2 suites before older ones")
		usesPerm := an.Contains(sc.Body, an.CallTo(info, Mod, "prng", "Perm"))
		r.Check(usesPerm, "C09.3", "shuffledCiphers:seeded-permutation", c.Pos(sc), "the random tags come from the seeded prng", "the cipher shuffle does not draw from the seeded prng")
	}
	r.Floor("C09.3", 6)
}

func c09SuiteImplemented(c *Ctx, id int64) bool {
	tls := c.P.TLS
	info := tls.TypesInfo
	found := false
	for _, f := range tls.Syntax {
		ast.Inspect(f, func(n ast.Node) bool {
			vs, ok := n.(*ast.ValueSpec)
			if !ok || len(vs.Names) != 1 || vs.Names[0].Name != "cipherSuites" || len(vs.Values) != 1 {
				return true
			}
			ast.Inspect(vs.Values[0], func(m ast.Node) bool {
				cl, ok := m.(*ast.CompositeLit)
				if ok && len(cl.Elts) > 0 {
					if v, ok := an.ConstInt(info, cl.Elts[0]); ok && v == id {
						found = true
					}
				}
				return true
			})
			return false
		})
	}
	return found
}

func c09LessShape(c *Ctx, less *ast.FuncDecl) bool {
	// decided by evaluating the body on the two mixed cases: Less(i,j) must be false when only i
	// is obsolete and true when only j is; any way of writing that is accepted
	info := c.Info()
	params := less.Type.Params.List[0].Names
	if len(params) != 2 {
		return false
	}
	iO, jO := info.Defs[params[0]], info.Defs[params[1]]
	eval := func(vi, vj bool) (res bool, known bool) {
		var ev func(e ast.Expr) (bool, bool)
		ev = func(e ast.Expr) (bool, bool) {
			e = an.Unparen(e)
			switch x := e.(type) {
			case *ast.Ident:
				if x.Name == "true" {
					return true, true
				}
				if x.Name == "false" {
					return false, true
				}
			case *ast.UnaryExpr:
				if x.Op == token.NOT {
					v, ok := ev(x.X)
					return !v, ok
				}
			case *ast.SelectorExpr:
				if x.Sel.Name == "isObsolete" {
					if ix, ok := an.Unparen(x.X).(*ast.IndexExpr); ok {
						if id, ok := an.Unparen(ix.Index).(*ast.Ident); ok {
							switch info.Uses[id] {
							case iO:
								return vi, true
							case jO:
								return vj, true
							}
						}
					}
				}
			case *ast.BinaryExpr:
				a, oka := ev(x.X)
				b, okb := ev(x.Y)
				switch x.Op {
				case token.LAND:
					if (oka && !a) || (okb && !b) {
						return false, true
					}
					return a && b, oka && okb
				case token.LOR:
					if (oka && a) || (okb && b) {
						return true, true
					}
					return a || b, oka && okb
				case token.EQL:
					return a == b, oka && okb
				case token.NEQ:
					return a != b, oka && okb
				}
			}
			return false, false
		}
		var run func(list []ast.Stmt) (bool, bool, bool) // result, known, returned
		run = func(list []ast.Stmt) (bool, bool, bool) {
			for _, st := range list {
				switch x := st.(type) {
				case *ast.IfStmt:
					if x.Init != nil {
						return false, false, true
					}
					cv, ok := ev(x.Cond)
					if !ok {
						return false, false, true
					}
					if cv {
						if r, k, ret := run(x.Body.List); ret {
							return r, k, true
						}
					} else if x.Else != nil {
						var el []ast.Stmt
						switch e := x.Else.(type) {
						case *ast.BlockStmt:
							el = e.List
						case *ast.IfStmt:
							el = []ast.Stmt{e}
						}
						if r, k, ret := run(el); ret {
							return r, k, true
						}
					}
				case *ast.ReturnStmt:
					if len(x.Results) != 1 {
						return false, false, true
					}
					v, ok := ev(x.Results[0])
					return v, ok, true
				case *ast.BlockStmt:
					if r, k, ret := run(x.List); ret {
						return r, k, true
					}
				default:
					return false, false, true
				}
			}
			return false, false, false
		}
		r, k, ret := run(less.Body.List)
		return r, k && ret
	}
	a, oka := eval(true, false)
	b, okb := eval(false, true)
	return oka && okb && !a && b
}
