package props

// Engine E6 part 2: discharging index / slice / make / division sites.
//
// An obligation is a linear inequality  L <= 0  over atoms (local variables, len(x) of a
// value path, opaque sub-expressions). Facts come from
//   - conditions that dominate the site on the CFG with the outcome that lets execution
//     reach it (if len(s) < K {return}, loop conditions, i+K > len(s) -> exit, len(s) != K
//     -> exit, switch-true forms), kept only if no variable (or field path) of the fact is
//     modified on a path from the condition to the site;
//   - enclosing `for i, v := range s` / `for i := range n` statements;
//   - single definitions: x := make([]T, E), x := []T{...}, n := copy(a, b),
//     n, err := r.Read(b) / io.ReadFull(r, b), x := s[a:b], v := p.Intn(E), var x [K]T;
//   - monotone counters (i := K >= 0, only ever increased by non-negative amounts);
//   - types: len()/cap() and unsigned values are >= 0, uint8/uint16 are bounded.
// The prover tries the goal alone, then the goal minus one, two or three facts; what is
// left must be a constant <= 0 plus non-positive multiples of non-negative atoms.

import (
	"fmt"
	"go/ast"
	"go/constant"
	"go/token"
	"go/types"
	"sort"
	"strings"

	"golang.org/x/tools/go/cfg"

	"verif/internal/an"
)

type prAtom struct {
	key    string
	nonneg bool
	max    int64 // type-implied upper bound, -1 = none
	paths  []prPath
	isLen  bool
}

// prPath is a selector chain rooted at a local variable (x, x.f, x.f.g); pointer
// indirections are not distinguished.
type prPath struct {
	root types.Object
	key  string
}

type prMut struct {
	n   ast.Node
	key string
}

func pathAffects(m, a string) bool {
	return m == a || strings.HasPrefix(a, m+".") || strings.HasPrefix(m, a+".")
}

type prLin struct {
	c int64
	t map[string]int64
}

func (l prLin) clone() prLin {
	m := prLin{c: l.c, t: map[string]int64{}}
	for k, v := range l.t {
		m.t[k] = v
	}
	return m
}

func (l prLin) add(o prLin, k int64) prLin {
	r := l.clone()
	r.c += k * o.c
	for a, v := range o.t {
		r.t[a] += k * v
		if r.t[a] == 0 {
			delete(r.t, a)
		}
	}
	return r
}

func prConst(c int64) prLin { return prLin{c: c, t: map[string]int64{}} }

func (l prLin) String() string {
	var ks []string
	for k := range l.t {
		ks = append(ks, k)
	}
	sort.Strings(ks)
	s := ""
	for _, k := range ks {
		s += fmt.Sprintf("%+d*%s ", l.t[k], prShortKey(k))
	}
	return s + fmt.Sprintf("%+d", l.c)
}

// prShortKey drops the @pos disambiguators for display.
func prShortKey(k string) string {
	var b strings.Builder
	skip := false
	for _, r := range k {
		if r == '@' {
			skip = true
			continue
		}
		if skip && r >= '0' && r <= '9' {
			continue
		}
		skip = false
		b.WriteRune(r)
	}
	return b.String()
}

type prFact struct {
	l   prLin // l <= 0
	why string
}

// prCase marks a fact (by its why text) as holding only in one case of a two-way case
// split (v := p.Intn(E): either v <= E-1, or E <= 0 and v == 0). A goal must be proved
// in every case of a split it uses.
type prCase struct{ alt, cas int }

// prover works on one function.
type prover struct {
	pp    *prProg
	f     *prFunc
	info  *types.Info
	atoms map[string]*prAtom
	muts  map[types.Object][]prMut // nodes assigning / taking the address of a local or of a field path rooted at it
	cache map[prLoc][]prFact
	nn    map[types.Object]int // 0 unknown, 1 nonneg, 2 not, 3 in progress
	nAlt  int
	cases map[string]prCase
	neq   map[string]bool // why-texts of disequality facts (l != 0, not l <= 0); see strengthen
	cnt   map[types.Object][]prFact

	invariants []*prInvariant
}

// prInvariant is a frozen length fact about a struct field: every value path ending in
// Owner.Field has length Len, because of an establishing statement that is checked to
// still exist on every run (holds reports whether it was found).
type prInvariant struct {
	Owner, Field string
	Len          int64
	Reason       string
	holds        bool
	used         int
}

func newProver(pp *prProg, f *prFunc) *prover {
	f.ensure()
	pv := &prover{pp: pp, f: f, info: f.pkg.TypesInfo, atoms: map[string]*prAtom{}, cache: map[prLoc][]prFact{}, nn: map[types.Object]int{}}
	pv.collectMutations()
	return pv
}

// ---- expression keys, paths and atoms

func varKey(v types.Object) string { return fmt.Sprintf("%s@%d", v.Name(), v.Pos()) }

// pathOf recognises a pure selector chain rooted at a variable.
func (pv *prover) pathOf(e ast.Expr) (prPath, bool) {
	switch x := an.Unparen(e).(type) {
	case *ast.Ident:
		if v, ok := objOf(pv.info, x).(*types.Var); ok && !v.IsField() {
			return prPath{v, varKey(v)}, true
		}
	case *ast.SelectorExpr:
		if sel := pv.info.Selections[x]; sel != nil && sel.Kind() == types.FieldVal {
			if p, ok := pv.pathOf(x.X); ok {
				return prPath{p.root, p.key + "." + x.Sel.Name}, true
			}
		}
	case *ast.StarExpr:
		return pv.pathOf(x.X)
	}
	return prPath{}, false
}

func (pv *prover) exprKey(e ast.Expr, paths *[]prPath) string {
	e = an.Unparen(e)
	if p, ok := pv.pathOf(e); ok {
		*paths = append(*paths, p)
		return p.key
	}
	switch x := e.(type) {
	case *ast.Ident:
		return x.Name
	case *ast.BasicLit:
		return x.Value
	case *ast.SelectorExpr:
		if id, ok := an.Unparen(x.X).(*ast.Ident); ok {
			if _, isPkg := pv.info.Uses[id].(*types.PkgName); isPkg {
				return an.Str(x)
			}
		}
		return pv.exprKey(x.X, paths) + "." + x.Sel.Name
	case *ast.IndexExpr:
		return pv.exprKey(x.X, paths) + "[" + pv.exprKey(x.Index, paths) + "]"
	case *ast.StarExpr:
		return "*" + pv.exprKey(x.X, paths)
	case *ast.UnaryExpr:
		return x.Op.String() + pv.exprKey(x.X, paths)
	case *ast.BinaryExpr:
		return "(" + pv.exprKey(x.X, paths) + x.Op.String() + pv.exprKey(x.Y, paths) + ")"
	case *ast.CallExpr:
		var as []string
		for _, a := range x.Args {
			as = append(as, pv.exprKey(a, paths))
		}
		return pv.exprKey(x.Fun, paths) + "(" + strings.Join(as, ",") + ")"
	case *ast.SliceExpr:
		s := pv.exprKey(x.X, paths) + "["
		if x.Low != nil {
			s += pv.exprKey(x.Low, paths)
		}
		s += ":"
		if x.High != nil {
			s += pv.exprKey(x.High, paths)
		}
		return s + "]"
	}
	ast.Inspect(e, func(n ast.Node) bool {
		if id, ok := n.(*ast.Ident); ok {
			if v, ok := objOf(pv.info, id).(*types.Var); ok && !v.IsField() {
				*paths = append(*paths, prPath{v, varKey(v)})
			}
		}
		return true
	})
	return an.Str(e)
}

func (pv *prover) atom(key string, nonneg bool, max int64, paths []prPath, isLen bool) prLin {
	if a, ok := pv.atoms[key]; ok {
		if nonneg {
			a.nonneg = true
		}
		if max >= 0 && (a.max < 0 || max < a.max) {
			a.max = max
		}
	} else {
		pv.atoms[key] = &prAtom{key: key, nonneg: nonneg, max: max, paths: paths, isLen: isLen}
	}
	return prLin{t: map[string]int64{key: 1}}
}

func typeMax(t types.Type) int64 {
	b, ok := t.Underlying().(*types.Basic)
	if !ok {
		return -1
	}
	switch b.Kind() {
	case types.Uint8:
		return 255
	case types.Uint16:
		return 65535
	}
	return -1
}

func intWidth(t types.Type) int {
	b, ok := t.Underlying().(*types.Basic)
	if !ok {
		return 0
	}
	switch b.Kind() {
	case types.Int8, types.Uint8:
		return 8
	case types.Int16, types.Uint16:
		return 16
	case types.Int32, types.Uint32:
		return 32
	case types.Int64, types.Uint64, types.Int, types.Uint, types.Uintptr:
		return 64
	case types.UntypedInt, types.UntypedRune:
		return 64
	}
	return 0
}

func isStringType(t types.Type) bool {
	if t == nil {
		return false
	}
	b, ok := t.Underlying().(*types.Basic)
	return ok && b.Info()&types.IsString != 0
}

// lenOf returns the linear form of len(x).
func (pv *prover) lenOf(x ast.Expr) prLin {
	t := pv.info.TypeOf(x)
	if t != nil {
		if a, ok := derefArr(t).(*types.Array); ok {
			return prConst(a.Len())
		}
		if tv, ok := pv.info.Types[x]; ok && tv.Value != nil && tv.Value.Kind() == constant.String {
			return prConst(int64(len(constant.StringVal(tv.Value))))
		}
	}
	// []byte(s) / string(b) / namedSlice(b) have the length of their operand
	if c, ok := an.Unparen(x).(*ast.CallExpr); ok && len(c.Args) == 1 {
		if tv, ok := pv.info.Types[c.Fun]; ok && tv.IsType() {
			at := pv.info.TypeOf(c.Args[0])
			if at != nil {
				if _, isSl := at.Underlying().(*types.Slice); isSl || isStringType(at) {
					if _, toSl := tv.Type.Underlying().(*types.Slice); toSl || isStringType(tv.Type) {
						return pv.lenOf(c.Args[0])
					}
				}
			}
		}
	}
	for _, inv := range pv.invariants {
		if inv.holds && an.FieldSel(pv.info, an.Unparen(x), inv.Owner, inv.Field) {
			inv.used++
			return prConst(inv.Len)
		}
	}
	var paths []prPath
	k := pv.exprKey(x, &paths)
	return pv.atom("len("+k+")", true, -1, paths, true)
}

// lin converts an integer expression into a linear form (never fails: unknown shapes
// become opaque atoms).
func (pv *prover) lin(e ast.Expr) prLin {
	e = an.Unparen(e)
	if v, ok := an.ConstInt(pv.info, e); ok {
		return prConst(v)
	}
	t := pv.info.TypeOf(e)
	switch x := e.(type) {
	case *ast.BinaryExpr:
		switch x.Op {
		case token.ADD:
			return pv.lin(x.X).add(pv.lin(x.Y), 1)
		case token.SUB:
			// unsigned subtraction may wrap: keep it opaque
			if !prIsUnsigned(t) {
				return pv.lin(x.X).add(pv.lin(x.Y), -1)
			}
		case token.MUL:
			if v, ok := an.ConstInt(pv.info, x.X); ok && v >= 0 && v < 1<<20 {
				return prConst(0).add(pv.lin(x.Y), v)
			}
			if v, ok := an.ConstInt(pv.info, x.Y); ok && v >= 0 && v < 1<<20 {
				return prConst(0).add(pv.lin(x.X), v)
			}
		case token.SHL:
			if v, ok := an.ConstInt(pv.info, x.Y); ok && v >= 0 && v < 20 {
				return prConst(0).add(pv.lin(x.X), 1<<uint(v))
			}
		case token.AND:
			// x & K is within [0, K]
			var paths []prPath
			k := pv.exprKey(e, &paths)
			if v, ok := an.ConstInt(pv.info, x.Y); ok && v >= 0 {
				return pv.atom(k, true, v, paths, false)
			}
			if v, ok := an.ConstInt(pv.info, x.X); ok && v >= 0 {
				return pv.atom(k, true, v, paths, false)
			}
		}
	case *ast.CallExpr:
		if id, ok := an.Unparen(x.Fun).(*ast.Ident); ok {
			if b, isB := pv.info.Uses[id].(*types.Builtin); isB && len(x.Args) == 1 {
				switch b.Name() {
				case "len":
					return pv.lenOf(x.Args[0])
				case "cap":
					var paths []prPath
					k := pv.exprKey(x.Args[0], &paths)
					return pv.atom("cap("+k+")", true, -1, paths, true)
				}
			}
		}
		// integer conversion
		if tv, ok := pv.info.Types[x.Fun]; ok && tv.IsType() && len(x.Args) == 1 && prIsInteger(tv.Type) {
			src := pv.info.TypeOf(x.Args[0])
			if prIsInteger(src) {
				sw, dw := intWidth(src), intWidth(tv.Type)
				su, du := prIsUnsigned(src), prIsUnsigned(tv.Type)
				// value preserving: widening with the same signedness, or unsigned -> wider signed
				if (su == du && dw >= sw) || (su && !du && dw > sw) {
					return pv.lin(x.Args[0])
				}
			}
		}
	}
	var paths []prPath
	k := pv.exprKey(e, &paths)
	nonneg := prIsUnsigned(t)
	max := int64(-1)
	if t != nil {
		max = typeMax(t)
	}
	if id, ok := e.(*ast.Ident); ok {
		if v, isV := objOf(pv.info, id).(*types.Var); isV && !nonneg && pv.nonnegVar(v) {
			nonneg = true
		}
	}
	return pv.atom(k, nonneg, max, paths, false)
}

// ---- mutations

// collectMutations records, per local variable, the nodes that may change it or a field
// path rooted at it: assignment, ++/--, taking the address, calling a pointer-receiver
// method on an addressable value, (re)definition as a range variable or in a var spec.
// Writes to elements (x[i] = v) are not mutations of x here: they do not change len(x).
func (pv *prover) collectMutations() {
	pv.muts = map[types.Object][]prMut{}
	note := func(e ast.Expr, n ast.Node) {
		if e == nil {
			return
		}
		if p, ok := pv.pathOf(e); ok {
			pv.muts[p.root] = append(pv.muts[p.root], prMut{n, p.key})
		}
	}
	ast.Inspect(pv.f.decl, func(n ast.Node) bool {
		switch x := n.(type) {
		case *ast.AssignStmt:
			for _, l := range x.Lhs {
				note(l, x)
			}
		case *ast.IncDecStmt:
			note(x.X, x)
		case *ast.UnaryExpr:
			if x.Op == token.AND {
				note(x.X, x)
			}
		case *ast.RangeStmt:
			note(x.Key, x)
			note(x.Value, x)
		case *ast.ValueSpec:
			for _, id := range x.Names {
				if v, ok := pv.info.Defs[id].(*types.Var); ok {
					pv.muts[v] = append(pv.muts[v], prMut{x, varKey(v)})
				}
			}
		case *ast.CallExpr:
			if se, ok := an.Unparen(x.Fun).(*ast.SelectorExpr); ok {
				if sel := pv.info.Selections[se]; sel != nil && sel.Kind() == types.MethodVal {
					if fn, ok := sel.Obj().(*types.Func); ok {
						if r := fn.Type().(*types.Signature).Recv(); r != nil {
							if _, ptr := r.Type().(*types.Pointer); ptr {
								if _, recvIsPtr := pv.info.TypeOf(se.X).Underlying().(*types.Pointer); !recvIsPtr {
									note(se.X, x)
								}
							}
						}
					}
				}
			}
		}
		return true
	})
}

// mutatesAt: node n (a CFG node) contains a mutation affecting one of paths.
func (pv *prover) mutatesAt(n ast.Node, paths []prPath) bool {
	for _, p := range paths {
		for _, m := range pv.muts[p.root] {
			if pathAffects(m.key, p.key) && n.Pos() <= m.n.Pos() && m.n.End() <= n.End() {
				return true
			}
		}
	}
	return false
}

// varMuts lists the mutations of the variable itself (not of its fields).
func (pv *prover) varMuts(v types.Object) []ast.Node {
	var out []ast.Node
	k := varKey(v)
	for _, m := range pv.muts[v] {
		if m.key == k {
			out = append(out, m.n)
		}
	}
	return out
}

// singleDef returns the only node that assigns v, if there is exactly one.
func (pv *prover) singleDef(v types.Object) ast.Node {
	ms := pv.varMuts(v)
	if len(ms) != 1 {
		return nil
	}
	return ms[0]
}

// nonnegVar: every assignment to v gives it a non-negative value.
func (pv *prover) nonnegVar(v *types.Var) bool {
	switch pv.nn[v] {
	case 1:
		return true
	case 2, 3:
		return false
	}
	if prIsUnsigned(v.Type()) {
		pv.nn[v] = 1
		return true
	}
	pv.nn[v] = 3
	ms := pv.varMuts(v)
	ok := len(ms) > 0 && prIsInteger(v.Type())
	for _, m := range ms {
		if !ok {
			break
		}
		switch x := m.(type) {
		case *ast.IncDecStmt:
			if x.Tok != token.INC {
				ok = false
			}
		case *ast.RangeStmt:
			// a range key over slice/array/string/int is >= 0; a range value is not known
			if id, _ := x.Key.(*ast.Ident); id == nil || objOf(pv.info, id) != v {
				ok = false
			} else if _, isMap := pv.info.TypeOf(x.X).Underlying().(*types.Map); isMap {
				ok = false
			}
		case *ast.ValueSpec:
			for i, id := range x.Names {
				if pv.info.Defs[id] != v {
					continue
				}
				if len(x.Values) == 0 {
					continue // zero value
				}
				if len(x.Values) != len(x.Names) || !pv.nonnegExpr(x.Values[i]) {
					ok = false
				}
			}
		case *ast.AssignStmt:
			for i, l := range x.Lhs {
				id, _ := an.Unparen(l).(*ast.Ident)
				if id == nil || objOf(pv.info, id) != v {
					continue
				}
				switch x.Tok {
				case token.ASSIGN, token.DEFINE:
					if len(x.Rhs) == len(x.Lhs) {
						if !pv.nonnegExpr(x.Rhs[i]) {
							ok = false
						}
					} else if len(x.Rhs) == 1 {
						if !pv.nonnegResult(x.Rhs[0], i) {
							ok = false
						}
					} else {
						ok = false
					}
				case token.ADD_ASSIGN:
					if !pv.nonnegExpr(x.Rhs[0]) {
						ok = false
					}
				default:
					ok = false
				}
			}
		default:
			ok = false // address taken etc.
		}
	}
	if ok {
		pv.nn[v] = 1
	} else {
		pv.nn[v] = 2
	}
	return ok
}

func (pv *prover) nonnegExpr(e ast.Expr) bool {
	if call, ok := an.Unparen(e).(*ast.CallExpr); ok {
		if fn, _ := an.Callee(pv.info, call).(*types.Func); fn != nil && pv.calleeNonneg(fn) {
			return true
		}
	}
	l := pv.lin(e)
	if l.c < 0 {
		return false
	}
	for k, c := range l.t {
		if c < 0 || !pv.atoms[k].nonneg {
			return false
		}
	}
	return true
}

// nonnegResult: result #i of a multi-value call is non-negative (Read-like).
func (pv *prover) nonnegResult(e ast.Expr, i int) bool {
	call, ok := an.Unparen(e).(*ast.CallExpr)
	if !ok || i != 0 {
		return false
	}
	return pv.readLike(call) != nil
}

// readLike recognises n, err := r.Read(buf) / io.ReadFull(r, buf) / io.ReadAtLeast(r, buf, k)
// / rand.Read(buf): 0 <= n <= len(buf) by the io.Reader contract. Returns buf.
func (pv *prover) readLike(call *ast.CallExpr) ast.Expr {
	fn, _ := an.Callee(pv.info, call).(*types.Func)
	if fn == nil {
		return nil
	}
	sig := fn.Type().(*types.Signature)
	if sig.Results().Len() != 2 || !prIsInteger(sig.Results().At(0).Type()) {
		return nil
	}
	if fn.Pkg() != nil && fn.Pkg().Path() == "io" && (fn.Name() == "ReadFull" || fn.Name() == "ReadAtLeast") && len(call.Args) >= 2 {
		return call.Args[1]
	}
	if fn.Name() == "Read" && len(call.Args) == 1 {
		if _, isSl := pv.info.TypeOf(call.Args[0]).Underlying().(*types.Slice); isSl {
			return call.Args[0]
		}
	}
	return nil
}

// ---- facts

// cmpFacts turns `x op y` holding (pos) or failing (!pos) into linear facts.
func (pv *prover) cmpFacts(cond ast.Expr, pos bool, why string) []prFact {
	cond = an.Unparen(cond)
	if u, ok := cond.(*ast.UnaryExpr); ok && u.Op == token.NOT {
		return pv.cmpFacts(u.X, !pos, why)
	}
	be, ok := cond.(*ast.BinaryExpr)
	if !ok {
		return nil
	}
	if !prIsInteger(pv.info.TypeOf(be.X)) || !prIsInteger(pv.info.TypeOf(be.Y)) {
		return nil
	}
	op := be.Op
	if !pos {
		switch op {
		case token.LSS:
			op = token.GEQ
		case token.LEQ:
			op = token.GTR
		case token.GTR:
			op = token.LEQ
		case token.GEQ:
			op = token.LSS
		case token.EQL:
			op = token.NEQ
		case token.NEQ:
			op = token.EQL
		default:
			return nil
		}
	}
	x, y := pv.lin(be.X), pv.lin(be.Y)
	d := x.add(y, -1) // x - y
	w := fmt.Sprintf("%s `%s` is %v", why, an.Str(cond), pos)
	switch op {
	case token.LSS: // x - y + 1 <= 0
		return []prFact{{d.add(prConst(1), 1), w}}
	case token.LEQ:
		return []prFact{{d, w}}
	case token.GTR: // y - x + 1 <= 0
		return []prFact{{prConst(1).add(d, -1), w}}
	case token.GEQ:
		return []prFact{{prConst(0).add(d, -1), w}}
	case token.EQL:
		return []prFact{{d, w}, {prConst(0).add(d, -1), w}}
	case token.NEQ:
		// x != y is linear only when one order is excluded by value ranges (len(s) != 0)
		if pv.trivial(prConst(0).add(d, -1)) { // y <= x always, hence x >= y+1
			return []prFact{{prConst(1).add(d, -1), w}}
		}
		if pv.trivial(d) { // x <= y always, hence x <= y-1
			return []prFact{{d.add(prConst(1), 1), w}}
		}
		// neither order is excluded by ranges alone: keep the disequality; it becomes linear
		// once the other facts of the site exclude one order (i <= n and i != n give i <= n-1)
		w += " [disequality]"
		if pv.neq == nil {
			pv.neq = map[string]bool{}
		}
		pv.neq[w] = true
		return []prFact{{d, w}}
	}
	return nil
}

// strengthen replaces every disequality fact d != 0 by d+1 <= 0 when the plain facts give
// d <= 0, by 1-d <= 0 when they give d >= 0, and drops it otherwise (integers: no value lies
// strictly between). Two rounds, so that one strengthened fact can decide the next.
func (pv *prover) strengthen(facts []prFact) []prFact {
	if len(pv.neq) == 0 {
		return facts
	}
	var le, ne []prFact
	for _, f := range facts {
		if pv.neq[f.why] {
			ne = append(ne, f)
		} else {
			le = append(le, f)
		}
	}
	if len(ne) == 0 {
		return facts
	}
	var basis []prFact
	for _, f := range le {
		if _, isCase := pv.cases[f.why]; !isCase {
			basis = append(basis, f)
		}
	}
	done := make([]bool, len(ne))
	for round := 0; round < 2; round++ {
		for i, n := range ne {
			if done[i] {
				continue
			}
			if ok, why := pv.proveFlat(n.l, basis); ok {
				done[i] = true
				f := prFact{n.l.add(prConst(1), 1), n.why + " with <= from " + why}
				le, basis = append(le, f), append(basis, f)
			} else if ok, why := pv.proveFlat(prConst(0).add(n.l, -1), basis); ok {
				done[i] = true
				f := prFact{prConst(1).add(n.l, -1), n.why + " with >= from " + why}
				le, basis = append(le, f), append(basis, f)
			}
		}
	}
	return le
}

func (pv *prover) factPaths(fs []prFact) []prPath {
	var out []prPath
	for _, f := range fs {
		for k := range f.l.t {
			out = append(out, pv.atoms[k].paths...)
		}
	}
	return out
}

// stable: nothing the fact mentions is modified on a path from edge e (out of the
// condition at `at`) to p that does not re-evaluate the condition.
func (pv *prover) stable(fn *an.Fn, e an.Edge, at, p an.Point, paths []prPath) bool {
	if len(paths) == 0 {
		return true
	}
	fwd := prWalk(prSucc(at, e.K), map[an.Point]bool{p: true, at: true})
	for m := range fwd {
		if m == p || m == at || m.I < 0 {
			continue
		}
		if !pv.mutatesAt(m.Node(), paths) {
			continue
		}
		if prWalk(prSucc(m, -1), map[an.Point]bool{at: true})[p] {
			return false
		}
	}
	return true
}

// prSucc lists the points that follow p: the next node of its block, or the first points
// of the successor blocks (only successor k if k >= 0). An empty block is represented by
// the pseudo point {B,-1}.
func prSucc(p an.Point, k int) []an.Point {
	if p.I+1 < len(p.B.Nodes) {
		return []an.Point{{B: p.B, I: p.I + 1}}
	}
	var out []an.Point
	for i, s := range p.B.Succs {
		if k >= 0 && i != k {
			continue
		}
		if len(s.Nodes) > 0 {
			out = append(out, an.Point{B: s, I: 0})
		} else {
			out = append(out, an.Point{B: s, I: -1})
		}
	}
	return out
}

// prWalk returns every point reachable from start (start included); points in stop are
// visited but not continued from.
func prWalk(start []an.Point, stop map[an.Point]bool) map[an.Point]bool {
	seen := map[an.Point]bool{}
	work := append([]an.Point{}, start...)
	for len(work) > 0 {
		p := work[len(work)-1]
		work = work[:len(work)-1]
		if seen[p] {
			continue
		}
		seen[p] = true
		if stop[p] {
			continue
		}
		work = append(work, prSucc(p, -1)...)
	}
	return seen
}

// inTaggedCase: cond is a case expression of a switch with a tag (not a boolean test).
func (pv *prover) inTaggedCase(cond ast.Expr) bool {
	if cc, ok := pv.f.parent[cond].(*ast.CaseClause); ok {
		if body, ok := pv.f.parent[cc].(*ast.BlockStmt); ok {
			if sw, ok := pv.f.parent[body].(*ast.SwitchStmt); ok && sw.Tag != nil {
				return true
			}
		}
	}
	return false
}

// condFacts: facts from dominating conditions at a CFG location.
func (pv *prover) condFacts(loc prLoc) []prFact {
	if fs, ok := pv.cache[loc]; ok {
		return fs
	}
	var out []prFact
	for _, dc := range prDominatingConds(loc.fn, loc.p) {
		if pv.inTaggedCase(dc.cond) {
			continue
		}
		fs := pv.cmpFacts(dc.cond, dc.onTrue, "guard")
		if len(fs) == 0 {
			continue
		}
		if !pv.stable(loc.fn, dc.edge, dc.at, loc.p, pv.factPaths(fs)) {
			continue
		}
		out = append(out, fs...)
	}
	pv.cache[loc] = out
	return out
}

// localFacts: facts from the earlier operands of the short-circuit expression the site is
// part of (len(s) > 0 && s[0] == x).
func (pv *prover) localFacts(site ast.Node) []prFact {
	var out []prFact
	for _, dc := range pv.f.localConds(site) {
		out = append(out, pv.cmpFacts(dc.cond, dc.onTrue, "earlier operand")...)
	}
	return out
}

// rangeFacts: enclosing range statements whose key indexes the ranged value.
func (pv *prover) rangeFacts(site ast.Node) []prFact {
	var out []prFact
	var child ast.Node = site
	for p := pv.f.parent[site]; p != nil; child, p = p, pv.f.parent[p] {
		rs, ok := p.(*ast.RangeStmt)
		if !ok || child != ast.Node(rs.Body) {
			continue
		}
		kid, _ := rs.Key.(*ast.Ident)
		if kid == nil || kid.Name == "_" {
			continue
		}
		kobj := objOf(pv.info, kid)
		if kobj == nil {
			continue
		}
		var bound prLin
		xt := pv.info.TypeOf(rs.X)
		if xt == nil {
			continue
		}
		switch derefArr(xt).(type) {
		case *types.Slice, *types.Array:
			bound = pv.lenOf(rs.X)
		case *types.Basic:
			if prIsInteger(xt) {
				bound = pv.lin(rs.X)
			} else if isStringType(xt) {
				bound = pv.lenOf(rs.X)
			} else {
				continue
			}
		default:
			continue
		}
		// neither the key nor the ranged value may be modified between the loop head and the site
		paths := []prPath{{kobj, varKey(kobj)}}
		for k := range bound.t {
			paths = append(paths, pv.atoms[k].paths...)
		}
		if !pv.rangeStable(rs, site, paths) {
			continue
		}
		k := pv.lin(kid)
		why := "range " + an.Str(rs.X)
		out = append(out, prFact{prConst(0).add(k, -1), why})               // -k <= 0
		out = append(out, prFact{k.add(prConst(1), 1).add(bound, -1), why}) // k+1-len <= 0
	}
	return out
}

// rangeStable: on no path from the head of the range loop to the site (within one
// iteration) is one of paths modified. Uses the CFG when the site is in the same function
// body as the loop, and the coarser "not modified anywhere in the loop body" otherwise.
func (pv *prover) rangeStable(rs *ast.RangeStmt, site ast.Node, paths []prPath) bool {
	loc, ok := pv.f.points[site]
	if ok {
		for _, b := range loc.fn.G.Blocks {
			if b.Live && b.Kind == cfg.KindRangeLoop && b.Stmt == ast.Stmt(rs) && len(b.Succs) == 2 {
				head := an.Point{B: b, I: len(b.Nodes) - 1}
				e := an.Edge{B: b, K: 0}
				if !loc.fn.MustPass(loc.p, nil, []an.Edge{e}) {
					return false
				}
				return pv.stable(loc.fn, e, head, loc.p, paths)
			}
		}
	}
	for _, pa := range paths {
		for _, m := range pv.muts[pa.root] {
			if pathAffects(m.key, pa.key) && m.n != ast.Node(rs) && rs.Body.Pos() <= m.n.Pos() && m.n.End() <= rs.Body.End() {
				return false
			}
		}
	}
	return true
}

// defFacts: facts from the single definition of local variables mentioned in atoms.
func (pv *prover) defFacts(seed []prPath) []prFact {
	var out []prFact
	done := map[types.Object]bool{}
	work := append([]prPath{}, seed...)
	for n := 0; len(work) > 0 && n < 200; n++ {
		o := work[0].root
		work = work[1:]
		if o == nil || done[o] {
			continue
		}
		done[o] = true
		v, ok := o.(*types.Var)
		if !ok || v.IsField() {
			continue
		}
		def := pv.singleDef(v)
		if def == nil {
			fs := pv.appendBounded(v)
			fs = append(fs, pv.counterBounded(v)...)
			out = append(out, fs...)
			work = append(work, pv.factPaths(fs)...)
			continue
		}
		fs := pv.defFactsOf(v, def)
		out = append(out, fs...)
		work = append(work, pv.factPaths(fs)...)
	}
	return out
}

// appendBounded recognises a slice that is built in parallel with a loop over another:
//
//	v := make([]T, 0, n) | []T{} | var v []T
//	for ... := range X { ... v = append(v, one) ... }      (at most one append per iteration)
//
// and nothing else assigns v. Then len(v) <= len(X) holds everywhere.
func (pv *prover) appendBounded(v *types.Var) []prFact {
	if _, isSl := v.Type().Underlying().(*types.Slice); !isSl {
		return nil
	}
	ms := pv.varMuts(v)
	if len(ms) < 2 {
		return nil
	}
	var loop *ast.RangeStmt
	var appends []ast.Node
	defs := 0
	for _, m := range ms {
		empty := false
		switch d := m.(type) {
		case *ast.ValueSpec:
			for i, id := range d.Names {
				if pv.info.Defs[id] == v {
					empty = len(d.Values) == 0 || (len(d.Values) == len(d.Names) && pv.emptySliceExpr(d.Values[i]))
				}
			}
			if !empty {
				return nil
			}
			defs++
			continue
		case *ast.AssignStmt:
			if len(d.Lhs) != 1 || len(d.Rhs) != 1 {
				return nil
			}
			if d.Tok == token.DEFINE {
				if !pv.emptySliceExpr(d.Rhs[0]) {
					return nil
				}
				defs++
				continue
			}
			if d.Tok != token.ASSIGN {
				return nil
			}
			call, ok := an.Unparen(d.Rhs[0]).(*ast.CallExpr)
			if !ok || len(call.Args) != 2 || call.Ellipsis.IsValid() {
				return nil
			}
			id, _ := an.Unparen(call.Fun).(*ast.Ident)
			if id == nil {
				return nil
			}
			if b, isB := pv.info.Uses[id].(*types.Builtin); !isB || b.Name() != "append" {
				return nil
			}
			if a0, _ := an.Unparen(call.Args[0]).(*ast.Ident); a0 == nil || objOf(pv.info, a0) != v {
				return nil
			}
			// innermost enclosing range statement
			var rs *ast.RangeStmt
			for p := pv.f.parent[ast.Node(d)]; p != nil; p = pv.f.parent[p] {
				if _, isLit := p.(*ast.FuncLit); isLit {
					return nil
				}
				if _, isFor := p.(*ast.ForStmt); isFor {
					return nil
				}
				if r, isR := p.(*ast.RangeStmt); isR {
					rs = r
					break
				}
			}
			if rs == nil || (loop != nil && loop != rs) {
				return nil
			}
			loop = rs
			appends = append(appends, d)
		default:
			return nil
		}
	}
	if defs != 1 || loop == nil {
		return nil
	}
	switch derefArr(pv.info.TypeOf(loop.X)).(type) {
	case *types.Slice, *types.Array:
	default:
		return nil
	}
	// at most one append per iteration: from one append no append is reachable without
	// going through the loop head again
	var head an.Point
	found := false
	for _, b := range pv.f.fn.G.Blocks {
		if b.Live && b.Kind == cfg.KindRangeLoop && b.Stmt == ast.Stmt(loop) {
			head, found = an.Point{B: b, I: len(b.Nodes) - 1}, true
		}
	}
	if !found {
		return nil
	}
	for _, a := range appends {
		la, ok := pv.f.points[a]
		if !ok || la.fn != pv.f.fn {
			return nil
		}
		r := prWalk(prSucc(la.p, -1), map[an.Point]bool{head: true})
		for _, b := range appends {
			if lb, ok := pv.f.points[b]; ok && r[lb.p] {
				return nil
			}
		}
	}
	// the ranged value is not reassigned once the loop has started
	xl := pv.lenOf(loop.X)
	after := prWalk(prSucc(head, -1), nil)
	for k := range xl.t {
		for _, pa := range pv.atoms[k].paths {
			for _, m := range pv.muts[pa.root] {
				if !pathAffects(m.key, pa.key) {
					continue
				}
				lm, ok := pv.f.points[m.n]
				if _, isSpec := m.n.(*ast.ValueSpec); isSpec && !ok {
					continue
				}
				if !ok || lm.fn != pv.f.fn || after[lm.p] {
					return nil
				}
			}
		}
	}
	_, ll := pv.selfAtom(v)
	return []prFact{{ll.add(xl, -1), fmt.Sprintf("%s starts empty and gains at most one element per iteration of `range %s`", v.Name(), an.Str(loop.X))}}
}

// counterBounded recognises a counter that can never run past a length:
//
//	var i int | i := K                                   (the only definition, K a constant)
//	... i++ | i += K' ...                                (every other mutation, K' a positive constant)
//
// where at every increment the conditions that dominate it give i + K' <= len(X) for one and
// the same len(X), the initial value is <= len(X) by value ranges, X is not modified while the
// function (literal) that declares i runs, and every mutation of i lies in that same function
// body. Then i <= len(X) holds wherever i is in scope (induction over the mutation sites): a
// loop `for ; i <= len(X); i++ { if i == len(X) { return }; ... }` is therefore never left
// through its condition, only by break or return.
func (pv *prover) counterBounded(v *types.Var) []prFact {
	if fs, ok := pv.cnt[v]; ok {
		return fs
	}
	if pv.cnt == nil {
		pv.cnt = map[types.Object][]prFact{}
	}
	pv.cnt[v] = nil // in progress / negative result
	if !prIsInteger(v.Type()) {
		return nil
	}
	ms := pv.varMuts(v)
	if len(ms) < 2 {
		return nil
	}
	var def ast.Node
	init := int64(0)
	type incr struct {
		n    ast.Node
		step int64
	}
	var incs []incr
	for _, m := range ms {
		switch d := m.(type) {
		case *ast.ValueSpec:
			if def != nil {
				return nil
			}
			for i, id := range d.Names {
				if pv.info.Defs[id] != v {
					continue
				}
				if len(d.Values) == 0 {
					break
				}
				if len(d.Values) != len(d.Names) {
					return nil
				}
				k, isC := an.ConstInt(pv.info, d.Values[i])
				if !isC {
					return nil
				}
				init = k
			}
			def = d
		case *ast.IncDecStmt:
			if d.Tok != token.INC {
				return nil
			}
			incs = append(incs, incr{d, 1})
		case *ast.AssignStmt:
			if len(d.Lhs) != 1 || len(d.Rhs) != 1 {
				return nil
			}
			k, isC := an.ConstInt(pv.info, d.Rhs[0])
			switch {
			case d.Tok == token.DEFINE && isC && def == nil:
				init, def = k, d
			case d.Tok == token.ADD_ASSIGN && isC && k > 0 && k < 1<<20:
				incs = append(incs, incr{d, k})
			default:
				return nil
			}
		default:
			return nil // address taken, range variable, ...
		}
	}
	if def == nil || len(incs) == 0 {
		return nil
	}
	home := pv.f.enclosingFn(def)
	homeLit := pv.enclosingLit(def)
	vl, _ := pv.selfAtom(v)
	vkey := varKey(v)
	// candidate bounds: len atoms that occur against v in what is known at the first increment
	var bound string
	for i, in := range incs {
		loc, ok := pv.f.points[in.n]
		if !ok || loc.fn != home {
			return nil
		}
		facts := pv.strengthen(pv.condFacts(loc))
		if i == 0 {
			for _, f := range facts {
				if f.l.t[vkey] != 1 || len(f.l.t) != 2 {
					continue
				}
				for k, c := range f.l.t {
					if k != vkey && c == -1 && pv.atoms[k].isLen && strings.HasPrefix(k, "len(") {
						goal := vl.add(prConst(in.step), 1).add(prLin{t: map[string]int64{k: 1}}, -1)
						if ok, _ := pv.prove(goal, facts); ok {
							bound = k
						}
					}
				}
				if bound != "" {
					break
				}
			}
			if bound == "" {
				return nil
			}
			continue
		}
		goal := vl.add(prConst(in.step), 1).add(prLin{t: map[string]int64{bound: 1}}, -1)
		if ok, _ := pv.prove(goal, facts); !ok {
			return nil
		}
	}
	bl := prLin{t: map[string]int64{bound: 1}}
	if !pv.trivial(prConst(init).add(bl, -1)) {
		return nil
	}
	// the bounded value is not modified while the declaring function runs: every mutation of
	// its paths lies outside that function (literal), in code that is suspended meanwhile
	// (straight code of an enclosing function), or is the declaration of the root, made
	// before v is declared and in whose scope v lives
	if homeLit != nil {
		if call, ok := pv.f.parent[homeLit].(*ast.CallExpr); ok {
			if _, isGo := pv.f.parent[call].(*ast.GoStmt); isGo {
				return nil
			}
		}
	}
	for _, pa := range pv.atoms[bound].paths {
		for _, m := range pv.muts[pa.root] {
			if !pathAffects(m.key, pa.key) {
				continue
			}
			inside := false
			if homeLit == nil {
				inside = true
			} else if homeLit.Pos() <= m.n.Pos() && m.n.End() <= homeLit.End() {
				inside = true
			}
			if inside {
				// the root's own declaration, preceding v's, with v declared in its scope
				if m.key == varKey(pa.root) && m.n.End() <= def.Pos() && pa.root.Parent() != nil && pa.root.Parent().Contains(v.Pos()) {
					if as, ok := m.n.(*ast.AssignStmt); ok && as.Tok == token.DEFINE {
						continue
					}
					if _, ok := m.n.(*ast.ValueSpec); ok {
						continue
					}
				}
				return nil
			}
			// outside the declaring literal: must be straight code of an enclosing function
			if ml := pv.enclosingLit(m.n); ml != nil && !(ml.Pos() <= homeLit.Pos() && homeLit.End() <= ml.End()) {
				return nil
			}
		}
	}
	why := fmt.Sprintf("%s starts at %d and is only increased where the result is known to be <= %s, which does not change meanwhile", v.Name(), init, prShortKey(bound))
	fs := []prFact{{vl.add(bl, -1), why}}
	pv.cnt[v] = fs
	return fs
}

// enclosingLit returns the innermost function literal lexically containing n (nil: the declaration body).
func (pv *prover) enclosingLit(n ast.Node) *ast.FuncLit {
	for p := pv.f.parent[n]; p != nil; p = pv.f.parent[p] {
		if fl, ok := p.(*ast.FuncLit); ok {
			return fl
		}
	}
	return nil
}

// emptySliceExpr: make([]T, 0[, n]), []T{}, nil.
func (pv *prover) emptySliceExpr(e ast.Expr) bool {
	switch x := an.Unparen(e).(type) {
	case *ast.CompositeLit:
		return len(x.Elts) == 0
	case *ast.Ident:
		return an.IsNilIdent(pv.info, x)
	case *ast.CallExpr:
		if id, ok := an.Unparen(x.Fun).(*ast.Ident); ok {
			if b, isB := pv.info.Uses[id].(*types.Builtin); isB && b.Name() == "make" && len(x.Args) >= 2 {
				v, isC := an.ConstInt(pv.info, x.Args[1])
				return isC && v == 0
			}
		}
	}
	return false
}

func (pv *prover) selfAtom(v *types.Var) (vl, ll prLin) {
	key := varKey(v)
	p := []prPath{{v, key}}
	nonneg := prIsUnsigned(v.Type())
	if !nonneg && prIsInteger(v.Type()) {
		nonneg = pv.nonnegVar(v)
	}
	vl = pv.atom(key, nonneg, typeMax(v.Type()), p, false)
	ll = pv.atom("len("+key+")", true, -1, p, true)
	return
}

func eqFacts(a, b prLin, why string) []prFact {
	d := a.add(b, -1)
	return []prFact{{d, why}, {prConst(0).add(d, -1), why}}
}

func (pv *prover) defFactsOf(v *types.Var, def ast.Node) []prFact {
	vl, ll := pv.selfAtom(v)
	var rhs ast.Expr
	idx := 0
	multi := false
	switch d := def.(type) {
	case *ast.AssignStmt:
		if d.Tok != token.DEFINE && d.Tok != token.ASSIGN {
			return nil
		}
		for i, l := range d.Lhs {
			if id, _ := an.Unparen(l).(*ast.Ident); id != nil && objOf(pv.info, id) == v {
				idx = i
				if len(d.Rhs) == len(d.Lhs) {
					rhs = d.Rhs[i]
				} else if len(d.Rhs) == 1 {
					rhs, multi = d.Rhs[0], true
				}
			}
		}
	case *ast.ValueSpec:
		for i, id := range d.Names {
			if pv.info.Defs[id] != v {
				continue
			}
			if len(d.Values) == 0 {
				// zero value
				switch v.Type().Underlying().(type) {
				case *types.Slice:
					return eqFacts(ll, prConst(0), "var "+v.Name()+" (zero value)")
				case *types.Basic:
					if prIsInteger(v.Type()) {
						return eqFacts(vl, prConst(0), "var "+v.Name()+" (zero value)")
					}
				}
				return nil
			}
			if len(d.Values) == len(d.Names) {
				rhs = d.Values[i]
			}
		}
	}
	if rhs == nil {
		return nil
	}
	rhs = an.Unparen(rhs)
	why := "definition " + v.Name() + " := " + an.Str(rhs)
	if multi {
		call, ok := rhs.(*ast.CallExpr)
		if !ok || idx != 0 {
			return nil
		}
		if buf := pv.readLike(call); buf != nil {
			return []prFact{{prConst(0).add(vl, -1), why}, {vl.add(pv.lenOf(buf), -1), why}}
		}
		return nil
	}
	switch x := rhs.(type) {
	case *ast.CallExpr:
		if id, ok := an.Unparen(x.Fun).(*ast.Ident); ok {
			if b, isB := pv.info.Uses[id].(*types.Builtin); isB {
				switch b.Name() {
				case "make":
					if len(x.Args) >= 2 {
						if _, isSl := pv.info.TypeOf(x.Args[0]).Underlying().(*types.Slice); isSl {
							return eqFacts(ll, pv.lin(x.Args[1]), why)
						}
					}
				case "copy":
					if len(x.Args) == 2 {
						return []prFact{{prConst(0).add(vl, -1), why}, {vl.add(pv.lenOf(x.Args[0]), -1), why}, {vl.add(pv.lenOf(x.Args[1]), -1), why}}
					}
				case "len":
					return eqFacts(vl, pv.lenOf(x.Args[0]), why)
				}
				return nil
			}
		}
		// conversions of slices/strings keep the length
		if tv, ok := pv.info.Types[x.Fun]; ok && tv.IsType() && len(x.Args) == 1 {
			if _, isSl := v.Type().Underlying().(*types.Slice); isSl || isStringType(v.Type()) {
				return eqFacts(ll, pv.lenOf(x), why)
			}
		}
		// v := p.Intn(E): v >= 0, and either v <= E-1 or v == 0
		if fn, _ := an.Callee(pv.info, x).(*types.Func); fn != nil && prIsInteger(v.Type()) {
			if pv.calleeNonneg(fn) {
				fs := []prFact{{prConst(0).add(vl, -1), why + " (callee returns only non-negative values)"}}
				if pv.intnLike(fn) && len(x.Args) == 1 {
					pv.nAlt++
					e := pv.lin(x.Args[0])
					w1 := fmt.Sprintf("%s (result < argument) [split %d]", why, pv.nAlt)
					w2 := fmt.Sprintf("%s (result is 0 when the argument is not positive) [split %d]", why, pv.nAlt)
					if pv.cases == nil {
						pv.cases = map[string]prCase{}
					}
					pv.cases[w1], pv.cases[w2] = prCase{pv.nAlt, 1}, prCase{pv.nAlt, 2}
					fs = append(fs, prFact{vl.add(e, -1).add(prConst(1), 1), w1}, prFact{vl, w2})
				}
				return fs
			}
		}
		if prIsInteger(v.Type()) {
			return eqFacts(vl, pv.lin(x), why)
		}
	case *ast.CompositeLit:
		if _, isSl := pv.info.TypeOf(x).Underlying().(*types.Slice); isSl {
			for _, el := range x.Elts {
				if _, isKV := el.(*ast.KeyValueExpr); isKV {
					return nil
				}
			}
			return eqFacts(ll, prConst(int64(len(x.Elts))), why)
		}
	case *ast.SliceExpr:
		if x.Max == nil {
			hi := pv.lenOf(x.X)
			if x.High != nil {
				hi = pv.lin(x.High)
			}
			lo := prConst(0)
			if x.Low != nil {
				lo = pv.lin(x.Low)
			}
			return eqFacts(ll, hi.add(lo, -1), why)
		}
	default:
		if prIsInteger(v.Type()) {
			return eqFacts(vl, pv.lin(rhs), why)
		}
		// alias of another slice/string value
		if rt := pv.info.TypeOf(rhs); rt != nil {
			if _, isSl := rt.Underlying().(*types.Slice); isSl || isStringType(rt) {
				return eqFacts(ll, pv.lenOf(rhs), why)
			}
		}
	}
	return nil
}

// calleeNonneg: math/rand's Intn family (documented non-negative), or a module function
// with a single integer result all of whose return statements return a non-negative
// constant, a len(), or the result of such a function.
func (pv *prover) calleeNonneg(fn *types.Func) bool {
	fn = fn.Origin()
	if fn.Pkg() != nil && (fn.Pkg().Path() == "math/rand" || fn.Pkg().Path() == "math/rand/v2") {
		switch fn.Name() {
		case "Intn", "Int63n", "Int31n", "Int63", "Int31", "IntN", "Int64N", "Int32N":
			return true
		}
		return false
	}
	cf := pv.pp.byObj[fn]
	if cf == nil || cf == pv.f {
		return false
	}
	sig := fn.Type().(*types.Signature)
	if sig.Results().Len() != 1 || !prIsInteger(sig.Results().At(0).Type()) {
		return false
	}
	cpv := newProver(pv.pp, cf)
	ok, n := true, 0
	ast.Inspect(cf.decl.Body, func(x ast.Node) bool {
		if _, isLit := x.(*ast.FuncLit); isLit {
			return false
		}
		rs, isRet := x.(*ast.ReturnStmt)
		if !isRet {
			return true
		}
		n++
		if len(rs.Results) != 1 || !cpv.nonnegExpr(rs.Results[0]) {
			ok = false
		}
		return true
	})
	return ok && n > 0
}

// intnLike: math/rand's Intn family, or a module wrapper whose every return is either the
// constant 0 or a call to such a function with the wrapper's own parameter.
func (pv *prover) intnLike(fn *types.Func) bool {
	fn = fn.Origin()
	if fn.Pkg() != nil && (fn.Pkg().Path() == "math/rand" || fn.Pkg().Path() == "math/rand/v2") {
		switch fn.Name() {
		case "Intn", "Int63n", "Int31n", "IntN", "Int64N", "Int32N":
			return true
		}
		return false
	}
	cf := pv.pp.byObj[fn]
	if cf == nil || cf == pv.f || cf.decl.Type.Params == nil || len(cf.decl.Type.Params.List) != 1 || len(cf.decl.Type.Params.List[0].Names) != 1 {
		return false
	}
	cinfo := cf.pkg.TypesInfo
	param := cinfo.Defs[cf.decl.Type.Params.List[0].Names[0]]
	cpv := newProver(pv.pp, cf)
	if len(cpv.varMuts(param)) > 0 {
		return false
	}
	ok, n := true, 0
	ast.Inspect(cf.decl.Body, func(x ast.Node) bool {
		if _, isLit := x.(*ast.FuncLit); isLit {
			return false
		}
		rs, isRet := x.(*ast.ReturnStmt)
		if !isRet {
			return true
		}
		n++
		if len(rs.Results) != 1 {
			ok = false
			return true
		}
		r := an.Unparen(rs.Results[0])
		if v, isC := an.ConstInt(cinfo, r); isC && v == 0 {
			return true
		}
		if call, isCall := r.(*ast.CallExpr); isCall && len(call.Args) == 1 {
			if id, _ := an.Unparen(call.Args[0]).(*ast.Ident); id != nil && cinfo.Uses[id] == param {
				if c2, _ := an.Callee(cinfo, call).(*types.Func); c2 != nil && c2.Origin() != fn && cpv.intnLike(c2) {
					return true
				}
			}
		}
		ok = false
		return true
	})
	return ok && n > 0
}

// factsFor gathers every fact usable at the site.
func (pv *prover) factsFor(s prSite, goals []prLin) []prFact {
	var facts []prFact
	if s.live {
		facts = append(facts, pv.condFacts(prLoc{s.fn, s.p})...)
	}
	facts = append(facts, pv.localFacts(s.n)...)
	facts = append(facts, pv.rangeFacts(s.n)...)
	var seed []prPath
	for _, g := range goals {
		for k := range g.t {
			seed = append(seed, pv.atoms[k].paths...)
		}
	}
	seed = append(seed, pv.factPaths(facts)...)
	facts = append(facts, pv.defFacts(seed)...)
	return facts
}

// ---- proving

// trivial: l <= 0 follows from signs and type bounds alone.
func (pv *prover) trivial(l prLin) bool {
	c := l.c
	for k, coef := range l.t {
		a := pv.atoms[k]
		switch {
		case coef < 0:
			if !a.nonneg {
				return false
			}
		case coef > 0:
			if a.max < 0 {
				return false
			}
			c += coef * a.max
		}
	}
	return c <= 0
}

// prove: goal <= 0. Facts belonging to a case split are only usable inside their case; the
// goal must then hold in both cases of that split.
func (pv *prover) prove(goal prLin, facts []prFact) (bool, string) {
	facts = pv.strengthen(facts)
	var plain []prFact
	alts := map[int]bool{}
	for _, f := range facts {
		if cs, isCase := pv.cases[f.why]; !isCase {
			plain = append(plain, f)
		} else {
			alts[cs.alt] = true
		}
	}
	if ok, why := pv.proveFlat(goal, plain); ok {
		return true, why
	}
	for a := range alts {
		whys := ""
		all := true
		for cas := 1; cas <= 2; cas++ {
			fs := append([]prFact{}, plain...)
			for _, f := range facts {
				if cs, isCase := pv.cases[f.why]; isCase && cs.alt == a && cs.cas == cas {
					fs = append(fs, f)
				}
			}
			ok, why := pv.proveFlat(goal, fs)
			if !ok {
				all = false
				break
			}
			whys += fmt.Sprintf(" case %d: %s;", cas, why)
		}
		if all {
			return true, "by cases:" + whys
		}
	}
	return false, ""
}

// proveFlat: goal <= 0 from at most three facts.
func (pv *prover) proveFlat(goal prLin, facts []prFact) (bool, string) {
	if pv.trivial(goal) {
		return true, "by value ranges"
	}
	// keep facts sharing an atom with the goal, transitively
	rel := map[string]bool{}
	for k := range goal.t {
		rel[k] = true
	}
	var use []prFact
	used := make([]bool, len(facts))
	for changed := true; changed; {
		changed = false
		for i, f := range facts {
			if used[i] {
				continue
			}
			share := false
			for k := range f.l.t {
				if rel[k] {
					share = true
				}
			}
			if share {
				used[i] = true
				changed = true
				use = append(use, f)
				for k := range f.l.t {
					rel[k] = true
				}
			}
		}
	}
	if len(use) > 24 {
		use = use[:24]
	}
	for i, f1 := range use {
		for _, m := range []int64{1, 2, 4} {
			g1 := goal.add(f1.l, -m)
			if pv.trivial(g1) {
				return true, f1.why
			}
			if m != 1 {
				continue
			}
			for j := i; j < len(use); j++ {
				g2 := g1.add(use[j].l, -1)
				if pv.trivial(g2) {
					return true, f1.why + "; " + use[j].why
				}
				for k := j; k < len(use); k++ {
					if pv.trivial(g2.add(use[k].l, -1)) {
						return true, f1.why + "; " + use[j].why + "; " + use[k].why
					}
				}
			}
		}
	}
	return false, ""
}

// goal is one inequality to establish for a site.
type prGoal struct {
	l    prLin
	what string
}

// goalsFor builds the bounds obligations of an index / slice / make / div / conv site.
func (pv *prover) goalsFor(s prSite) []prGoal {
	switch x := s.n.(type) {
	case *ast.IndexExpr:
		i := pv.lin(x.Index)
		n := pv.lenOf(x.X)
		return []prGoal{
			{prConst(0).add(i, -1), "index >= 0"},
			{i.add(prConst(1), 1).add(n, -1), "index < len"},
		}
	case *ast.SliceExpr:
		n := pv.lenOf(x.X)
		lo := prConst(0)
		if x.Low != nil {
			lo = pv.lin(x.Low)
		}
		hi := n
		if x.High != nil {
			hi = pv.lin(x.High)
		}
		var gs []prGoal
		if x.Low != nil {
			gs = append(gs, prGoal{prConst(0).add(lo, -1), "low >= 0"})
		}
		gs = append(gs, prGoal{lo.add(hi, -1), "low <= high"})
		if x.Max != nil {
			mx := pv.lin(x.Max)
			gs = append(gs, prGoal{hi.add(mx, -1), "high <= max"}, prGoal{mx.add(n, -1), "max <= len (cap not tracked)"})
		} else if x.High != nil {
			gs = append(gs, prGoal{hi.add(n, -1), "high <= len (cap not tracked)"})
		}
		return gs
	case *ast.CallExpr: // make / conv
		if s.kind == "make" {
			var gs []prGoal
			for _, a := range x.Args[1:] {
				if _, isC := an.ConstInt(pv.info, a); isC {
					continue
				}
				gs = append(gs, prGoal{prConst(0).add(pv.lin(a), -1), "size >= 0"})
			}
			return gs
		}
		if s.kind == "conv" {
			if a, ok := derefArr(pv.info.TypeOf(x)).(*types.Array); ok {
				return []prGoal{{prConst(a.Len()).add(pv.lenOf(x.Args[0]), -1), "len >= array length"}}
			}
		}
	case *ast.BinaryExpr: // div
		d := pv.lin(x.Y)
		return []prGoal{{prConst(1).add(d, -1), "divisor >= 1"}}
	case *ast.AssignStmt:
		d := pv.lin(x.Rhs[0])
		return []prGoal{{prConst(1).add(d, -1), "divisor >= 1"}}
	}
	return nil
}

// discharge tries to prove every goal of the site. Returns ok, and the reasons when
// proved or the first unproved goal otherwise.
func (pv *prover) discharge(s prSite) (bool, string) {
	ok, why := pv.dischargeAt(s)
	for depth := 0; !ok && depth < 3; depth++ {
		hs, via, can := pv.hoistSite(s)
		if !can {
			break
		}
		if ok2, why2 := pv.dischargeAt(hs); ok2 {
			return true, why2 + "; " + via
		}
		s = hs
	}
	return ok, why
}

// hoistSite: a site inside a function literal that is passed directly to a
// golang.org/x/crypto/cryptobyte Builder method as its BuilderContinuation is evaluated while
// that call runs (the builder invokes the continuation before it returns and does not keep
// it: the package's contract, like io.Reader's for readLike). If nothing the site's bounds
// mention is assigned anywhere inside the literal, nor by the statement that contains the
// call, the site may be judged with what is known where the call stands.
func (pv *prover) hoistSite(s prSite) (prSite, string, bool) {
	var lit *ast.FuncLit
	for l, fn := range pv.f.lits {
		if fn == s.fn {
			lit = l
		}
	}
	if lit == nil {
		return s, "", false
	}
	call, ok := pv.f.parent[lit].(*ast.CallExpr)
	if !ok {
		return s, "", false
	}
	isArg := false
	for _, a := range call.Args {
		if a == ast.Expr(lit) {
			isArg = true
		}
	}
	callee, _ := an.Callee(pv.info, call).(*types.Func)
	if !isArg || callee == nil || callee.Pkg() == nil || !strings.HasSuffix(callee.Pkg().Path(), "golang.org/x/crypto/cryptobyte") {
		return s, "", false
	}
	sig := callee.Type().(*types.Signature)
	if sig.Recv() == nil || an.TypeName(sig.Recv().Type()) != "Builder" {
		return s, "", false
	}
	cont := false
	for i := 0; i < sig.Params().Len(); i++ {
		if n := namedOf(sig.Params().At(i).Type()); n != nil && n.Obj().Name() == "BuilderContinuation" && n.Obj().Pkg() == callee.Pkg() {
			cont = true
		}
	}
	loc, live := pv.f.points[call]
	if !cont || !live {
		return s, "", false
	}
	for _, g := range pv.goalsFor(s) {
		for k := range g.l.t {
			for _, pa := range pv.atoms[k].paths {
				for _, m := range pv.muts[pa.root] {
					if !pathAffects(m.key, pa.key) {
						continue
					}
					if lit.Pos() <= m.n.Pos() && m.n.End() <= lit.End() {
						return s, "", false
					}
					if n := loc.p.Node(); n != nil && n.Pos() <= m.n.Pos() && m.n.End() <= n.End() {
						return s, "", false
					}
				}
			}
		}
	}
	hs := s
	hs.fn, hs.p, hs.live = loc.fn, loc.p, true
	return hs, "judged where the enclosing continuation is passed to " + callee.Name() + " (runs during that call)", true
}

func (pv *prover) dischargeAt(s prSite) (bool, string) {
	goals := pv.goalsFor(s)
	if len(goals) == 0 {
		return false, "no bounds obligation could be formed"
	}
	var ls []prLin
	for _, g := range goals {
		ls = append(ls, g.l)
	}
	facts := pv.factsFor(s, ls)
	var reasons []string
	for _, g := range goals {
		ok, why := pv.prove(g.l, facts)
		if !ok {
			ok, why = pv.proveSplit(s, g.l, facts)
		}
		if !ok {
			return false, fmt.Sprintf("cannot establish %s, i.e. %s <= 0 (%d facts hold here%s)", g.what, g.l, len(facts), pv.factSummary(facts))
		}
		reasons = append(reasons, g.what+" ["+why+"]")
	}
	return true, strings.Join(reasons, "; ")
}

func (pv *prover) factSummary(facts []prFact) string {
	if len(facts) == 0 {
		return ""
	}
	var ss []string
	for i, f := range facts {
		if i >= 4 {
			ss = append(ss, "...")
			break
		}
		if pv.neq[f.why] {
			ss = append(ss, f.l.String()+"!=0")
			continue
		}
		ss = append(ss, f.l.String()+"<=0")
	}
	return ": " + strings.Join(ss, ", ")
}

// prMaxAlloc is the largest allocation size accepted from a peer-controlled integer: a
// dominating comparison must bound the size strictly below 2^24 (the largest value a
// 24-bit handshake length can carry is not an acceptable bound).
const prMaxAlloc = 1<<24 - 1

// sizeBounded: after removing the terms that are bounded by memory already held
// (len/cap of existing values), the make() size is provably < 2^24 from constants, types
// (uint8/uint16) and dominating comparisons.
func (pv *prover) sizeBounded(s prSite) (bool, string) {
	call := s.n.(*ast.CallExpr)
	var why []string
	for _, a := range call.Args[1:] {
		if _, isC := an.ConstInt(pv.info, a); isC {
			continue
		}
		l := pv.lin(a)
		peer := prConst(l.c)
		for k, coef := range l.t {
			if pv.atoms[k].isLen {
				continue
			}
			peer.t[k] = coef
		}
		if len(peer.t) == 0 {
			why = append(why, "size is len()/cap()-derived")
			continue
		}
		goal := peer.add(prConst(prMaxAlloc), -1).add(prConst(1), 1) // peer - (2^24-1) + 1 <= 0  <=>  peer < 2^24 - 1 ... keep strict
		facts := pv.factsFor(s, []prLin{goal})
		ok, w := pv.prove(goal, facts)
		if !ok {
			return false, fmt.Sprintf("allocation size %s depends on a value that no dominating comparison bounds below 2^24", an.Str(a))
		}
		why = append(why, "size bounded ["+w+"]")
	}
	return true, strings.Join(why, "; ")
}

// ---- predecessor case split --------------------------------------------------------------
//
// A guard that protects a site need not dominate it: `if v >= 12 { sig = sig[2:]; if
// len(sig) < 2 {return} }` re-establishes on one branch what an earlier test established
// for the other. When the dominating facts do not prove a goal, the site's block is
// followed upwards through single-predecessor blocks to the nearest join, and the goal must
// be proved once per predecessor of that join, with the facts that hold at the end of
// that predecessor (its own dominating conditions, plus the outcome of its final
// condition when the join is entered by a conditional edge). Facts mentioning anything
// assigned between the join and the site are dropped.

func prLivePreds(fn *an.Fn, b *cfg.Block) []*cfg.Block {
	var out []*cfg.Block
	for _, q := range fn.G.Blocks {
		if !q.Live {
			continue
		}
		for _, s := range q.Succs {
			if s == b {
				out = append(out, q)
				break
			}
		}
	}
	return out
}

func (pv *prover) predSplit(s prSite) (cases [][]prFact, ok bool) {
	if !s.live || s.p.B == nil {
		return nil, false
	}
	cur := s.p.B
	var between []ast.Node
	if s.p.I > 0 {
		between = append(between, cur.Nodes[:s.p.I]...)
	}
	var preds []*cfg.Block
	for depth := 0; ; depth++ {
		preds = prLivePreds(s.fn, cur)
		if len(preds) >= 2 {
			break
		}
		if len(preds) == 0 || depth >= 6 {
			return nil, false
		}
		q := preds[0]
		if q == cur {
			return nil, false
		}
		between = append(append([]ast.Node{}, q.Nodes...), between...)
		cur = q
	}
	if len(preds) > 8 {
		return nil, false
	}
	for _, q := range preds {
		end := an.Point{B: q, I: len(q.Nodes) - 1}
		var fs []prFact
		fs = append(fs, pv.condFacts(prLoc{s.fn, end})...)
		if t, f, isCond := an.CondEdges(q); isCond {
			cond := q.Nodes[len(q.Nodes)-1].(ast.Expr)
			if !pv.inTaggedCase(cond) {
				for k, e := range []an.Edge{t, f} {
					if e.B.Succs[e.K] != cur {
						continue
					}
					if q.Succs[0] == cur && q.Succs[1] == cur {
						continue // both outcomes lead here: nothing is known
					}
					for _, l := range prConj(cond, k == 0) {
						fs = append(fs, pv.cmpFacts(l.cond, l.pos, "guard")...)
					}
				}
			}
		}
		var keep []prFact
		for _, fct := range fs {
			paths := pv.factPaths([]prFact{fct})
			dirty := false
			for _, n := range between {
				if pv.mutatesAt(n, paths) {
					dirty = true
					break
				}
			}
			if !dirty {
				keep = append(keep, fct)
			}
		}
		cases = append(cases, keep)
	}
	return cases, true
}

// proveSplit proves goal once per predecessor of the nearest join above the site.
func (pv *prover) proveSplit(s prSite, goal prLin, facts []prFact) (bool, string) {
	cases, ok := pv.predSplit(s)
	if !ok {
		return false, ""
	}
	// the goal's own atoms must not be reassigned between the join and the site either:
	// predSplit drops facts, but a goal over a reassigned variable would then be proved for
	// the wrong value. Facts are evaluated at the predecessor's end, the goal at the site.
	whys := ""
	for i, cf := range cases {
		fs := append(append([]prFact{}, facts...), cf...)
		var seed []prPath
		seed = append(seed, pv.factPaths(cf)...)
		fs = append(fs, pv.defFacts(seed)...)
		ok, why := pv.prove(goal, fs)
		if !ok {
			return false, ""
		}
		whys += fmt.Sprintf(" pred %d: %s;", i+1, why)
	}
	return true, "on every predecessor of the join above:" + whys
}
