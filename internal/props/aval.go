package props

import (
	"fmt"
	"go/ast"
	"go/constant"
	"go/token"
	"go/types"
	"strings"

	"verif/internal/an"

	"golang.org/x/tools/go/packages"
)

// AVal is the abstract value of a constant-ish expression (composite literals, constants,
// function values) as produced by the table evaluator.
type AVal struct {
	Kind   string // int | string | bool | struct | list | func | nil | unknown
	Int    int64
	Str    string
	Bool   bool
	Type   string           // named type (struct / element / conversion target)
	Ptr    bool             // &T{...}
	Fields map[string]*AVal // struct
	Elems  []*AVal          // list
	Pos    token.Pos
	Expr   string // for unknown/func
	Tags   map[string]bool
}

func (v *AVal) String() string {
	if v == nil {
		return "<absent>"
	}
	switch v.Kind {
	case "int":
		return fmt.Sprintf("0x%x", v.Int)
	case "string":
		return fmt.Sprintf("%q", v.Str)
	case "bool":
		return fmt.Sprint(v.Bool)
	case "struct":
		return v.Type + "{…}"
	case "list":
		var s []string
		for _, e := range v.Elems {
			s = append(s, e.String())
		}
		return "[" + strings.Join(s, " ") + "]"
	case "func":
		return "func " + v.Expr
	case "nil":
		return "nil"
	}
	return "?" + v.Expr
}

// Field returns a struct field's value (nil when absent = zero value).
func (v *AVal) Field(name string) *AVal {
	if v == nil || v.Kind != "struct" {
		return nil
	}
	return v.Fields[name]
}

// Ints returns the integer elements of a list (ok=false if any element is not a constant int).
func (v *AVal) Ints() ([]int64, bool) {
	if v == nil {
		return nil, true
	}
	if v.Kind != "list" {
		return nil, false
	}
	var out []int64
	for _, e := range v.Elems {
		if e.Kind != "int" {
			return nil, false
		}
		out = append(out, e.Int)
	}
	return out, true
}

// HasUnknown reports the first unknown sub-value.
func (v *AVal) HasUnknown() *AVal {
	if v == nil {
		return nil
	}
	if v.Kind == "unknown" {
		return v
	}
	for _, f := range v.Fields {
		if u := f.HasUnknown(); u != nil {
			return u
		}
	}
	for _, e := range v.Elems {
		if u := e.HasUnknown(); u != nil {
			return u
		}
	}
	return nil
}

type evaluator struct {
	pkg   *packages.Package
	info  *types.Info
	depth int
}

func newEvaluator(pkg *packages.Package) *evaluator {
	return &evaluator{pkg: pkg, info: pkg.TypesInfo}
}

func (ev *evaluator) unknown(e ast.Expr) *AVal {
	return &AVal{Kind: "unknown", Expr: types.ExprString(e), Pos: e.Pos()}
}

// Eval evaluates e. hint is the static type expected (for untyped composite elements).
func (ev *evaluator) Eval(e ast.Expr) *AVal {
	e = an.Unparen(e)
	if tv, ok := ev.info.Types[e]; ok && tv.Value != nil {
		switch tv.Value.Kind() {
		case constant.Int:
			i, exact := constant.Int64Val(tv.Value)
			if !exact {
				u, _ := constant.Uint64Val(tv.Value)
				i = int64(u)
			}
			return &AVal{Kind: "int", Int: i, Type: an.TypeName(tv.Type), Pos: e.Pos()}
		case constant.String:
			return &AVal{Kind: "string", Str: constant.StringVal(tv.Value), Pos: e.Pos()}
		case constant.Bool:
			return &AVal{Kind: "bool", Bool: constant.BoolVal(tv.Value), Pos: e.Pos()}
		}
	}
	switch x := e.(type) {
	case *ast.Ident:
		if an.IsNilIdent(ev.info, x) {
			return &AVal{Kind: "nil", Pos: e.Pos()}
		}
		if fn, ok := ev.info.Uses[x].(*types.Func); ok {
			return &AVal{Kind: "func", Expr: fn.Name(), Pos: e.Pos()}
		}
		// package-level variable with a constant initialiser that is never reassigned
		if v, ok := ev.info.Uses[x].(*types.Var); ok && v.Parent() == ev.pkg.Types.Scope() {
			if init := ev.pkgVarInit(v); init != nil && ev.depth < 4 {
				ev.depth++
				r := ev.Eval(init)
				ev.depth--
				if r.Kind == "int" || r.Kind == "string" || r.Kind == "bool" {
					if r.Tags == nil {
						r.Tags = map[string]bool{}
					}
					r.Tags["var:"+v.Name()] = true
					return r
				}
				if r.Kind == "struct" || r.Kind == "list" {
					// a package-level composite: every use shares the same storage
					if r.Tags == nil {
						r.Tags = map[string]bool{}
					}
					r.Tags["shared:"+v.Name()] = true
					return r
				}
			}
		}
	case *ast.SelectorExpr:
		if fn, ok := ev.info.Uses[x.Sel].(*types.Func); ok {
			n := fn.Name()
			if fn.Pkg() != nil && fn.Pkg() != ev.pkg.Types {
				n = fn.Pkg().Name() + "." + n
			}
			return &AVal{Kind: "func", Expr: n, Pos: e.Pos()}
		}
	case *ast.UnaryExpr:
		if x.Op == token.AND {
			v := ev.Eval(x.X)
			if v.Kind == "struct" {
				v.Ptr = true
			}
			return v
		}
	case *ast.CompositeLit:
		return ev.evalLit(x)
	case *ast.CallExpr:
		// conversion
		if tv, ok := ev.info.Types[x.Fun]; ok && tv.IsType() && len(x.Args) == 1 {
			v := ev.Eval(x.Args[0])
			if v.Kind == "int" {
				v.Type = an.TypeName(tv.Type)
			}
			return v
		}
		if fn, ok := an.Callee(ev.info, x).(*types.Func); ok && fn.Pkg() == ev.pkg.Types {
			return ev.evalCall(x, fn)
		}
	}
	return ev.unknown(e)
}

func (ev *evaluator) evalLit(cl *ast.CompositeLit) *AVal {
	t := ev.info.TypeOf(cl)
	if t == nil {
		return ev.unknown(cl)
	}
	switch u := t.Underlying().(type) {
	case *types.Struct:
		v := &AVal{Kind: "struct", Type: an.TypeName(t), Fields: map[string]*AVal{}, Pos: cl.Pos()}
		for i, el := range cl.Elts {
			if kv, ok := el.(*ast.KeyValueExpr); ok {
				k, ok := kv.Key.(*ast.Ident)
				if !ok {
					return ev.unknown(cl)
				}
				v.Fields[k.Name] = ev.Eval(kv.Value)
			} else {
				if i >= u.NumFields() {
					return ev.unknown(cl)
				}
				v.Fields[u.Field(i).Name()] = ev.Eval(el)
			}
		}
		return v
	case *types.Slice, *types.Array:
		v := &AVal{Kind: "list", Pos: cl.Pos()}
		var et types.Type
		if s, ok := u.(*types.Slice); ok {
			et = s.Elem()
		} else {
			et = u.(*types.Array).Elem()
		}
		v.Type = an.TypeName(et)
		for _, el := range cl.Elts {
			if kv, ok := el.(*ast.KeyValueExpr); ok {
				el = kv.Value // indexed element; order assumed sequential
			}
			v.Elems = append(v.Elems, ev.Eval(el))
		}
		return v
	}
	return ev.unknown(cl)
}

// evalCall evaluates calls to module functions whose body is `return <expr>` (constructors
// such as BoringGREASEECH) or that are identity-like on their list argument
// (ShuffleChromeTLSExtensions: returns its parameter; tagged "shuffled").
func (ev *evaluator) evalCall(call *ast.CallExpr, fn *types.Func) *AVal {
	if ev.depth > 4 {
		return ev.unknown(call)
	}
	fd := declOf(ev.pkg, fn)
	if fd == nil || fd.Body == nil {
		return ev.unknown(call)
	}
	// every return statement returns the same parameter -> identity on that argument
	var rets []*ast.ReturnStmt
	an.Inner(fd.Body, func(n ast.Node) bool {
		if r, ok := n.(*ast.ReturnStmt); ok {
			rets = append(rets, r)
		}
		return true
	})
	if len(rets) == 0 {
		return ev.unknown(call)
	}
	if fd.Type.Params != nil {
		idx := 0
		for _, fl := range fd.Type.Params.List {
			for _, nm := range fl.Names {
				po := ev.info.Defs[nm]
				all := true
				for _, r := range rets {
					if len(r.Results) != 1 {
						all = false
						break
					}
					id, ok := an.Unparen(r.Results[0]).(*ast.Ident)
					if !ok || ev.info.Uses[id] != po {
						all = false
						break
					}
				}
				if all && idx < len(call.Args) {
					v := ev.Eval(call.Args[idx])
					if v.Tags == nil {
						v.Tags = map[string]bool{}
					}
					v.Tags["via:"+fn.Name()] = true
					return v
				}
				idx++
			}
		}
	}
	if len(rets) == 1 && len(rets[0].Results) == 1 && len(call.Args) == 0 {
		ev.depth++
		v := ev.Eval(rets[0].Results[0])
		ev.depth--
		if v.Tags == nil {
			v.Tags = map[string]bool{}
		}
		v.Tags["via:"+fn.Name()] = true
		return v
	}
	return ev.unknown(call)
}

// pkgVarInit returns the initialiser of package-level variable v if it has one and the
// variable is never assigned or address-taken anywhere in the package.
func (ev *evaluator) pkgVarInit(v *types.Var) ast.Expr {
	var init ast.Expr
	for _, f := range ev.pkg.Syntax {
		for _, d := range f.Decls {
			gd, ok := d.(*ast.GenDecl)
			if !ok || gd.Tok != token.VAR {
				continue
			}
			for _, sp := range gd.Specs {
				vs := sp.(*ast.ValueSpec)
				for i, n := range vs.Names {
					if ev.info.Defs[n] == v && i < len(vs.Values) && len(vs.Values) == len(vs.Names) {
						init = vs.Values[i]
					}
				}
			}
		}
	}
	if init == nil {
		return nil
	}
	mutated := false
	for _, f := range ev.pkg.Syntax {
		ast.Inspect(f, func(n ast.Node) bool {
			switch s := n.(type) {
			case *ast.AssignStmt:
				for _, l := range s.Lhs {
					if id, ok := an.Unparen(l).(*ast.Ident); ok && ev.info.Uses[id] == v {
						mutated = true
					}
				}
			case *ast.UnaryExpr:
				if s.Op == token.AND {
					if id, ok := an.Unparen(s.X).(*ast.Ident); ok && ev.info.Uses[id] == v {
						mutated = true
					}
				}
			case *ast.IncDecStmt:
				if id, ok := an.Unparen(s.X).(*ast.Ident); ok && ev.info.Uses[id] == v {
					mutated = true
				}
			}
			return !mutated
		})
	}
	if mutated {
		return nil
	}
	return init
}
