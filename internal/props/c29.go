package props

import (
	"go/ast"
	"go/token"
	"go/types"
	"strings"

	"golang.org/x/tools/go/cfg"

	"verif/internal/an"
	"verif/internal/load"
)

func init() { register(&Prop{ID: "C29", Run: runC29}) }

// reachEdge: points reachable after taking edge e (sibling edges of e's block stay blocked).
func reachEdge(fn *an.Fn, e an.Edge, blocked map[an.Point]bool) map[an.Point]bool {
	return fn.Reach(an.Point{B: e.B, I: len(e.B.Nodes) - 1}, blocked, edgesExcept(e))
}

// edgePt is the condition point an edge leaves from.
func edgePt(e an.Edge) an.Point { return an.Point{B: e.B, I: len(e.B.Nodes) - 1} }

func mergeEdges(ms ...map[an.Edge]bool) map[an.Edge]bool {
	o := map[an.Edge]bool{}
	for _, m := range ms {
		for k, v := range m {
			if v {
				o[k] = true
			}
		}
	}
	return o
}

func edgeSet(es []an.Edge) map[an.Edge]bool {
	o := map[an.Edge]bool{}
	for _, e := range es {
		o[e] = true
	}
	return o
}

// edgesInto lists the CFG edges whose target is block t.
func edgesInto(fn *an.Fn, t *cfg.Block) []an.Edge {
	var out []an.Edge
	for _, b := range fn.G.Blocks {
		if !b.Live {
			continue
		}
		for k, s := range b.Succs {
			if s == t {
				out = append(out, an.Edge{B: b, K: k})
			}
		}
	}
	return out
}

// nilTestEdges finds the conditions `v != nil` / `v == nil` on variable v and returns the
// edges on which v is non-nil / nil, with the condition points.
func nilTestEdges(fn *an.Fn, v types.Object) (nonNil, isNil []an.Edge, at []an.Point) {
	info := fn.Info
	nonNil, isNil, at = condEdges(fn, func(cond ast.Expr) (bool, bool) {
		be, ok := cond.(*ast.BinaryExpr)
		if !ok || (be.Op != token.NEQ && be.Op != token.EQL) {
			return false, false
		}
		var x ast.Expr
		switch {
		case an.IsNilIdent(info, be.Y):
			x = be.X
		case an.IsNilIdent(info, be.X):
			x = be.Y
		default:
			return false, false
		}
		id, ok := an.Unparen(x).(*ast.Ident)
		if !ok || objOf(info, id) != v {
			return false, false
		}
		return true, be.Op == token.NEQ
	})
	return
}

// lastAssignBefore returns the nearest assignment to v that precedes point p in its block
// (or along a chain of single predecessors).
func lastAssignBefore(fn *an.Fn, p an.Point, v types.Object) *ast.AssignStmt {
	preds := map[*cfg.Block][]*cfg.Block{}
	for _, b := range fn.G.Blocks {
		if b.Live {
			for _, s := range b.Succs {
				preds[s] = append(preds[s], b)
			}
		}
	}
	b, i := p.B, p.I
	for depth := 0; depth < 6; depth++ {
		for j := i - 1; j >= 0; j-- {
			if as, ok := b.Nodes[j].(*ast.AssignStmt); ok {
				for _, l := range as.Lhs {
					if id, ok := an.Unparen(l).(*ast.Ident); ok && objOf(fn.Info, id) == v {
						return as
					}
				}
			}
		}
		if len(preds[b]) != 1 {
			return nil
		}
		b = preds[b][0]
		i = len(b.Nodes)
	}
	return nil
}

// throughLocal replaces a local identifier that is assigned exactly once in body by the
// expression assigned to it (one level), so `t := X; use(t)` reads like `use(X)`.
func throughLocal(info *types.Info, body ast.Node, e ast.Expr) ast.Expr {
	id, ok := an.Unparen(e).(*ast.Ident)
	if !ok {
		return e
	}
	o := objOf(info, id)
	if _, isVar := o.(*types.Var); !isVar {
		return e
	}
	var defs []ast.Expr
	n := 0
	ast.Inspect(body, func(x ast.Node) bool {
		switch s := x.(type) {
		case *ast.AssignStmt:
			for i, l := range s.Lhs {
				if lsIdentObj(info, l) != o {
					continue
				}
				n++
				if len(s.Rhs) == len(s.Lhs) && (s.Tok == token.DEFINE || s.Tok == token.ASSIGN) {
					defs = append(defs, s.Rhs[i])
				}
			}
		case *ast.IncDecStmt:
			if lsIdentObj(info, s.X) == o {
				n++
			}
		case *ast.ValueSpec:
			for i, nm := range s.Names {
				if info.Defs[nm] == o && len(s.Values) == len(s.Names) {
					n++
					defs = append(defs, s.Values[i])
				}
			}
		}
		return true
	})
	if n == 1 && len(defs) == 1 {
		return defs[0]
	}
	return e
}

func lsIdentObj(info *types.Info, e ast.Expr) types.Object {
	id, ok := an.Unparen(e).(*ast.Ident)
	if !ok {
		return nil
	}
	return objOf(info, id)
}

func runC29(c *Ctx) {
	r := c.R
	r.Technique = "must-hold lockset dataflow for the guarded field; CFG guarded-effect / must-pass-through / exit-discipline rules on Roller.Dial with type-resolved callees and variables"
	r.Explanation = "C29.1 every access to Roller.WorkingHelloID in the package happens with HelloIDMu held, and C29.2 every exit of Dial has released it. " +
		"C29.3 when a working ID is recorded, every path to the dial loop first puts it at index 0 of the local ID list (swap with the slot where it was found, so no ID is lost or duplicated) or prepends it only when it was not found; the list is a private copy of HelloIDs and HelloIDs itself is never written. " +
		"C29.4 the dial loop is a single range over that list, not nested in another loop, and each connection is built from the loop's element. " +
		"C29.5 a TCP dial error returns that error at once, without a further attempt. C29.6 on every iteration the order is UClient(tcpConn, _, id) -> SetSNI(serverName parameter) -> Handshake on the same client. " +
		"C29.7 WorkingHelloID is stored only on the path where Handshake returned nil, the store is followed by returning that client without another iteration, a successful handshake always reaches the store, and a failed handshake continues with the next ID instead of returning."
	r.NotDecided = "at-most-once when HelloIDs itself contains duplicates; race freedom beyond the guarded field (the shared *prng is internally locked); that a handshake succeeds; the failed attempts' TCP connections are not closed (resource leak, outside the statement)"
	info := c.Info()

	// ---- C29.1 guarded-by
	n := c.guardedBy("C29.1", []guardSpec{{Owner: "Roller", Field: "WorkingHelloID", Lock: "Roller.HelloIDMu"}})
	r.Count("c29_working_id_accesses", n)
	r.Floor("C29.1", 2)

	fn := c.Fn("C29.2", "Roller", "Dial")
	if fn == nil {
		return
	}
	// ---- C29.2 balance
	c.lockBalance("C29.2", fn.Decl, nil)
	r.Floor("C29.2", 1)

	// ---- anchors inside Dial
	isDial := func(n ast.Node) bool {
		call, ok := n.(*ast.CallExpr)
		if !ok {
			return false
		}
		f, _ := an.Callee(info, call).(*types.Func)
		return f != nil && f.Pkg() != nil && f.Pkg().Path() == "net" && strings.HasPrefix(f.Name(), "Dial")
	}
	dials := fn.FindNodes(isDial)
	if len(dials) != 1 {
		r.Unknown("C29.4", "Dial:dial-call", c.Pos(fn.Decl), "expected exactly one net.Dial* call in Roller.Dial, found %d", len(dials))
		return
	}
	dial := dials[0]
	dialCall := dial.N.(*ast.CallExpr)
	// enclosing loops of the dial call
	var loops []ast.Stmt
	ast.Inspect(fn.Body, func(n ast.Node) bool {
		switch s := n.(type) {
		case *ast.RangeStmt:
			if s.Body.Pos() <= dialCall.Pos() && dialCall.End() <= s.Body.End() {
				loops = append(loops, s)
			}
		case *ast.ForStmt:
			if s.Body.Pos() <= dialCall.Pos() && dialCall.End() <= s.Body.End() {
				loops = append(loops, s)
			}
		case *ast.FuncLit:
			return false
		}
		return true
	})
	var rs *ast.RangeStmt
	if len(loops) == 1 {
		rs, _ = loops[0].(*ast.RangeStmt)
	}
	if rs == nil {
		if len(loops) == 0 {
			r.Bad("C29.4", "Dial:loop", c.Pos(dialCall), "the dial is not inside a loop over the hello IDs: only one fingerprint is ever tried")
		} else {
			r.Bad("C29.4", "Dial:loop", c.Pos(dialCall), "the dial is nested in %d loops (or a non-range loop): an ID can be tried more than once per Dial call", len(loops))
		}
		return
	}
	listObj := lsIdentObj(info, rs.X)
	elemObj := types.Object(nil)
	if rs.Value != nil {
		elemObj = lsIdentObj(info, rs.Value)
	}
	if listObj == nil || elemObj == nil {
		r.Unknown("C29.4", "Dial:loop", c.Pos(rs), "the dial loop does not range `for _, id := range <local list>`")
		return
	}
	var loopHead an.Point
	var rangeX an.Point
	for _, b := range fn.G.Blocks {
		if !b.Live {
			continue
		}
		if b.Kind == cfg.KindRangeLoop && b.Stmt == ast.Stmt(rs) {
			loopHead = an.Point{B: b, I: -1}
		}
		for i, nd := range b.Nodes {
			if nd == ast.Node(rs.X) {
				rangeX = an.Point{B: b, I: i}
			}
		}
	}
	if !loopHead.Valid() || !rangeX.Valid() {
		r.Unknown("C29.4", "Dial:loop", c.Pos(rs), "range loop not found in the CFG")
		return
	}
	r.Check(!inLoop(fn, rangeX), "C29.4", "Dial:loop-once", c.Pos(rs), "a single, un-nested range over the local ID list", "the range over the ID list is itself on a cycle: the whole list can be walked more than once per Dial call")
	// list assignments inside the loop body
	reassigned, elemReassigned := false, false
	ast.Inspect(rs.Body, func(n ast.Node) bool {
		if as, ok := n.(*ast.AssignStmt); ok {
			for _, l := range as.Lhs {
				if lsIdentObj(info, l) == listObj {
					reassigned = true
				}
				if ix, ok := an.Unparen(l).(*ast.IndexExpr); ok && lsIdentObj(info, ix.X) == listObj {
					reassigned = true
				}
				if lsIdentObj(info, l) == elemObj {
					elemReassigned = true
				}
			}
		}
		return true
	})
	r.Check(!elemReassigned, "C29.4", "Dial:element-stable", c.Pos(rs), "the loop's hello ID is not overwritten inside the loop", "the loop variable holding the current hello ID is overwritten inside the loop: the IDs tried are not the ones ranged over")
	r.Check(!reassigned, "C29.4", "Dial:list-stable", c.Pos(rs), "the ID list is not modified while it is ranged over", "the ID list is written inside the dial loop: IDs can be repeated or skipped")

	// ---- C29.3 prioritisation
	var wObj types.Object
	ast.Inspect(fn.Body, func(n ast.Node) bool {
		as, ok := n.(*ast.AssignStmt)
		if !ok || len(as.Lhs) != 1 || len(as.Rhs) != 1 {
			return true
		}
		if an.FieldSel(info, an.Unparen(as.Rhs[0]), "Roller", "WorkingHelloID") {
			wObj = lsIdentObj(info, as.Lhs[0])
		}
		return true
	})
	if wObj == nil {
		r.Bad("C29.3", "Dial:working-id-read", c.Pos(fn.Decl), "Dial never reads Roller.WorkingHelloID: the last working fingerprint is not preferred")
	} else {
		isDerefW := func(e ast.Expr) bool {
			s, ok := an.Unparen(e).(*ast.StarExpr)
			return ok && lsIdentObj(info, s.X) == wObj
		}
		isList := func(e ast.Expr) bool { return lsIdentObj(info, e) == listObj }
		// front stores
		type front struct {
			p    an.Point
			as   *ast.AssignStmt
			kind string
		}
		var fronts []front
		for _, h := range fn.FindNodes(func(n ast.Node) bool { _, ok := n.(*ast.AssignStmt); return ok }) {
			as := h.N.(*ast.AssignStmt)
			if len(as.Lhs) != 1 || len(as.Rhs) != 1 {
				continue
			}
			if ix, ok := an.Unparen(as.Lhs[0]).(*ast.IndexExpr); ok && isList(ix.X) && isDerefW(as.Rhs[0]) {
				if v, isC := an.ConstInt(info, ix.Index); isC && v == 0 {
					fronts = append(fronts, front{h.P, as, "swap"})
				} else {
					r.Bad("C29.3", "Dial:front-index", c.Pos(as), "the working ID is stored at an index other than 0: it is not tried first")
				}
				continue
			}
			if isList(as.Lhs[0]) {
				if call, ok := an.Unparen(as.Rhs[0]).(*ast.CallExpr); ok {
					if id, ok := an.Unparen(call.Fun).(*ast.Ident); ok && id.Name == "append" && len(call.Args) == 2 && call.Ellipsis.IsValid() && isList(call.Args[1]) {
						if cl, ok := an.Unparen(call.Args[0]).(*ast.CompositeLit); ok && len(cl.Elts) == 1 && isDerefW(cl.Elts[0]) {
							fronts = append(fronts, front{h.P, as, "prepend"})
						}
					}
				}
			}
		}
		nonNil, _, _ := nilTestEdges(fn, wObj)
		if len(nonNil) == 0 {
			r.Unknown("C29.3", "Dial:working-id-test", c.Pos(fn.Decl), "no `working != nil` test found")
		}
		// the search loop: range over the list comparing the element with *working
		var searchKey, searchVal types.Object
		ast.Inspect(fn.Body, func(n ast.Node) bool {
			s, ok := n.(*ast.RangeStmt)
			if !ok || s == rs || !isList(s.X) {
				return true
			}
			if s.Key != nil {
				searchKey = lsIdentObj(info, s.Key)
			}
			if s.Value != nil {
				searchVal = lsIdentObj(info, s.Value)
			}
			return true
		})
		eqEdges, _, _ := condEdges(fn, func(cond ast.Expr) (bool, bool) {
			be, ok := cond.(*ast.BinaryExpr)
			if !ok || be.Op != token.EQL || searchVal == nil {
				return false, false
			}
			if (lsIdentObj(info, be.X) == searchVal && isDerefW(be.Y)) || (lsIdentObj(info, be.Y) == searchVal && isDerefW(be.X)) {
				return true, true
			}
			return false, false
		})
		// the library form of the search: i := slices.Index(list, *working); i >= 0 means
		// list[i] == *working, i < 0 means the working ID is not in the list
		var idxObj types.Object
		ast.Inspect(fn.Body, func(n ast.Node) bool {
			as, ok := n.(*ast.AssignStmt)
			if !ok || len(as.Lhs) != 1 || len(as.Rhs) != 1 {
				return true
			}
			call, ok := an.Unparen(as.Rhs[0]).(*ast.CallExpr)
			if !ok || len(call.Args) != 2 {
				return true
			}
			if f, _ := an.Callee(info, call).(*types.Func); f != nil && f.Pkg() != nil && f.Pkg().Path() == "slices" && f.Name() == "Index" && isList(call.Args[0]) && isDerefW(call.Args[1]) {
				idxObj = lsIdentObj(info, as.Lhs[0])
			}
			return true
		})
		idxFound := func(cond ast.Expr) (bool, bool) { // (matched, found-when-true)
			be, ok := an.Unparen(cond).(*ast.BinaryExpr)
			if !ok || idxObj == nil || lsIdentObj(info, be.X) != idxObj {
				return false, false
			}
			v, isC := an.ConstInt(info, be.Y)
			if !isC {
				return false, false
			}
			switch {
			case be.Op == token.GEQ && v == 0, be.Op == token.GTR && v == -1, be.Op == token.NEQ && v == -1:
				return true, true
			case be.Op == token.LSS && v == 0, be.Op == token.LEQ && v == -1, be.Op == token.EQL && v == -1:
				return true, false
			}
			return false, false
		}
		if idxObj != nil {
			if searchKey == nil {
				searchKey = idxObj
			}
			more, _, _ := condEdges(fn, idxFound)
			eqEdges = append(eqEdges, more...)
		}
		// found flags: locals set to true only behind eqEdges
		flags := map[types.Object]bool{}
		for _, h := range fn.FindNodes(func(n ast.Node) bool {
			as, ok := n.(*ast.AssignStmt)
			if !ok || len(as.Lhs) != 1 || len(as.Rhs) != 1 {
				return false
			}
			id, ok := an.Unparen(as.Rhs[0]).(*ast.Ident)
			return ok && id.Name == "true"
		}) {
			o := lsIdentObj(info, h.N.(*ast.AssignStmt).Lhs[0])
			if o == nil {
				continue
			}
			ok := len(eqEdges) > 0 && fn.MustPass(h.P, nil, eqEdges)
			if prev, seen := flags[o]; seen {
				flags[o] = prev && ok
			} else {
				flags[o] = ok
			}
		}
		notFound, foundE, _ := condEdges(fn, func(cond ast.Expr) (bool, bool) {
			if m, foundWhenTrue := idxFound(cond); m {
				return true, !foundWhenTrue
			}
			x, neg := negated(cond)
			if o := lsIdentObj(info, x); o != nil && flags[o] {
				return true, neg // `!found` passes on true; `found` passes on false
			}
			if call, ok := x.(*ast.CallExpr); ok {
				if f, _ := an.Callee(info, call).(*types.Func); f != nil && f.Pkg() != nil && f.Pkg().Path() == "slices" && f.Name() == "Contains" && len(call.Args) == 2 && isList(call.Args[0]) && isDerefW(call.Args[1]) {
					return true, neg
				}
			}
			return false, false
		})
		// every path from `working != nil` to the dial loop passes a front store. The edge on
		// which the found-flag is true counts as passing one when every `flag = true` is
		// itself tied to a front store (before it on all paths, or between it and the test).
		blocked := map[an.Point]bool{}
		for _, f := range fronts {
			blocked[f.p] = true
		}
		flagTied := true
		for _, h := range fn.FindNodes(func(n ast.Node) bool {
			as, ok := n.(*ast.AssignStmt)
			if !ok || len(as.Lhs) != 1 || len(as.Rhs) != 1 {
				return false
			}
			id, ok := an.Unparen(as.Rhs[0]).(*ast.Ident)
			return ok && id.Name == "true" && flags[lsIdentObj(info, as.Lhs[0])]
		}) {
			var frontPts []an.Point
			for _, f := range fronts {
				frontPts = append(frontPts, f.p)
			}
			before := fn.MustPass(h.P, frontPts, nil)
			after := !fn.Reach(h.P, blocked, nil)[rangeX]
			if !before && !after {
				flagTied = false
			}
		}
		extra := map[an.Edge]bool{}
		if flagTied {
			extra = edgeSet(foundE)
		}
		for _, e := range nonNil {
			reach := fn.Reach(an.Point{B: e.B, I: len(e.B.Nodes) - 1}, blocked, mergeEdges(edgesExcept(e), extra))
			r.Check(len(fronts) > 0 && !reach[rangeX], "C29.3", "Dial:working-id-first", c.PosP(edgePt(e)),
				"with a recorded working ID every path to the dial loop first places it at the front of the list",
				"with a recorded working ID there is a path to the dial loop on which it is not moved to the front of the list (neither list[0] = *working nor a prepend): the last working fingerprint is not tried first")
		}
		for _, f := range fronts {
			switch f.kind {
			case "swap":
				// guarded by element == *working, preceded by list[key] = list[0]
				okGuard := len(eqEdges) > 0 && fn.MustPass(f.p, nil, eqEdges)
				swaps := fn.Find(func(n ast.Node) bool {
					as, ok := n.(*ast.AssignStmt)
					if !ok || len(as.Lhs) != 1 || len(as.Rhs) != 1 {
						return false
					}
					l, ok1 := an.Unparen(as.Lhs[0]).(*ast.IndexExpr)
					rr, ok2 := an.Unparen(as.Rhs[0]).(*ast.IndexExpr)
					if !ok1 || !ok2 || !isList(l.X) || !isList(rr.X) {
						return false
					}
					v, isC := an.ConstInt(info, rr.Index)
					return isC && v == 0 && searchKey != nil && lsIdentObj(info, l.Index) == searchKey
				})
				okSwap := len(swaps) > 0 && fn.MustPass(f.p, swaps, nil) && len(eqEdges) > 0
				for _, s := range swaps {
					if !fn.MustPass(s, nil, eqEdges) {
						okSwap = false
					}
				}
				r.Check(okGuard && okSwap, "C29.3", "Dial:front-swap", c.Pos(f.as),
					"list[0] = *working happens only where list[i] == *working, after list[i] = list[0]: the list stays a permutation",
					"the working ID overwrites list[0] without the old first element being moved to the slot where the working ID was found (or outside the element == *working branch): one configured ID is lost and the working ID is tried twice")
			case "prepend":
				r.Check(len(notFound) > 0 && fn.MustPass(f.p, nil, notFound), "C29.3", "Dial:front-prepend", c.Pos(f.as),
					"the working ID is prepended only when it was not found in the list",
					"the working ID is prepended although it may already be in the list: it is tried twice in one Dial call")
			}
		}
		// the list is a private copy
		copied := fn.Find(func(n ast.Node) bool {
			call, ok := n.(*ast.CallExpr)
			if !ok || len(call.Args) != 2 {
				return false
			}
			id, ok := an.Unparen(call.Fun).(*ast.Ident)
			if !ok || id.Name != "copy" {
				return false
			}
			return isList(call.Args[0]) && an.FieldSel(info, an.Unparen(call.Args[1]), "Roller", "HelloIDs")
		})
		alias := false
		madeLocal := false
		ast.Inspect(fn.Body, func(n ast.Node) bool {
			as, ok := n.(*ast.AssignStmt)
			if !ok || len(as.Lhs) != len(as.Rhs) {
				return true
			}
			for i, l := range as.Lhs {
				if !isList(l) {
					continue
				}
				rh := an.Unparen(as.Rhs[i])
				if an.FieldSel(info, rh, "Roller", "HelloIDs") {
					alias = true
				}
				if se, ok := rh.(*ast.SliceExpr); ok && an.FieldSel(info, an.Unparen(se.X), "Roller", "HelloIDs") {
					alias = true
				}
				if call, ok := rh.(*ast.CallExpr); ok {
					if id, ok := an.Unparen(call.Fun).(*ast.Ident); ok && id.Name == "make" {
						madeLocal = true
					}
					if f, _ := an.Callee(info, call).(*types.Func); f != nil && f.Pkg() != nil && f.Pkg().Path() == "slices" && f.Name() == "Clone" {
						madeLocal = true
						copied = append(copied, rangeX) // Clone both allocates and copies
					}
				}
			}
			return true
		})
		r.Check(!alias && madeLocal && len(copied) > 0 && fn.MustPass(rangeX, copied, nil), "C29.3", "Dial:private-copy", c.Pos(rs.X),
			"the ID list is a fresh slice filled from HelloIDs",
			"the list that is shuffled/prioritised aliases Roller.HelloIDs (or is never filled from it): concurrent Dials permute the shared slice under each other, so an ID can be tried twice or not at all")
		// HelloIDs itself never written in Dial
		written := false
		ast.Inspect(fn.Body, func(n ast.Node) bool {
			as, ok := n.(*ast.AssignStmt)
			if !ok {
				return true
			}
			for _, l := range as.Lhs {
				l = an.Unparen(l)
				if ix, ok := l.(*ast.IndexExpr); ok {
					l = an.Unparen(ix.X)
				}
				if an.FieldSel(info, l, "Roller", "HelloIDs") {
					written = true
				}
			}
			return true
		})
		r.Check(!written, "C29.3", "Dial:HelloIDs-readonly", c.Pos(fn.Decl), "Dial never writes Roller.HelloIDs", "Dial writes Roller.HelloIDs (shared, unguarded): concurrent Dials race and the configured set changes")
	}
	r.Floor("C29.3", 5)

	// ---- C29.5 dial error returned immediately
	var dialAssign *ast.AssignStmt
	for _, h := range fn.FindNodes(func(n ast.Node) bool { _, ok := n.(*ast.AssignStmt); return ok }) {
		as := h.N.(*ast.AssignStmt)
		if len(as.Rhs) == 1 && an.Unparen(as.Rhs[0]) == ast.Expr(dialCall) && len(as.Lhs) == 2 {
			dialAssign = as
		}
	}
	var connObj, dialErr types.Object
	if dialAssign == nil {
		r.Unknown("C29.5", "Dial:dial-result", c.Pos(dialCall), "the result of the dial is not assigned as `conn, err = net.Dial…`")
	} else {
		connObj, dialErr = lsIdentObj(info, dialAssign.Lhs[0]), lsIdentObj(info, dialAssign.Lhs[1])
		if dialErr == nil {
			r.Bad("C29.5", "Dial:dial-error", c.Pos(dialAssign), "the dial error is discarded")
		} else {
			nonNilE, _, _ := nilTestEdges(fn, dialErr)
			found := false
			for _, fe := range nonNilE {
				p := edgePt(fe)
				if lastAssignBefore(fn, p, dialErr) != dialAssign {
					continue
				}
				found = true
				// every exit on the failing edge returns that error, before any further attempt
				rets := map[an.Point]bool{}
				for _, rp := range fn.Returns() {
					rets[rp] = true
				}
				reach := reachEdge(fn, fe, rets)
				ok := !reach[loopHead]
				why := "after a failed TCP dial the loop goes on to the next ID instead of returning the error right away"
				sawRet := false
				for p := range reach {
					if p.I < 0 || !rets[p] {
						continue
					}
					sawRet = true
					rst := p.Node().(*ast.ReturnStmt)
					if len(rst.Results) == 0 || lsIdentObj(info, rst.Results[len(rst.Results)-1]) != dialErr {
						ok = false
						why = "the return after a failed TCP dial does not return the dial error"
					}
				}
				if !sawRet {
					ok = false
				}
				for p := range reach {
					if p.I >= 0 && an.Contains(p.Node(), an.CallTo(info, Mod, "", "UClient")) {
						ok = false
						why = "a uTLS client is built on a connection whose dial failed"
					}
				}
				r.Check(ok, "C29.5", "Dial:dial-error-returns", c.PosP(p), "a TCP dial error is returned at once", why)
			}
			if !found {
				r.Bad("C29.5", "Dial:dial-error-returns", c.Pos(dialAssign), "the dial error is not tested right after the dial: a failed TCP connection is handed to UClient")
			}
		}
	}
	r.Floor("C29.5", 1)

	// ---- C29.6 UClient -> SetSNI(serverName) -> Handshake
	var clientObj types.Object
	var uclientPt an.Point
	for _, h := range fn.FindNodes(an.CallTo(info, Mod, "", "UClient")) {
		call := h.N.(*ast.CallExpr)
		uclientPt = h.P
		if as, ok := h.P.Node().(*ast.AssignStmt); ok && len(as.Lhs) == 1 {
			clientObj = lsIdentObj(info, as.Lhs[0])
		}
		okArgs := len(call.Args) == 3 && connObj != nil && lsIdentObj(info, call.Args[0]) == connObj && lsIdentObj(info, call.Args[2]) == elemObj
		r.Check(okArgs, "C29.6", "Dial:UClient-args", c.Pos(call), "the client wraps the connection just dialled with the loop's hello ID",
			"UClient is not built from the freshly dialled connection and the loop's current hello ID: the loop does not try the IDs it ranges over")
	}
	if clientObj == nil {
		r.Unknown("C29.6", "Dial:UClient", c.Pos(rs), "no `client := UClient(conn, _, id)` in the dial loop")
	} else {
		params := map[types.Object]bool{}
		for _, f := range fn.Decl.Type.Params.List {
			for _, nm := range f.Names {
				params[info.Defs[nm]] = true
			}
		}
		dialArgs := map[types.Object]bool{}
		for _, a := range dialCall.Args {
			if o := lsIdentObj(info, a); o != nil {
				dialArgs[o] = true
			}
		}
		onClient := func(name string) func(ast.Node) bool {
			return func(n ast.Node) bool {
				call, ok := n.(*ast.CallExpr)
				if !ok || !an.IsCallTo(info, call, Mod, "UConn", name) {
					return false
				}
				se, ok := an.Unparen(call.Fun).(*ast.SelectorExpr)
				return ok && lsIdentObj(info, se.X) == clientObj
			}
		}
		snis := fn.FindNodes(onClient("SetSNI"))
		var sniPts []an.Point
		for _, s := range snis {
			call := s.N.(*ast.CallExpr)
			o := lsIdentObj(info, call.Args[0])
			ok := o != nil && params[o] && !dialArgs[o]
			r.Check(ok, "C29.6", "Dial:SetSNI-arg", c.Pos(call), "SNI is set to Dial's server-name parameter", "SetSNI is not given Dial's serverName parameter (the one that is not a dial argument): the ClientHello carries a different name than the caller asked for")
			if ok {
				sniPts = append(sniPts, s.P)
			}
		}
		var hs []an.Hit
		hs = append(hs, fn.FindNodes(onClient("Handshake"))...)
		hs = append(hs, fn.FindNodes(onClient("HandshakeContext"))...)
		if len(hs) == 0 {
			r.Bad("C29.6", "Dial:Handshake", c.Pos(rs), "the loop never performs the handshake on the client it builds")
		}
		for _, h := range hs {
			r.Check(len(sniPts) > 0 && fn.MustPassFrom(uclientPt, h.P, sniPts, nil), "C29.6", "Dial:order", c.Pos(h.N),
				"every path from UClient to Handshake passes SetSNI(serverName)", "Handshake is reachable from UClient without SetSNI(serverName) in between: the handshake runs with an empty or stale server name")
		}

		// ---- C29.7 record the working ID only on success and return that client
		var hsErr types.Object
		var hsPt an.Point
		for _, h := range hs {
			if as, ok := h.P.Node().(*ast.AssignStmt); ok && len(as.Lhs) == 1 {
				hsErr, hsPt = lsIdentObj(info, as.Lhs[0]), h.P
			}
		}
		stores := fn.FindNodes(func(n ast.Node) bool {
			as, ok := n.(*ast.AssignStmt)
			if !ok {
				return false
			}
			for _, l := range as.Lhs {
				if an.FieldSel(info, an.Unparen(l), "Roller", "WorkingHelloID") {
					return true
				}
			}
			return false
		})
		if hsErr == nil {
			r.Bad("C29.7", "Dial:handshake-error", c.Pos(rs), "the handshake error is not kept: success cannot be told from failure")
		} else if len(stores) == 0 {
			r.Bad("C29.7", "Dial:store", c.Pos(rs), "Dial never records the working hello ID")
		} else {
			failE, okE, _ := nilTestEdges(fn, hsErr)
			var okEdges, failEdges []an.Edge
			for _, e := range okE {
				if as := lastAssignBefore(fn, edgePt(e), hsErr); as != nil && as == hsPt.Node() {
					okEdges = append(okEdges, e)
				}
			}
			for _, e := range failE {
				if as := lastAssignBefore(fn, edgePt(e), hsErr); as != nil && as == hsPt.Node() {
					failEdges = append(failEdges, e)
				}
			}
			if len(okEdges) == 0 {
				r.Bad("C29.7", "Dial:handshake-error", c.PosP(hsPt), "the handshake error is not tested before the result is used")
			}
			storePts := map[an.Point]bool{}
			for _, s := range stores {
				storePts[s.P] = true
				as := s.N.(*ast.AssignStmt)
				r.Check(len(okEdges) > 0 && fn.MustPassFrom(hsPt, s.P, nil, okEdges), "C29.7", "Dial:store-on-success", c.Pos(as),
					"WorkingHelloID is stored only after Handshake returned nil", "WorkingHelloID can be stored on a path where the handshake failed: a blocked fingerprint is remembered as working and retried first forever")
				// stored value: &client.ClientHelloID or the address of (a copy of) the loop element
				okVal := false
				if len(as.Rhs) == 1 {
					if u, ok := an.Unparen(throughLocal(info, fn.Body, as.Rhs[0])).(*ast.UnaryExpr); ok && u.Op == token.AND {
						if se, ok := an.Unparen(u.X).(*ast.SelectorExpr); ok && an.FieldSel(info, se, "UConn", "ClientHelloID") && lsIdentObj(info, se.X) == clientObj {
							okVal = true
						}
						if lsIdentObj(info, u.X) == elemObj {
							okVal = true
						}
					}
				}
				r.Check(okVal, "C29.7", "Dial:store-value", c.Pos(as), "the stored ID is the one of the client that just succeeded", "the stored working ID is not the ID of the client whose handshake just succeeded")
				// after the store: return that client, no further iteration
				rets := map[an.Point]bool{}
				for _, rp := range fn.Returns() {
					rets[rp] = true
				}
				reach := fn.Reach(s.P, rets, nil)
				ok := !reach[loopHead]
				why := "after recording the working ID the loop continues with the next ID instead of returning the connection"
				saw := false
				for p := range reach {
					if p.I >= 0 && rets[p] {
						saw = true
						rst := p.Node().(*ast.ReturnStmt)
						if len(rst.Results) == 0 || lsIdentObj(info, rst.Results[0]) != clientObj {
							ok, why = false, "the return after recording the working ID does not return the client whose handshake succeeded"
						}
					}
				}
				r.Check(ok && saw, "C29.7", "Dial:return-client", c.Pos(as), "the successful client is returned", why)
			}
			for _, e := range okEdges {
				exits := fn.ExitsReachable(an.Point{B: e.B, I: len(e.B.Nodes) - 1}, storePts, edgesExcept(e))
				reach := reachEdge(fn, e, storePts)
				r.Check(len(exits) == 0 && !reach[loopHead], "C29.7", "Dial:success-recorded", c.PosP(an.Point{B: e.B, I: len(e.B.Nodes) - 1}),
					"every successful handshake records its ID", "a successful handshake can return (or go on) without recording the working ID")
			}
			for _, e := range failEdges {
				exits := fn.ExitsReachable(an.Point{B: e.B, I: len(e.B.Nodes) - 1}, nil, mergeEdges(edgesExcept(e), edgeSet(edgesInto(fn, loopHead.B))))
				reach := reachEdge(fn, e, nil)
				r.Check(len(exits) == 0 && reach[loopHead], "C29.7", "Dial:failure-continues", c.PosP(an.Point{B: e.B, I: len(e.B.Nodes) - 1}),
					"a failed handshake moves on to the next ID", "a failed handshake returns instead of trying the remaining hello IDs")
			}
		}
	}
	r.Floor("C29.6", 3)
	r.Floor("C29.7", 5)
	_ = load.RecvName
}
