package props

// C28 — GetOutKeystream returns the keystream of the next record and does not change
// connection state.
//
// The reference for "what the next record is encrypted with" is halfConn.encrypt's AEAD
// case, analysed on every run (not a frozen copy): which half writes (the receiver of the
// encrypt call sites), where the nonce given to Seal comes from on the paths an AEAD cipher
// can take, and where the payload sits in Seal's plaintext. GetOutKeystream must feed the
// same cipher with the same nonce source, an all-zero plaintext of the requested length,
// and must neither store to connection state nor reach anything that does.

import (
	"fmt"
	"go/ast"
	"go/constant"
	"go/token"
	"go/types"
	"sort"
	"strings"

	"verif/internal/an"
	"verif/internal/load"

	"golang.org/x/tools/go/ssa"
)

func init() { register(&Prop{ID: "C28", Run: runC28}) }

func runC28(c *Ctx) {
	r := c.R
	r.Technique = "go/ssa value tracing of the Seal arguments in GetOutKeystream and in halfConn.encrypt's AEAD case (path feasibility restricted to AEAD ciphers by evaluating explicitNonceLen of every aead implementer), " +
		"store/call reachability for purity, XOR-balance of the nonce wrappers"
	r.Explanation = "C28.1: the half whose encrypt is called by the record writer is Conn.out; in encrypt every nonce that can reach Seal for an AEAD cipher is the whole of halfConn.seq (directly, or copied into the explicit nonce; the random fill is unreachable for AEADs because every aead implementer's explicitNonceLen is a constant below the threshold and none is a cbcMode); GetOutKeystream passes the whole of out.seq of the same connection and calls Seal on the value type-asserted from out.cipher. " +
		"C28.2: the plaintext is a fresh zero slice whose length is the requested length and that nobody writes before Seal; dst is nil/empty so the result starts with the keystream; the returned slice is the Seal result or a prefix of it; in encrypt the payload starts at offset 0 of Seal's plaintext (TLS 1.2 and 1.3 forms). " +
		"C28.3: the type assertion is the comma-ok form, Seal runs only on the ok outcome, every exit of the not-ok outcome carries a non-nil error. " +
		"C28.4: no function reachable from GetOutKeystream (static calls, interface calls resolved to module implementers) stores to a field of halfConn/Conn/UConn, copies or appends into one; incSeq and encrypt are recognised as state-changing by the same predicate (self-test). " +
		"C28.5: the module's cipher.AEAD wrappers reachable through Seal leave their own state as they found it (nonce prefix overwritten from the argument before use; XOR mask applied and removed symmetrically)."
	r.NotDecided = "the XOR relation itself (that the AEADs are counter-mode so the first n output bytes are the keystream, independent of the additional data — a property of crypto/cipher and x/crypto, outside the module); data races with a concurrent Write (out.seq is read without out's mutex)"

	impls := aeadImpls(c)
	if len(impls) == 0 {
		r.Unknown("C28.1", "aead-implementers", "", "no type implementing the aead interface found in package tls")
		return
	}
	var names []string
	for _, im := range impls {
		names = append(names, fmt.Sprintf("%s(explicitNonceLen=%d)", im.name, im.explicit))
		if im.explicit < 0 {
			r.Unknown("C28.1", "aead:"+im.name, "", "explicitNonceLen of %s is not a constant", im.name)
		}
	}
	r.Count("aead_implementers", len(impls))

	half := c28WriterHalf(c)
	enc := c.ssaFunc("C28.1", "halfConn", "encrypt")
	if enc != nil {
		c28EncryptRef(c, enc, impls, strings.Join(names, ", "))
	}
	gok := c.ssaFunc("C28.1", "UConn", "GetOutKeystream")
	if gok != nil && half != "" {
		c28Keystream(c, gok, half)
		c28Purity(c, gok)
	}
	r.Floor("C28.1", 6)
	r.Floor("C28.2", 5)
	r.Floor("C28.3", 3)
	r.Floor("C28.4", 5)
	r.Floor("C28.5", 2)
}

// ---- aead implementers ------------------------------------------------------------------

type aeadImpl struct {
	name     string
	recv     types.Type // the type (T or *T) whose method set satisfies aead
	explicit int64      // constant result of explicitNonceLen(), -1 if not constant
}

func aeadImpls(c *Ctx) []aeadImpl {
	var out []aeadImpl
	scope := c.P.TLS.Types.Scope()
	atn, _ := scope.Lookup("aead").(*types.TypeName)
	if atn == nil {
		return nil
	}
	iface, ok := atn.Type().Underlying().(*types.Interface)
	if !ok {
		return nil
	}
	lens := aeadExplicitLens(c)
	for _, name := range scope.Names() {
		tn, ok := scope.Lookup(name).(*types.TypeName)
		if !ok || tn == atn {
			continue
		}
		named, ok := tn.Type().(*types.Named)
		if !ok || types.IsInterface(named) {
			continue
		}
		switch {
		case types.Implements(named, iface):
			out = append(out, aeadImpl{name, named, lens[name]})
		case types.Implements(types.NewPointer(named), iface):
			out = append(out, aeadImpl{name, types.NewPointer(named), lens[name]})
		}
	}
	return out
}

func anyImplements(impls []aeadImpl, t types.Type) bool {
	iface, ok := t.Underlying().(*types.Interface)
	if !ok {
		return true // asserting to a concrete type: cannot exclude
	}
	for _, im := range impls {
		if types.Implements(im.recv, iface) {
			return true
		}
	}
	return false
}

// ---- which half writes -------------------------------------------------------------------

// c28WriterHalf: the Conn field whose encrypt method the record writer calls.
func c28WriterHalf(c *Ctx) string {
	info := c.Info()
	halves := map[string]bool{}
	n := 0
	for _, fd := range load.AllFuncDecls(c.P.TLS) {
		ast.Inspect(fd.Body, func(x ast.Node) bool {
			call, ok := x.(*ast.CallExpr)
			if !ok || !an.IsCallTo(info, call, Mod, "halfConn", "encrypt") {
				return true
			}
			n++
			se, _ := call.Fun.(*ast.SelectorExpr)
			h := "?"
			if se != nil {
				for _, f := range []string{"in", "out"} {
					if an.FieldSel(info, an.Unparen(se.X), "Conn", f) {
						h = f
					}
				}
			}
			halves[h] = true
			return true
		})
	}
	if n == 0 || len(halves) != 1 || halves["?"] {
		c.R.Unknown("C28.1", "writer-half", "", "could not determine the half whose encrypt() writes records (%d call sites, receivers %v)", n, halves)
		return ""
	}
	for h := range halves {
		c.R.Ok("C28.1", "writer-half", "", "all %d halfConn.encrypt call sites have receiver Conn.%s: records are sent with that half's cipher and seq", n, h)
		return h
	}
	return ""
}

// ---- helpers on SSA ------------------------------------------------------------------------

func builtinName(call ssa.CallInstruction) string {
	if b, ok := call.Common().Value.(*ssa.Builtin); ok {
		return b.Name()
	}
	return ""
}

// sealCalls lists interface calls of a method named Seal with the cipher.AEAD shape.
func sealCalls(f *ssa.Function) []*ssa.Call {
	var out []*ssa.Call
	allInstrs(f, func(i ssa.Instruction) {
		call, ok := i.(*ssa.Call)
		if !ok || !call.Call.IsInvoke() || call.Call.Method.Name() != "Seal" || len(call.Call.Args) != 4 {
			return
		}
		out = append(out, call)
	})
	return out
}

func isZeroConst(v ssa.Value) bool {
	k, ok := v.(*ssa.Const)
	return ok && k.Value != nil && k.Value.Kind() == constant.Int && constant.Sign(k.Value) == 0
}

func c28LenArg(v ssa.Value) ssa.Value {
	call, ok := v.(*ssa.Call)
	if !ok || builtinName(call) != "len" || len(call.Call.Args) != 1 {
		return nil
	}
	return call.Call.Args[0]
}

// edgeNonEmpty: taking the edge pred->blk implies len(v) != 0.
func edgeNonEmpty(pred, blk *ssa.BasicBlock, v ssa.Value) bool {
	if len(pred.Instrs) == 0 || len(pred.Succs) != 2 {
		return false
	}
	br, ok := pred.Instrs[len(pred.Instrs)-1].(*ssa.If)
	if !ok {
		return false
	}
	bo, ok := br.Cond.(*ssa.BinOp)
	if !ok || c28LenArg(bo.X) != v || !isZeroConst(bo.Y) {
		return false
	}
	switch bo.Op {
	case token.EQL, token.LEQ:
		return blk == pred.Succs[1] && pred.Succs[0] != pred.Succs[1]
	case token.NEQ, token.GTR:
		return blk == pred.Succs[0] && pred.Succs[0] != pred.Succs[1]
	}
	return false
}

// infeasibleForAEAD computes the block edges of f (a halfConn method, receiver param 0) that
// cannot be taken when the half's cipher is one of the module's aead implementers.
func infeasibleForAEAD(f *ssa.Function, impls []aeadImpl) map[bedge]bool {
	cut := map[bedge]bool{}
	recv := ssa.Value(f.Params[0])
	isCipherLoad := func(v ssa.Value) bool {
		root, p := addrPath(v)
		return root == recv && len(fieldsOf(p)) == 1 && fieldsOf(p)[0] == "halfConn.cipher"
	}
	for _, b := range f.Blocks {
		if len(b.Instrs) == 0 || len(b.Succs) != 2 || b.Succs[0] == b.Succs[1] {
			continue
		}
		br, ok := b.Instrs[len(b.Instrs)-1].(*ssa.If)
		if !ok {
			continue
		}
		tEdge, fEdge := bedge{b, b.Succs[0]}, bedge{b, b.Succs[1]}
		switch cond := br.Cond.(type) {
		case *ssa.Extract:
			ta, ok := cond.Tuple.(*ssa.TypeAssert)
			if !ok || cond.Index != 1 || !isCipherLoad(ta.X) {
				continue
			}
			if !anyImplements(impls, ta.AssertedType) {
				cut[tEdge] = true // e.g. cbcMode, cipher.Stream: no aead implementer is one
			}
		case *ssa.BinOp:
			// cipher == nil
			if (cond.Op == token.EQL || cond.Op == token.NEQ) && isCipherLoad(cond.X) {
				if k, ok := cond.Y.(*ssa.Const); ok && k.IsNil() {
					if cond.Op == token.EQL {
						cut[tEdge] = true
					} else {
						cut[fEdge] = true
					}
				}
				continue
			}
			// explicitNonceLen() <op> K
			call, ok := cond.X.(*ssa.Call)
			if !ok {
				continue
			}
			sc := call.Call.StaticCallee()
			if sc == nil || sc.Object() == nil || !an.FuncIs(sc.Object(), Mod, "halfConn", "explicitNonceLen") || call.Call.Args[0] != recv {
				continue
			}
			kc, ok := cond.Y.(*ssa.Const)
			if !ok || kc.Value == nil || kc.Value.Kind() != constant.Int {
				continue
			}
			k, _ := constant.Int64Val(kc.Value)
			allTrue, allFalse := true, true
			for _, im := range impls {
				if im.explicit < 0 {
					allTrue, allFalse = false, false
					break
				}
				var holds bool
				switch cond.Op {
				case token.LSS:
					holds = im.explicit < k
				case token.LEQ:
					holds = im.explicit <= k
				case token.GTR:
					holds = im.explicit > k
				case token.GEQ:
					holds = im.explicit >= k
				case token.EQL:
					holds = im.explicit == k
				case token.NEQ:
					holds = im.explicit != k
				default:
					allTrue, allFalse = false, false
				}
				if holds {
					allFalse = false
				} else {
					allTrue = false
				}
			}
			// a zero-length explicit nonce never reaches the fill code (guarded by > 0), so
			// only report what holds for every implementer
			if allTrue {
				cut[fEdge] = true
			}
			if allFalse {
				cut[tEdge] = true
			}
		}
	}
	return cut
}

// ---- C28.1/C28.2 reference: halfConn.encrypt ------------------------------------------------

type nonceLeaf struct {
	kind string // seq | partial-seq | empty | buf | other
	v    ssa.Value
}

func c28EncryptRef(c *Ctx, f *ssa.Function, impls []aeadImpl, implNames string) {
	r := c.R
	recv := ssa.Value(f.Params[0])
	var payload ssa.Value
	for _, p := range f.Params[1:] {
		if p.Name() == "payload" {
			payload = p
		}
	}
	if payload == nil && len(f.Params) >= 3 {
		payload = f.Params[2]
	}
	cut := infeasibleForAEAD(f, impls)

	// halfConn.explicitNonceLen must hand back the implementer's own explicitNonceLen for aead ciphers
	if en := c.ssaFunc("C28.1", "halfConn", "explicitNonceLen"); en != nil {
		ecut := infeasibleForAEAD(en, impls)
		reach := instrReach(en, nil, nil, ecut)
		ok, n := true, 0
		for i := range reach {
			ret, isRet := i.(*ssa.Return)
			if !isRet {
				continue
			}
			n++
			call, isCall := ret.Results[0].(*ssa.Call)
			if !isCall || !call.Call.IsInvoke() || call.Call.Method.Name() != "explicitNonceLen" {
				ok = false
			}
		}
		r.Check(ok && n > 0, "C28.1", "halfConn.explicitNonceLen", c.P.Pos(en.Pos()), "for an aead cipher the only reachable return is the implementer's explicitNonceLen() ("+implNames+")",
			"for an aead cipher halfConn.explicitNonceLen can return something other than the implementer's explicitNonceLen(): the reachability argument for encrypt's nonce does not hold")
	}

	seals := sealCalls(f)
	if len(seals) == 0 {
		r.Unknown("C28.1", "encrypt:aead-seal", c.P.Pos(f.Pos()), "no Seal call found in halfConn.encrypt")
		return
	}
	sort.Slice(seals, func(i, j int) bool { return seals[i].Pos() < seals[j].Pos() })
	for k, seal := range seals {
		cons := fmt.Sprintf("encrypt:aead-seal#%d", k+1)
		pos := c.ipos(seal)
		// ---- nonce sources
		var leaves []nonceLeaf
		seen := map[string]bool{}
		var walk func(v ssa.Value, nonEmpty bool)
		walk = func(v ssa.Value, nonEmpty bool) {
			key := fmt.Sprintf("%p/%v", v, nonEmpty)
			if seen[key] {
				return
			}
			seen[key] = true
			switch x := v.(type) {
			case *ssa.Phi:
				for i, in := range x.Edges {
					pred := x.Block().Preds[i]
					if cut[bedge{pred, x.Block()}] {
						continue
					}
					walk(in, nonEmpty || edgeNonEmpty(pred, x.Block(), in))
				}
				return
			case *ssa.Const:
				if x.IsNil() {
					if !nonEmpty {
						leaves = append(leaves, nonceLeaf{"empty", v})
					}
					return
				}
			case *ssa.Slice:
				root, p := addrPath(x)
				if root == recv && len(fieldsOf(p)) == 1 && fieldsOf(p)[0] == "halfConn.seq" {
					if _, full := fullSlice(x); full {
						leaves = append(leaves, nonceLeaf{"seq", v})
					} else {
						leaves = append(leaves, nonceLeaf{"partial-seq", v})
					}
					return
				}
			case *ssa.Extract:
				leaves = append(leaves, nonceLeaf{"buf", v})
				return
			}
			leaves = append(leaves, nonceLeaf{"other", v})
		}
		walk(seal.Call.Args[1], false)
		var bad, unknown []string
		nSeq, nBuf := 0, 0
		for _, lf := range leaves {
			switch lf.kind {
			case "seq":
				nSeq++
			case "partial-seq":
				bad = append(bad, "only part of seq is used as nonce")
			case "empty":
				unknown = append(unknown, "an empty nonce may reach Seal (no len(nonce)==0 fallback recognised)")
			case "other":
				unknown = append(unknown, "nonce source "+lf.v.String()+" not recognised")
			case "buf":
				nBuf++
				// fills of the buffer
				var seqFills []ssa.Instruction
				var otherFills []ssa.Instruction
				for _, ref := range *lf.v.Referrers() {
					ci, ok := ref.(ssa.CallInstruction)
					if !ok || ref == ssa.Instruction(seal) {
						continue
					}
					switch builtinName(ci) {
					case "len", "cap":
						continue
					case "copy":
						if ci.Common().Args[0] != lf.v {
							continue // the buffer is only read
						}
						src := ci.Common().Args[1]
						root, p := addrPath(src)
						if _, full := fullSlice(src); full && root == recv && len(fieldsOf(p)) == 1 && fieldsOf(p)[0] == "halfConn.seq" {
							seqFills = append(seqFills, ref)
						} else {
							otherFills = append(otherFills, ref)
						}
						continue
					}
					if _, isSeal := ref.(*ssa.Call); isSeal && ref.(*ssa.Call).Call.IsInvoke() && ref.(*ssa.Call).Call.Method.Name() == "Seal" {
						continue
					}
					otherFills = append(otherFills, ref)
				}
				live := instrReach(f, nil, nil, cut)
				for _, of := range otherFills {
					if live[of] {
						bad = append(bad, fmt.Sprintf("the explicit nonce can be filled by %s (%s) for an AEAD cipher (%s): the nonce of the next record is then not a function of seq and cannot be predicted", shortInstr(of), c.ipos(of), implNames))
					}
				}
				if len(seqFills) == 0 {
					bad = append(bad, "the explicit nonce buffer is never filled from seq")
				} else if def, ok := lf.v.(ssa.Instruction); ok {
					bl := map[ssa.Instruction]bool{}
					for _, s := range seqFills {
						bl[s] = true
					}
					if instrReach(f, def, bl, cut)[ssa.Instruction(seal)] {
						unknown = append(unknown, "a path from the explicit-nonce allocation to Seal avoids the copy from seq")
					}
				}
			}
		}
		switch {
		case len(bad) > 0:
			r.Bad("C28.1", cons, pos, "%s", strings.Join(bad, "; "))
		case len(unknown) > 0 || len(leaves) == 0:
			r.Unknown("C28.1", cons, pos, "%s", strings.Join(append(unknown, fmt.Sprintf("%d sources", len(leaves))), "; "))
		default:
			r.Ok("C28.1", cons, pos, "AEAD nonce is the whole of halfConn.seq on every feasible path (%d direct, %d via the explicit-nonce copy; random fill unreachable for %s)", nSeq, nBuf, implNames)
		}
		// ---- payload position in the plaintext
		cons2 := fmt.Sprintf("encrypt:aead-plaintext#%d", k+1)
		pt := seal.Call.Args[2]
		switch {
		case pt == payload:
			r.Ok("C28.2", cons2, pos, "Seal's plaintext is the payload itself: keystream byte i meets payload byte i")
		default:
			// record[hdr:] where record = append(record, payload...) and dst = record[:hdr]
			ok := false
			if s, isSlice := pt.(*ssa.Slice); isSlice && s.Low != nil {
				if d, isD := seal.Call.Args[0].(*ssa.Slice); isD && d.X == s.X && d.High == s.Low || isD && d.X == s.X && sameConst(d.High, s.Low) {
					// dst is the same buffer cut where the plaintext starts; the buffer was built by appending the payload right after dst
					ok = appendsPayloadFirst(s.X, payload)
				}
			}
			if ok {
				r.Ok("C28.2", cons2, pos, "Seal's plaintext is the tail of a buffer built as header‖payload‖…: the payload starts at plaintext offset 0")
			} else {
				r.Unknown("C28.2", cons2, pos, "cannot show that the payload starts at offset 0 of Seal's plaintext (%s)", pt.String())
			}
		}
	}
}

func sameConst(a, b ssa.Value) bool {
	ka, ok1 := a.(*ssa.Const)
	kb, ok2 := b.(*ssa.Const)
	return ok1 && ok2 && ka.Value != nil && kb.Value != nil && constant.Compare(ka.Value, token.EQL, kb.Value)
}

// appendsPayloadFirst: buf derives (through appends and in-place index stores) from
// append(x, payload...) and nothing is appended before the payload.
func appendsPayloadFirst(buf, payload ssa.Value) bool {
	for depth := 0; depth < 8; depth++ {
		call, ok := buf.(*ssa.Call)
		if !ok || builtinName(call) != "append" || len(call.Call.Args) != 2 {
			return false
		}
		if call.Call.Args[1] == payload {
			return true
		}
		buf = call.Call.Args[0]
	}
	return false
}

func shortInstr(i ssa.Instruction) string {
	s := i.String()
	if len(s) > 60 {
		s = s[:60] + "…"
	}
	return s
}

// ---- GetOutKeystream ------------------------------------------------------------------------

func c28Keystream(c *Ctx, f *ssa.Function, half string) {
	r := c.R
	recv := ssa.Value(f.Params[0])
	var length ssa.Value
	for _, p := range f.Params[1:] {
		if b, ok := p.Type().Underlying().(*types.Basic); ok && b.Info()&types.IsInteger != 0 {
			length = p
		}
	}
	seals := sealCalls(f)
	if len(seals) != 1 {
		r.Unknown("C28.1", "GetOutKeystream:seal", c.P.Pos(f.Pos()), "%d Seal calls found, expected one", len(seals))
		return
	}
	seal := seals[0]
	pos := c.ipos(seal)
	wantHalf := "Conn." + half
	connPrefix := func(p []string) string {
		fs := fieldsOf(p)
		if len(fs) < 2 {
			return "?"
		}
		return strings.Join(fs[:len(fs)-2], "/")
	}

	// ---- cipher
	var ta *ssa.TypeAssert
	switch x := seal.Call.Value.(type) {
	case *ssa.Extract:
		ta, _ = x.Tuple.(*ssa.TypeAssert)
	case *ssa.TypeAssert:
		ta = x
	}
	cipherConn := ""
	if ta == nil {
		r.Unknown("C28.1", "GetOutKeystream:cipher", pos, "the value Seal is called on (%s) is not a type assertion of the half's cipher", seal.Call.Value.String())
	} else {
		root, p := addrPath(ta.X)
		switch {
		case root == recv && hasSuffixPath(p, wantHalf, "halfConn.cipher"):
			cipherConn = connPrefix(p)
			r.Ok("C28.1", "GetOutKeystream:cipher", pos, "Seal is called on %s asserted to %s", pathString(fieldsOf(p)), ta.AssertedType.String())
		case hasSuffixPath(p, "halfConn.cipher") || hasSuffixPath(p, "halfConn.nextCipher"):
			r.Bad("C28.1", "GetOutKeystream:cipher", pos, "Seal is called on %s, but the next record is encrypted with %s.cipher", pathString(fieldsOf(p)), wantHalf)
		default:
			r.Unknown("C28.1", "GetOutKeystream:cipher", pos, "cipher source %s not recognised", describeValue(ta.X))
		}
	}
	// ---- nonce
	nonce := seal.Call.Args[1]
	nroot, np := addrPath(nonce)
	_, full := fullSlice(nonce)
	switch {
	case nroot == recv && hasSuffixPath(np, wantHalf, "halfConn.seq") && full:
		if cipherConn != "" && connPrefix(np) != cipherConn {
			r.Bad("C28.1", "GetOutKeystream:nonce", pos, "cipher and sequence number are taken from different connections (%s vs %s)", cipherConn, connPrefix(np))
		} else {
			r.Ok("C28.1", "GetOutKeystream:nonce", pos, "nonce is the whole of %s, the source encrypt uses for AEAD ciphers", pathString(fieldsOf(np)))
		}
	case hasSuffixPath(np, "halfConn.seq") && nroot == recv && hasSuffixPath(np, wantHalf, "halfConn.seq"):
		r.Bad("C28.1", "GetOutKeystream:nonce", pos, "only part of %s.seq is passed as nonce; encrypt uses all 8 bytes", wantHalf)
	case hasSuffixPath(np, "halfConn.seq"):
		r.Bad("C28.1", "GetOutKeystream:nonce", pos, "nonce is %s, but the next record is sealed with %s.seq", pathString(fieldsOf(np)), wantHalf)
	default:
		if _, isConst := nonce.(*ssa.Const); isConst {
			r.Bad("C28.1", "GetOutKeystream:nonce", pos, "nonce is the constant %s, not %s.seq", nonce.String(), wantHalf)
		} else {
			r.Bad("C28.1", "GetOutKeystream:nonce", pos, "nonce %s does not come from %s.seq, the only source encrypt uses for AEAD ciphers", describeValue(nonce), wantHalf)
		}
	}
	// ---- plaintext
	pt := seal.Call.Args[2]
	if s, ok := pt.(*ssa.Slice); ok && (s.Low == nil || isZeroConst(s.Low)) && s.High == length {
		pt = s.X
	}
	ms, isMake := pt.(*ssa.MakeSlice)
	switch {
	case !isMake:
		r.Unknown("C28.2", "GetOutKeystream:zeros", pos, "plaintext %s is not a freshly made slice", pt.String())
	case length == nil || ms.Len != length:
		r.Bad("C28.2", "GetOutKeystream:zeros", c.ipos(ms), "the zero plaintext has length %s, not the requested length: the result does not cover the next n bytes", ms.Len.String())
	default:
		written := ""
		for _, ref := range *ms.Referrers() {
			switch x := ref.(type) {
			case *ssa.DebugRef, *ssa.Slice:
				if sl, ok := x.(*ssa.Slice); ok {
					for _, r2 := range *sl.Referrers() {
						if ci, ok := r2.(ssa.CallInstruction); ok && (builtinName(ci) == "copy" && ci.Common().Args[0] == ssa.Value(sl) || !isBuiltinRead(ci) && r2 != ssa.Instruction(seal)) {
							written = shortInstr(r2)
						}
					}
				}
			case *ssa.IndexAddr:
				for _, r2 := range *x.Referrers() {
					if st, ok := r2.(*ssa.Store); ok && st.Addr == ssa.Value(x) {
						written = shortInstr(r2)
					}
				}
			case ssa.CallInstruction:
				if ref == ssa.Instruction(seal) {
					if seal.Call.Args[0] == ssa.Value(ms) {
						written = "Seal's dst"
					}
					continue
				}
				if isBuiltinRead(x) {
					continue
				}
				if builtinName(x) == "copy" && x.Common().Args[0] != ssa.Value(ms) {
					continue
				}
				written = shortInstr(ref)
			default:
				if _, isStore := ref.(*ssa.Store); isStore {
					written = shortInstr(ref)
				}
			}
		}
		r.Check(written == "", "C28.2", "GetOutKeystream:zeros", c.ipos(ms), "plaintext is make([]byte, length), untouched before Seal: output = keystream XOR 0",
			"the plaintext buffer may be modified before Seal ("+written+"): the output is no longer the bare keystream")
	}
	// ---- dst
	dst := seal.Call.Args[0]
	switch d := dst.(type) {
	case *ssa.Const:
		r.Check(d.IsNil(), "C28.2", "GetOutKeystream:dst", pos, "dst is nil: the result starts with the keystream", "dst is not nil")
	case *ssa.Slice:
		root, _ := addrPath(d)
		ptRoot, _ := addrPath(seal.Call.Args[2])
		if d.High != nil && isZeroConst(d.High) && root != ptRoot {
			r.Ok("C28.2", "GetOutKeystream:dst", pos, "dst is an empty slice of a separate buffer")
		} else {
			r.Bad("C28.2", "GetOutKeystream:dst", pos, "dst %s is not empty (Seal appends: the keystream would not start at offset 0) or aliases the plaintext", d.String())
		}
	default:
		if dst == seal.Call.Args[2] || dst == ssa.Value(ms) {
			r.Bad("C28.2", "GetOutKeystream:dst", pos, "dst is the plaintext buffer itself: Seal appends to it, so the first n bytes returned are the zero plaintext, not the keystream")
		} else {
			r.Unknown("C28.2", "GetOutKeystream:dst", pos, "dst %s not recognised as nil/empty", dst.String())
		}
	}
	r.Ok("C28.2", "GetOutKeystream:additional-data", pos, "additional data %s: only the trailing tag depends on it, not the first n bytes (not compared with the record's tag)", seal.Call.Args[3].String())

	// ---- C28.3 comma-ok, guard, exits
	if ta != nil {
		if !ta.CommaOk {
			r.Bad("C28.3", "GetOutKeystream:assertion", c.ipos(ta), "single-value type assertion: a CBC/RC4/nil cipher panics instead of returning an error")
		} else {
			var okEdges []bedge
			var failEdges []bedge
			for _, b := range f.Blocks {
				if len(b.Succs) != 2 || len(b.Instrs) == 0 {
					continue
				}
				br, isIf := b.Instrs[len(b.Instrs)-1].(*ssa.If)
				if !isIf {
					continue
				}
				cond := br.Cond
				neg := false
				if u, ok := cond.(*ssa.UnOp); ok && u.Op == token.NOT {
					cond, neg = u.X, true
				}
				ex, ok := cond.(*ssa.Extract)
				if !ok || ex.Tuple != ssa.Value(ta) || ex.Index != 1 {
					continue
				}
				t, e := bedge{b, b.Succs[0]}, bedge{b, b.Succs[1]}
				if neg {
					t, e = e, t
				}
				okEdges, failEdges = append(okEdges, t), append(failEdges, e)
			}
			r.Check(len(okEdges) > 0 && mustTakeEdge(f, seal, okEdges...), "C28.3", "GetOutKeystream:assertion", c.ipos(ta), "Seal runs only when the cipher is an AEAD (comma-ok outcome tested)",
				"Seal can run although the type assertion failed (nil interface call panics)")
			// exits on the not-ok outcome
			cut := map[bedge]bool{}
			for _, e := range okEdges {
				cut[e] = true
			}
			reach := instrReach(f, nil, nil, cut)
			n, okErr, where, unres := 0, true, c.ipos(ta), false
			for i := range reach {
				ret, isRet := i.(*ssa.Return)
				if !isRet || len(ret.Results) != 2 {
					continue
				}
				n++
				ev, resolved := retVal(ret, 1)
				if !resolved {
					unres = true
					continue
				}
				if k, isK := ev.(*ssa.Const); isK && k.IsNil() {
					okErr, where = false, c.ipos(ret)
				}
			}
			if unres && okErr {
				r.Unknown("C28.3", "GetOutKeystream:non-aead-exit", where, "error result of an exit is a named/spilled result whose value could not be resolved")
			} else {
				r.Check(n > 0 && okErr, "C28.3", "GetOutKeystream:non-aead-exit", where, "a non-AEAD (or absent) cipher returns a non-nil error",
					"with a non-AEAD cipher the function returns a nil error: the caller receives bytes (or nil) that are not the keystream without being told")
			}
			_ = failEdges
		}
	}
	// ---- results on the AEAD path
	nRet := 0
	for _, ret := range liveReturns(f) {
		if len(ret.Results) != 2 || !mustPassInstr(f, ret, []ssa.Instruction{seal}) {
			continue
		}
		nRet++
		res, ok0 := retVal(ret, 0)
		ev, ok1 := retVal(ret, 1)
		if !ok0 || !ok1 {
			r.Unknown("C28.3", "GetOutKeystream:aead-result", c.ipos(ret), "results are named/spilled and their values could not be resolved")
			continue
		}
		okRes := res == ssa.Value(seal)
		if s, isSlice := res.(*ssa.Slice); isSlice && s.X == ssa.Value(seal) && (s.Low == nil || isZeroConst(s.Low)) {
			okRes = true
		}
		k, isK := ev.(*ssa.Const)
		r.Check(okRes && isK && k.IsNil(), "C28.3", "GetOutKeystream:aead-result", c.ipos(ret), "returns Seal's output (from offset 0) with a nil error",
			"on the AEAD path the function does not return Seal's output from offset 0 with a nil error ("+res.String()+")")
	}
	if nRet == 0 {
		r.Bad("C28.3", "GetOutKeystream:aead-result", pos, "no return follows the Seal call")
	}
}

func isBuiltinRead(ci ssa.CallInstruction) bool {
	switch builtinName(ci) {
	case "len", "cap", "print", "println":
		return true
	}
	return false
}

// ---- C28.4 purity ----------------------------------------------------------------------------

var connStateOwners = map[string]bool{"halfConn": true, "Conn": true, "UConn": true}

// stateWrites lists the instructions of f that write into a field of halfConn/Conn/UConn
// reached through a pointer (stores, copy/append/clear destinations, map updates).
func stateWrites(f *ssa.Function) []string {
	var out []string
	touches := func(addr ssa.Value) string {
		root, p := addrPath(addr)
		if a, ok := root.(*ssa.Alloc); ok && !a.Heap {
			return ""
		}
		for _, s := range fieldsOf(p) {
			if i := strings.IndexByte(s, '.'); i > 0 && connStateOwners[s[:i]] {
				return pathString(fieldsOf(p))
			}
		}
		return ""
	}
	allInstrs(f, func(i ssa.Instruction) {
		switch x := i.(type) {
		case *ssa.Store:
			if w := touches(x.Addr); w != "" {
				out = append(out, "store to "+w)
			}
		case *ssa.MapUpdate:
			if w := touches(x.Map); w != "" {
				out = append(out, "map update of "+w)
			}
		case ssa.CallInstruction:
			switch builtinName(x) {
			case "copy", "append", "clear", "delete":
				if len(x.Common().Args) > 0 {
					if w := touches(x.Common().Args[0]); w != "" {
						out = append(out, builtinName(x)+" into "+w)
					}
				}
			}
		}
	})
	return out
}

// moduleCallees resolves the module functions a call instruction may enter.
func moduleCallees(c *Ctx, ci ssa.CallInstruction) (fns []*ssa.Function, unresolved string) {
	prog, _ := c.P.SSA()
	com := ci.Common()
	inModule := func(f *ssa.Function) bool {
		return f != nil && f.Pkg != nil && strings.HasPrefix(f.Pkg.Pkg.Path(), Mod) && len(f.Blocks) > 0
	}
	if com.IsInvoke() {
		iface, ok := com.Value.Type().Underlying().(*types.Interface)
		if !ok {
			return nil, "invoke on non-interface"
		}
		for _, pk := range c.P.Pkgs {
			sc := pk.Types.Scope()
			for _, name := range sc.Names() {
				tn, ok := sc.Lookup(name).(*types.TypeName)
				if !ok {
					continue
				}
				named, ok := tn.Type().(*types.Named)
				if !ok || types.IsInterface(named) || named.TypeParams().Len() > 0 {
					continue
				}
				for _, t := range []types.Type{named, types.NewPointer(named)} {
					if !types.Implements(t, iface) {
						continue
					}
					sel := prog.MethodSets.MethodSet(t).Lookup(com.Method.Pkg(), com.Method.Name())
					if sel == nil {
						continue
					}
					if f := prog.MethodValue(sel); inModule(f) {
						fns = append(fns, f)
					}
					break
				}
			}
		}
		return fns, ""
	}
	if _, isB := com.Value.(*ssa.Builtin); isB {
		return nil, ""
	}
	if sc := com.StaticCallee(); sc != nil {
		if inModule(sc) {
			fns = append(fns, sc)
		}
		return fns, ""
	}
	return nil, "call through a function value " + com.Value.String()
}

func fnLabel(f *ssa.Function) string {
	s := f.RelString(f.Pkg.Pkg)
	return strings.NewReplacer("(", "", ")", "", "*", "").Replace(s)
}

func c28Purity(c *Ctx, entry *ssa.Function) {
	r := c.R
	// self-test of the predicate on the two functions the property names as state-changing
	for _, name := range []string{"incSeq", "encrypt", "changeCipherSpec"} {
		if f := c.ssaFunc("C28.4", "halfConn", name); f != nil {
			w := stateWrites(f)
			if name == "encrypt" {
				// encrypt changes state through incSeq (and scratchBuf appends)
				for _, call := range staticCallsTo(f, "halfConn", "incSeq") {
					_ = call
					w = append(w, "call to incSeq")
				}
			}
			if len(w) == 0 {
				r.Unknown("C28.4", "selftest:halfConn."+name, c.P.Pos(f.Pos()), "the state-write predicate no longer recognises %s as state-changing; purity results would be vacuous", name)
			} else {
				r.Ok("C28.4", "selftest:halfConn."+name, c.P.Pos(f.Pos()), "recognised as state-changing (%s)", w[0])
			}
		}
	}
	// reachability
	seen := map[*ssa.Function]bool{entry: true}
	order := []*ssa.Function{entry}
	via := map[*ssa.Function]string{entry: "entry"}
	var wrappers []*ssa.Function
	for k := 0; k < len(order); k++ {
		f := order[k]
		allInstrs(f, func(i ssa.Instruction) {
			if mc, ok := i.(*ssa.MakeClosure); ok {
				if fn, ok := mc.Fn.(*ssa.Function); ok && !seen[fn] {
					seen[fn], via[fn] = true, "closure in "+fnLabel(f)
					order = append(order, fn)
				}
			}
			ci, ok := i.(ssa.CallInstruction)
			if !ok {
				return
			}
			fns, unresolved := moduleCallees(c, ci)
			if unresolved != "" {
				if _, isClosure := ci.Common().Value.(*ssa.MakeClosure); !isClosure {
					r.Unknown("C28.4", "reach:"+fnLabel(f), c.ipos(i), "%s: callee not resolved, purity cannot be decided", unresolved)
				}
			}
			for _, g := range fns {
				if ci.Common().IsInvoke() && ci.Common().Method.Name() == "Seal" {
					wrappers = append(wrappers, g)
				}
				if !seen[g] {
					seen[g], via[g] = true, fnLabel(f)
					order = append(order, g)
				}
			}
		})
	}
	for _, f := range order {
		cons := "pure:" + fnLabel(f)
		w := stateWrites(f)
		if len(w) > 0 {
			r.Bad("C28.4", cons, c.P.Pos(f.Pos()), "reachable from GetOutKeystream (via %s) and changes connection state: %s — the next record is then sealed with a different sequence number/cipher state than the one the keystream was computed for, or the peer rejects it", via[f], strings.Join(uniq(w), ", "))
		} else {
			r.Ok("C28.4", cons, c.P.Pos(f.Pos()), "no store/copy/append into halfConn, Conn or UConn state (reached via %s)", via[f])
		}
	}
	r.Count("functions_reachable_from_GetOutKeystream", len(order))
	// C28.5 wrappers
	done := map[*ssa.Function]bool{}
	for _, w := range wrappers {
		if !done[w] {
			done[w] = true
			c28Wrapper(c, w)
		}
	}
}

func uniq(s []string) []string {
	m := map[string]bool{}
	var out []string
	for _, x := range s {
		if !m[x] {
			m[x] = true
			out = append(out, x)
		}
	}
	return out
}

// c28Wrapper: a module Seal implementation must leave its receiver as it found it.
func c28Wrapper(c *Ctx, f *ssa.Function) {
	r := c.R
	cons := fnLabel(f)
	pos := c.P.Pos(f.Pos())
	if len(f.Params) != 5 {
		r.Unknown("C28.5", cons, pos, "unexpected Seal signature")
		return
	}
	recv, nonce := ssa.Value(f.Params[0]), ssa.Value(f.Params[2])
	inner := sealCalls(f)
	if len(inner) != 1 {
		r.Unknown("C28.5", cons, pos, "%d inner Seal calls, expected one", len(inner))
		return
	}
	in := inner[0]
	var before, after []string
	var overwrites []ssa.Instruction
	problem := ""
	idxShape := func(v ssa.Value) string {
		if bo, ok := v.(*ssa.BinOp); ok && bo.Op == token.ADD {
			if k, ok := bo.X.(*ssa.Const); ok {
				return k.Value.String() + "+i"
			}
			if k, ok := bo.Y.(*ssa.Const); ok {
				return k.Value.String() + "+i"
			}
		}
		if _, ok := v.(*ssa.Const); ok {
			return v.String()
		}
		return "i"
	}
	allInstrs(f, func(i ssa.Instruction) {
		switch x := i.(type) {
		case *ssa.Store:
			root, p := addrPath(x.Addr)
			if root != recv {
				return
			}
			ia, isIA := x.Addr.(*ssa.IndexAddr)
			bo, isBO := x.Val.(*ssa.BinOp)
			if !isIA || !isBO || bo.Op != token.XOR {
				problem = "store to " + pathString(p) + " that is neither an XOR mask nor an overwrite from the nonce argument"
				return
			}
			// one operand is a load of the same element, the other a byte of the nonce argument
			same := func(v ssa.Value) bool {
				ld, ok := v.(*ssa.UnOp)
				if !ok || ld.Op != token.MUL {
					return false
				}
				ia2, ok := ld.X.(*ssa.IndexAddr)
				return ok && ia2.Index == ia.Index && valueKey(ia2.X) == valueKey(ia.X)
			}
			fromNonce := func(v ssa.Value) bool {
				root, _ := addrPath(v)
				return root == nonce
			}
			if !(same(bo.X) && fromNonce(bo.Y) || same(bo.Y) && fromNonce(bo.X)) {
				problem = "XOR into " + pathString(p) + " with something other than the nonce argument"
				return
			}
			shape := pathString(fieldsOf(p)) + "[" + idxShape(ia.Index) + "]^=nonce[i]"
			toInner, fromInner := reachableFrom(f, i, in), reachableFrom(f, in, i)
			switch {
			case toInner && !fromInner:
				before = append(before, shape)
			case fromInner && !toInner:
				after = append(after, shape)
			default:
				problem = "XOR into " + pathString(p) + " both before and after the inner Seal (loop around it?)"
			}
		case ssa.CallInstruction:
			if builtinName(x) != "copy" {
				return
			}
			root, p := addrPath(x.Common().Args[0])
			if root != recv {
				return
			}
			if sroot, _ := addrPath(x.Common().Args[1]); sroot != nonce {
				problem = "copy into " + pathString(p) + " from something other than the nonce argument"
				return
			}
			overwrites = append(overwrites, i)
		}
	})
	sort.Strings(before)
	sort.Strings(after)
	switch {
	case problem != "":
		r.Unknown("C28.5", cons, pos, "%s", problem)
	case len(before) > 0 || len(after) > 0:
		r.Check(strings.Join(before, ",") == strings.Join(after, ","), "C28.5", cons, pos,
			"nonce mask applied before the inner Seal ("+strings.Join(before, ",")+") and removed after it: receiver state unchanged",
			fmt.Sprintf("the XOR mask is applied %d time(s) before the inner Seal (%s) but removed %d time(s) after it (%s): calling Seal (and thus GetOutKeystream) leaves the nonce mask altered, the next record is sealed with a wrong nonce", len(before), strings.Join(before, ","), len(after), strings.Join(after, ",")))
	case len(overwrites) > 0:
		r.Check(mustPassInstr(f, in, overwrites), "C28.5", cons, pos, "the variable part of the stored nonce is overwritten from the argument before every use: no state carries over between calls",
			"the inner Seal can run without the stored nonce having been overwritten from the argument")
	default:
		r.Ok("C28.5", cons, pos, "no write to receiver state")
	}
}
