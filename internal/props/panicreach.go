package props

// Engine E6 "panicreach": explicit and implicit panic sites reachable from an entry set.
//
// Part 1 (this file): program index, module-restricted call graph (static callees resolved
// through go/types, interface calls on module interfaces resolved to every implementing
// type computed with types.Implements on each run, encoding/json.Unmarshal modelled by the
// UnmarshalJSON methods of the target type), reachability, and enumeration of potential
// panic sites per function body.
//
// Part 2 (panicreach_prove.go): discharge of a site by dominating guards on the CFG,
// loop/range shapes, definition facts (make/copy/Read/sub-slice) and a small linear
// inequality prover. No solver; anything not proved is reported undischarged.

import (
	"fmt"
	"go/ast"
	"go/constant"
	"go/token"
	"go/types"
	"path/filepath"
	"sort"
	"strings"

	"golang.org/x/tools/go/packages"
	"golang.org/x/tools/go/types/typeutil"

	"verif/internal/an"
)

// prFunc is one module function with a body.
type prFunc struct {
	obj    *types.Func
	pkg    *packages.Package
	decl   *ast.FuncDecl
	file   string // base name of the declaring file
	fn     *an.Fn
	lits   map[*ast.FuncLit]*an.Fn
	parent map[ast.Node]ast.Node
	points map[ast.Node]prLoc // CFG location of every node that is part of a live CFG node
	edges  []prEdge
	edged  bool
	dyn    []*ast.CallExpr // calls through function values / non-module interfaces (not followed)
}

type prLoc struct {
	fn *an.Fn
	p  an.Point
}

// prEdge is a call-graph edge.
type prEdge struct {
	to   *prFunc
	at   ast.Node
	kind string // static | iface | json | ref
	via  string // for iface/json: the static type dispatched on
}

type prProg struct {
	c     *Ctx
	byObj map[*types.Func]*prFunc
	funcs []*prFunc
	named []*types.Named // module-declared, non-interface, non-generic named types
	impl  map[string][]types.Type
}

func (f *prFunc) Name() string {
	if f.decl.Recv != nil && len(f.decl.Recv.List) > 0 {
		return an.TypeName(f.pkg.TypesInfo.TypeOf(f.decl.Recv.List[0].Type)) + "." + f.decl.Name.Name
	}
	if f.pkg.PkgPath != Mod {
		return strings.TrimPrefix(f.pkg.PkgPath, Mod+"/") + "." + f.decl.Name.Name
	}
	return f.decl.Name.Name
}

// newPrProg indexes every function declaration and named type of the module.
func newPrProg(c *Ctx) *prProg {
	pp := &prProg{c: c, byObj: map[*types.Func]*prFunc{}, impl: map[string][]types.Type{}}
	for _, pkg := range c.P.Pkgs {
		for _, file := range pkg.Syntax {
			fname := filepath.Base(c.P.Fset.Position(file.Pos()).Filename)
			for _, d := range file.Decls {
				fd, ok := d.(*ast.FuncDecl)
				if !ok || fd.Body == nil {
					continue
				}
				obj, _ := pkg.TypesInfo.Defs[fd.Name].(*types.Func)
				if obj == nil {
					continue
				}
				f := &prFunc{obj: obj, pkg: pkg, decl: fd, file: fname}
				pp.byObj[obj] = f
				pp.funcs = append(pp.funcs, f)
			}
		}
		sc := pkg.Types.Scope()
		for _, name := range sc.Names() {
			tn, ok := sc.Lookup(name).(*types.TypeName)
			if !ok || tn.IsAlias() {
				continue
			}
			n, ok := tn.Type().(*types.Named)
			if !ok || n.TypeParams().Len() > 0 {
				continue
			}
			if _, isI := n.Underlying().(*types.Interface); isI {
				continue
			}
			pp.named = append(pp.named, n)
		}
	}
	return pp
}

// lookup finds a function by receiver type name ("" for plain functions) and name in the
// package with module-relative path rel ("" = root).
func (pp *prProg) lookup(rel, recv, name string) *prFunc {
	path := Mod
	if rel != "" {
		path = Mod + "/" + rel
	}
	for _, f := range pp.funcs {
		if f.pkg.PkgPath != path || f.decl.Name.Name != name {
			continue
		}
		r := ""
		if f.decl.Recv != nil && len(f.decl.Recv.List) > 0 {
			r = an.TypeName(f.pkg.TypesInfo.TypeOf(f.decl.Recv.List[0].Type))
		}
		if r == recv {
			return f
		}
	}
	return nil
}

// moduleInterface reports whether t is a named interface declared in the module that only
// module types can implement.
func (pp *prProg) moduleInterface(t types.Type) (*types.Interface, bool) {
	t = types.Unalias(t)
	n, ok := t.(*types.Named)
	if !ok {
		return nil, false
	}
	it, ok := n.Underlying().(*types.Interface)
	if !ok {
		return nil, false
	}
	if n.Obj().Pkg() == nil || !strings.HasPrefix(n.Obj().Pkg().Path(), Mod) {
		return nil, false
	}
	// Only interfaces with an unexported method are resolved: they can be implemented
	// only inside the module, so the implementer set computed from the module's types is
	// exact. Interfaces made of exported methods alone (transcriptHash{Write}, …) are
	// structural: external types satisfy them and unrelated module types (Conn.Write)
	// do too, so class-hierarchy resolution is neither sound nor useful for them.
	sealed := false
	for i := 0; i < it.NumMethods(); i++ {
		if !it.Method(i).Exported() {
			sealed = true
		}
	}
	if !sealed {
		return nil, false
	}
	return it, true
}

// implementers returns, for a module interface type, every module named type T (as T or
// *T, whichever has the methods) whose method set satisfies it. Computed from the loaded
// program on each run.
func (pp *prProg) implementers(t types.Type) []types.Type {
	key := types.TypeString(t, nil)
	if v, ok := pp.impl[key]; ok {
		return v
	}
	it, ok := types.Unalias(t).Underlying().(*types.Interface)
	var out []types.Type
	if ok {
		for _, n := range pp.named {
			if types.Implements(n, it) {
				out = append(out, n)
			} else if p := types.NewPointer(n); types.Implements(p, it) {
				out = append(out, p)
			}
		}
	}
	pp.impl[key] = out
	return out
}

// methodOf resolves method name on type t to its declaration (following promotion).
func (pp *prProg) methodOf(t types.Type, pkg *types.Package, name string) *prFunc {
	obj, _, _ := types.LookupFieldOrMethod(t, true, pkg, name)
	fn, ok := obj.(*types.Func)
	if !ok {
		return nil
	}
	return pp.byObj[fn.Origin()]
}

// ensure builds the CFGs, parent map and node locations of f.
func (f *prFunc) ensure() {
	if f.fn != nil {
		return
	}
	f.fn = an.NewFn(f.pkg, f.decl)
	f.lits = map[*ast.FuncLit]*an.Fn{}
	f.parent = map[ast.Node]ast.Node{}
	var stack []ast.Node
	ast.Inspect(f.decl, func(n ast.Node) bool {
		if n == nil {
			stack = stack[:len(stack)-1]
			return true
		}
		if len(stack) > 0 {
			f.parent[n] = stack[len(stack)-1]
		}
		stack = append(stack, n)
		if fl, ok := n.(*ast.FuncLit); ok {
			f.lits[fl] = an.NewLit(f.pkg, f.decl.Name.Name+"$lit", fl)
		}
		return true
	})
	f.points = map[ast.Node]prLoc{}
	index := func(fn *an.Fn) {
		for _, b := range fn.G.Blocks {
			if !b.Live {
				continue
			}
			for i, n := range b.Nodes {
				loc := prLoc{fn, an.Point{B: b, I: i}}
				an.Inner(n, func(x ast.Node) bool {
					if _, seen := f.points[x]; !seen {
						f.points[x] = loc
					}
					return true
				})
			}
		}
	}
	index(f.fn)
	for _, l := range f.lits {
		index(l)
	}
}

// enclosingFn returns the CFG (declaration or literal) lexically containing n.
func (f *prFunc) enclosingFn(n ast.Node) *an.Fn {
	for p := f.parent[n]; p != nil; p = f.parent[p] {
		if fl, ok := p.(*ast.FuncLit); ok {
			return f.lits[fl]
		}
	}
	return f.fn
}

// callees computes the outgoing edges of f.
func (pp *prProg) callees(f *prFunc) []prEdge {
	if f.edged {
		return f.edges
	}
	f.edged = true
	info := f.pkg.TypesInfo
	calleeIdent := map[*ast.Ident]bool{}
	add := func(to *prFunc, at ast.Node, kind, via string) {
		if to != nil {
			f.edges = append(f.edges, prEdge{to, at, kind, via})
		}
	}
	ast.Inspect(f.decl.Body, func(n ast.Node) bool {
		switch x := n.(type) {
		case *ast.CallExpr:
			fun := an.Unparen(x.Fun)
			switch fx := fun.(type) {
			case *ast.Ident:
				calleeIdent[fx] = true
			case *ast.SelectorExpr:
				calleeIdent[fx.Sel] = true
			case *ast.IndexExpr:
				if id, ok := an.Unparen(fx.X).(*ast.Ident); ok {
					calleeIdent[id] = true
				}
			}
			if tv, ok := info.Types[x.Fun]; ok && tv.IsType() {
				return true // conversion
			}
			switch callee := typeutil.Callee(info, x).(type) {
			case *types.Builtin:
			case *types.Func:
				fnObj := callee.Origin()
				sig := fnObj.Type().(*types.Signature)
				if r := sig.Recv(); r != nil {
					if _, isI := r.Type().Underlying().(*types.Interface); isI {
						// dynamic dispatch: resolve on the static type of the receiver expression
						var st types.Type
						if se, ok := fun.(*ast.SelectorExpr); ok {
							st = info.TypeOf(se.X)
						}
						if st != nil {
							if _, isMod := pp.moduleInterface(st); isMod {
								for _, t := range pp.implementers(st) {
									add(pp.methodOf(t, fnObj.Pkg(), fnObj.Name()), x, "iface", types.TypeString(st, types.RelativeTo(f.pkg.Types)))
								}
								return true
							}
						}
						f.dyn = append(f.dyn, x)
						return true
					}
				}
				if to := pp.byObj[fnObj]; to != nil {
					add(to, x, "static", "")
					return true
				}
				if fnObj.Pkg() != nil && fnObj.Pkg().Path() == "encoding/json" && (fnObj.Name() == "Unmarshal" || fnObj.Name() == "Decode") {
					var target ast.Expr
					if fnObj.Name() == "Unmarshal" && len(x.Args) == 2 {
						target = x.Args[1]
					} else if fnObj.Name() == "Decode" && len(x.Args) == 1 {
						target = x.Args[0]
					}
					if target != nil {
						for _, m := range pp.jsonUnmarshalers(info.TypeOf(target)) {
							add(m.f, x, "json", m.via)
						}
					}
				}
			default:
				// call through a function value
				f.dyn = append(f.dyn, x)
			}
		case *ast.Ident:
			if calleeIdent[x] {
				return true
			}
			if fo, ok := info.Uses[x].(*types.Func); ok {
				if to := pp.byObj[fo.Origin()]; to != nil {
					add(to, x, "ref", "")
				}
			}
		}
		return true
	})
	return f.edges
}

type prJSONTarget struct {
	f   *prFunc
	via string
}

// jsonUnmarshalers lists the module UnmarshalJSON methods encoding/json may invoke when
// decoding into a value of static type t.
func (pp *prProg) jsonUnmarshalers(t types.Type) []prJSONTarget {
	var out []prJSONTarget
	seen := map[string]bool{}
	var walk func(t types.Type)
	walk = func(t types.Type) {
		if t == nil {
			return
		}
		t = types.Unalias(t)
		key := types.TypeString(t, nil)
		if seen[key] {
			return
		}
		seen[key] = true
		if p, ok := t.(*types.Pointer); ok {
			walk(p.Elem())
			return
		}
		if n, ok := t.(*types.Named); ok {
			if _, isI := n.Underlying().(*types.Interface); isI {
				if _, isMod := pp.moduleInterface(n); isMod {
					for _, impl := range pp.implementers(n) {
						if m := pp.methodOf(impl, n.Obj().Pkg(), "UnmarshalJSON"); m != nil {
							out = append(out, prJSONTarget{m, n.Obj().Name()})
						}
					}
				}
				return
			}
			if m := pp.methodOf(types.NewPointer(n), n.Obj().Pkg(), "UnmarshalJSON"); m != nil {
				out = append(out, prJSONTarget{m, n.Obj().Name()})
				return // a custom unmarshaler takes over the whole value
			}
		}
		switch u := t.Underlying().(type) {
		case *types.Struct:
			for i := 0; i < u.NumFields(); i++ {
				if u.Field(i).Exported() || u.Field(i).Embedded() {
					walk(u.Field(i).Type())
				}
			}
		case *types.Slice:
			walk(u.Elem())
		case *types.Array:
			walk(u.Elem())
		case *types.Map:
			walk(u.Elem())
		}
	}
	walk(t)
	return out
}

// prReach is the result of a reachability query.
type prReach struct {
	order []*prFunc
	from  map[*prFunc]prEdgeFrom
}

type prEdgeFrom struct {
	caller *prFunc
	e      prEdge
}

// reach computes the module functions reachable from entries. follow decides whether an
// edge is traversed (nil = all).
func (pp *prProg) reach(entries []*prFunc, follow func(from *prFunc, e prEdge) bool) *prReach {
	r := &prReach{from: map[*prFunc]prEdgeFrom{}}
	seen := map[*prFunc]bool{}
	var work []*prFunc
	for _, e := range entries {
		if e != nil && !seen[e] {
			seen[e] = true
			work = append(work, e)
			r.order = append(r.order, e)
		}
	}
	for len(work) > 0 {
		f := work[0]
		work = work[1:]
		for _, e := range pp.callees(f) {
			if follow != nil && !follow(f, e) {
				continue
			}
			if !seen[e.to] {
				seen[e.to] = true
				r.from[e.to] = prEdgeFrom{f, e}
				r.order = append(r.order, e.to)
				work = append(work, e.to)
			}
		}
	}
	return r
}

func (r *prReach) has(f *prFunc) bool {
	for _, x := range r.order {
		if x == f {
			return true
		}
	}
	return false
}

// path renders how f was reached.
func (r *prReach) path(f *prFunc) string {
	var parts []string
	for i := 0; f != nil && i < 12; i++ {
		parts = append([]string{f.Name()}, parts...)
		ef, ok := r.from[f]
		if !ok {
			break
		}
		f = ef.caller
	}
	return strings.Join(parts, " -> ")
}

// ---------------------------------------------------------------------------------------
// Sites

type prSite struct {
	f    *prFunc
	fn   *an.Fn
	p    an.Point
	n    ast.Node
	kind string // index | slice | assert | panic | div | make | conv
	live bool
}

func (s prSite) Expr() string {
	x := an.Str(s.n)
	if len(x) > 70 {
		x = x[:67] + "..."
	}
	return x
}

// Key is the obligation construct: function:expression (plus an ordinal when the same
// expression text occurs more than once in the function).
func (s prSite) key(ord int) string {
	k := s.f.Name() + ":" + s.Expr()
	if ord > 0 {
		k += fmt.Sprintf("#%d", ord+1)
	}
	return k
}

// sites enumerates the potential panic sites lexically inside f (function literals
// included). Sites in dead code are omitted.
func (pp *prProg) sites(f *prFunc) []prSite {
	f.ensure()
	info := f.pkg.TypesInfo
	var out []prSite
	emit := func(n ast.Node, kind string) {
		loc, ok := f.points[n]
		s := prSite{f: f, n: n, kind: kind, live: ok}
		if ok {
			s.fn, s.p = loc.fn, loc.p
		} else {
			// not part of any live CFG node: dead code, or a node kind the CFG does not carry
			if pp.inDeadCode(f, n) {
				return
			}
			s.fn = f.enclosingFn(n)
		}
		out = append(out, s)
	}
	ast.Inspect(f.decl.Body, func(n ast.Node) bool {
		switch x := n.(type) {
		case *ast.IndexExpr:
			tv, ok := info.Types[x.X]
			if !ok || tv.IsType() {
				return true
			}
			if _, isFn := tv.Type.Underlying().(*types.Signature); isFn {
				return true // generic instantiation
			}
			switch bt := derefArr(tv.Type).(type) {
			case *types.Map, *types.TypeParam:
				return true
			case *types.Array:
				if v, isC := an.ConstInt(info, x.Index); isC && v >= 0 && v < bt.Len() {
					return true // checked by the compiler
				}
			}
			emit(x, "index")
		case *ast.SliceExpr:
			if x.Low == nil && x.High == nil && x.Max == nil {
				return true // s[:] cannot fail (nil array pointers aside)
			}
			emit(x, "slice")
		case *ast.TypeAssertExpr:
			if x.Type == nil {
				return true // type switch
			}
			if prCommaOk(f, x) {
				return true
			}
			emit(x, "assert")
		case *ast.CallExpr:
			if id, ok := an.Unparen(x.Fun).(*ast.Ident); ok {
				if b, isB := info.Uses[id].(*types.Builtin); isB {
					switch b.Name() {
					case "panic":
						emit(x, "panic")
					case "make":
						for _, a := range x.Args[1:] {
							if _, isC := an.ConstInt(info, a); !isC {
								emit(x, "make")
								break
							}
						}
					}
					return true
				}
			}
			// slice -> array conversion
			if tv, ok := info.Types[x.Fun]; ok && tv.IsType() && len(x.Args) == 1 {
				if _, toArr := derefArr(tv.Type).(*types.Array); toArr {
					if _, fromSl := info.TypeOf(x.Args[0]).Underlying().(*types.Slice); fromSl {
						emit(x, "conv")
					}
				}
			}
		case *ast.BinaryExpr:
			if x.Op == token.QUO || x.Op == token.REM {
				if prIsInteger(info.TypeOf(x.Y)) {
					if _, isC := an.ConstInt(info, x.Y); !isC {
						emit(x, "div")
					}
				}
			}
		case *ast.AssignStmt:
			if (x.Tok == token.QUO_ASSIGN || x.Tok == token.REM_ASSIGN) && len(x.Rhs) == 1 && prIsInteger(info.TypeOf(x.Rhs[0])) {
				if _, isC := an.ConstInt(info, x.Rhs[0]); !isC {
					emit(x, "div")
				}
			}
		}
		return true
	})
	return out
}

// inDeadCode: n lies in a statement the CFG marks unreachable.
func (pp *prProg) inDeadCode(f *prFunc, n ast.Node) bool {
	fn := f.enclosingFn(n)
	for _, b := range fn.G.Blocks {
		if b.Live {
			continue
		}
		for _, bn := range b.Nodes {
			if bn.Pos() <= n.Pos() && n.End() <= bn.End() {
				return true
			}
		}
	}
	return false
}

func derefArr(t types.Type) types.Type {
	t = types.Unalias(t)
	if p, ok := t.Underlying().(*types.Pointer); ok {
		if a, ok := p.Elem().Underlying().(*types.Array); ok {
			return a
		}
	}
	return t.Underlying()
}

func prIsInteger(t types.Type) bool {
	if t == nil {
		return false
	}
	b, ok := t.Underlying().(*types.Basic)
	return ok && b.Info()&types.IsInteger != 0
}

func prIsUnsigned(t types.Type) bool {
	if t == nil {
		return false
	}
	b, ok := t.Underlying().(*types.Basic)
	return ok && b.Info()&types.IsUnsigned != 0
}

// prCommaOk: the assertion is used in the two-result form.
func prCommaOk(f *prFunc, x *ast.TypeAssertExpr) bool {
	f.ensure()
	var p ast.Node = x
	for {
		q := f.parent[p]
		if _, isParen := q.(*ast.ParenExpr); !isParen {
			p = q
			break
		}
		p = q
	}
	switch s := p.(type) {
	case *ast.AssignStmt:
		return len(s.Lhs) == 2 && len(s.Rhs) == 1
	case *ast.ValueSpec:
		return len(s.Names) == 2 && len(s.Values) == 1
	}
	return false
}

// alwaysPanics: no return and no fall-off end is reachable from the entry of f, and a
// builtin panic call is.
func (pp *prProg) alwaysPanics(f *prFunc) bool {
	f.ensure()
	exits := f.fn.ExitsReachable(f.fn.EntryPoint(), nil, nil)
	if len(exits) > 0 {
		return false
	}
	found := false
	info := f.pkg.TypesInfo
	ast.Inspect(f.decl.Body, func(n ast.Node) bool {
		if c, ok := n.(*ast.CallExpr); ok {
			if id, ok := an.Unparen(c.Fun).(*ast.Ident); ok {
				if b, isB := info.Uses[id].(*types.Builtin); isB && b.Name() == "panic" {
					found = true
				}
			}
		}
		return !found
	})
	return found
}

// panicParams: for a helper whose panic calls are all control-dependent only on its own
// parameters (uAssert, panicOnNil), returns true: the obligation moves to the call sites.
func (pp *prProg) paramGuardedPanic(f *prFunc) bool {
	f.ensure()
	info := f.pkg.TypesInfo
	params := map[types.Object]bool{}
	if f.decl.Type.Params != nil {
		for _, fl := range f.decl.Type.Params.List {
			for _, n := range fl.Names {
				params[info.Defs[n]] = true
			}
		}
	}
	if len(params) == 0 {
		return false
	}
	n := 0
	ok := true
	for _, s := range pp.sites(f) {
		if s.kind != "panic" {
			continue
		}
		n++
		if !s.live {
			ok = false
			continue
		}
		// every dominating condition mentions a parameter (or a range variable over one)
		conds := prDominatingConds(s.fn, s.p)
		if len(conds) == 0 {
			ok = false
		}
		for _, dc := range conds {
			mentions := false
			ast.Inspect(dc.cond, func(x ast.Node) bool {
				if id, isId := x.(*ast.Ident); isId {
					o := info.Uses[id]
					if params[o] {
						mentions = true
					}
					// range variable over a parameter
					if v, isV := o.(*types.Var); isV {
						for p := f.parent[ast.Node(dc.cond)]; p != nil; p = f.parent[p] {
							if rs, isR := p.(*ast.RangeStmt); isR {
								if vid, _ := rs.Value.(*ast.Ident); vid != nil && info.Defs[vid] == v {
									if xid, _ := an.Unparen(rs.X).(*ast.Ident); xid != nil && params[info.Uses[xid]] {
										mentions = true
									}
								}
							}
						}
					}
				}
				return true
			})
			if !mentions {
				ok = false
			}
		}
	}
	return n > 0 && ok
}

// prDomCond is an atomic boolean condition (no &&, ||, !) known to have the given outcome
// at a program point: either because every path from the entry to the point took the
// corresponding edge of the branch it belongs to (edge/at set), or because the point lies
// in a later operand of the same short-circuit expression (local).
type prDomCond struct {
	cond   ast.Expr
	onTrue bool
	edge   an.Edge
	at     an.Point
	local  bool
}

type prCondLit struct {
	cond ast.Expr
	pos  bool
}

// prConj returns the atomic conditions that all hold when cond evaluates to pos.
func prConj(cond ast.Expr, pos bool) []prCondLit {
	cond = an.Unparen(cond)
	switch x := cond.(type) {
	case *ast.UnaryExpr:
		if x.Op == token.NOT {
			return prConj(x.X, !pos)
		}
	case *ast.BinaryExpr:
		if (x.Op == token.LAND && pos) || (x.Op == token.LOR && !pos) {
			return append(prConj(x.X, pos), prConj(x.Y, pos)...)
		}
		if x.Op == token.LAND || x.Op == token.LOR {
			return nil // a disjunction: no single atom is known
		}
	}
	return []prCondLit{{cond, pos}}
}

// prDisj returns atomic alternatives one of which holds when cond evaluates to pos
// (nil if the knowledge is not a plain disjunction of atoms).
func prDisj(cond ast.Expr, pos bool) []prCondLit {
	cond = an.Unparen(cond)
	switch x := cond.(type) {
	case *ast.UnaryExpr:
		if x.Op == token.NOT {
			return prDisj(x.X, !pos)
		}
	case *ast.BinaryExpr:
		if (x.Op == token.LAND && !pos) || (x.Op == token.LOR && pos) {
			a, b := prDisj(x.X, pos), prDisj(x.Y, pos)
			if a == nil || b == nil {
				return nil
			}
			return append(a, b...)
		}
		if x.Op == token.LAND || x.Op == token.LOR {
			return nil
		}
	}
	return []prCondLit{{cond, pos}}
}

// prBranch is a two-way branch of the CFG on a boolean condition.
type prBranch struct {
	cond ast.Expr
	t, f an.Edge
	at   an.Point
}

func prBranches(fn *an.Fn) []prBranch {
	var out []prBranch
	for _, b := range fn.G.Blocks {
		if !b.Live {
			continue
		}
		t, f, ok := an.CondEdges(b)
		if !ok || b.Succs[0] == b.Succs[1] {
			continue
		}
		cond, _ := b.Nodes[len(b.Nodes)-1].(ast.Expr)
		if cond == nil {
			continue
		}
		if tv, ok := fn.Info.Types[cond]; !ok || !prIsBool(tv.Type) {
			continue
		}
		out = append(out, prBranch{cond, t, f, an.Point{B: b, I: len(b.Nodes) - 1}})
	}
	return out
}

// prDominatingConds lists the atomic conditions whose outcome is fixed on every path from
// the entry to p.
func prDominatingConds(fn *an.Fn, p an.Point) []prDomCond {
	var out []prDomCond
	for _, br := range prBranches(fn) {
		if br.at == p {
			continue
		}
		if fn.MustPass(p, nil, []an.Edge{br.t}) {
			for _, l := range prConj(br.cond, true) {
				out = append(out, prDomCond{l.cond, l.pos, br.t, br.at, false})
			}
		} else if fn.MustPass(p, nil, []an.Edge{br.f}) {
			for _, l := range prConj(br.cond, false) {
				out = append(out, prDomCond{l.cond, l.pos, br.f, br.at, false})
			}
		}
	}
	sort.SliceStable(out, func(i, j int) bool { return out[i].cond.Pos() < out[j].cond.Pos() })
	return out
}

// localConds: n lies in the right operand of && (left operand true) or || (left operand
// false) of an enclosing short-circuit expression.
func (f *prFunc) localConds(n ast.Node) []prDomCond {
	var out []prDomCond
	child := n
	for p := f.parent[n]; p != nil; child, p = p, f.parent[p] {
		switch x := p.(type) {
		case *ast.BinaryExpr:
			if (x.Op == token.LAND || x.Op == token.LOR) && child == ast.Node(x.Y) {
				for _, l := range prConj(x.X, x.Op == token.LAND) {
					out = append(out, prDomCond{cond: l.cond, onTrue: l.pos, local: true})
				}
			}
		case ast.Stmt, *ast.FuncLit:
			return out
		}
	}
	return out
}

// condsAt: dominating plus short-circuit-local atomic conditions for node n.
func (f *prFunc) condsAt(n ast.Node) []prDomCond {
	out := f.localConds(n)
	if loc, ok := f.points[n]; ok {
		out = append(out, prDominatingConds(loc.fn, loc.p)...)
	}
	return out
}

func prIsBool(t types.Type) bool {
	b, ok := t.Underlying().(*types.Basic)
	return ok && b.Info()&types.IsBoolean != 0
}

// ---------------------------------------------------------------------------------------
// Type-assertion sites

// dischargeAssert proves a single-value assertion x.(T) safe by one of:
//
//	(a) a dominating comma-ok assertion of the same operand to the same type whose ok
//	    outcome leads here;
//	(b) an enclosing single-type case clause of a type switch on the same operand;
//	(c) the registry rule: the operand came from ExtensionFromID(id) (possibly through a
//	    comma-ok assertion to an interface), the site is inside `switch id { case K: }`,
//	    and the case K of the callee's own switch returns &T{}.
func (pp *prProg) dischargeAssert(pv *prover, s prSite) (bool, string) {
	x := s.n.(*ast.TypeAssertExpr)
	info := pv.info
	want := info.TypeOf(x.Type)
	var opPaths []prPath
	opKey := pv.exprKey(x.X, &opPaths)
	// (a)
	if s.live {
		for _, dc := range prDominatingConds(s.fn, s.p) {
			c, neg := negated(dc.cond)
			id, ok := c.(*ast.Ident)
			if !ok || dc.onTrue == neg {
				continue
			}
			okVar, _ := objOf(info, id).(*types.Var)
			if okVar == nil {
				continue
			}
			def, _ := pv.singleDef(okVar).(*ast.AssignStmt)
			if def == nil || len(def.Lhs) != 2 || len(def.Rhs) != 1 {
				continue
			}
			ta, ok := an.Unparen(def.Rhs[0]).(*ast.TypeAssertExpr)
			if !ok || ta.Type == nil || !types.Identical(info.TypeOf(ta.Type), want) {
				continue
			}
			var p2 []prPath
			if pv.exprKey(ta.X, &p2) != opKey {
				continue
			}
			// the defining assertion is evaluated immediately before the test
			if loc, ok := pv.f.points[def]; !ok || loc.p.B != dc.at.B {
				continue
			}
			if !pv.stable(s.fn, dc.edge, dc.at, s.p, opPaths) {
				continue
			}
			return true, fmt.Sprintf("dominated by the comma-ok assertion `%s` succeeding", an.Str(def))
		}
	}
	// (b)
	var child ast.Node = x
	for p := pv.f.parent[x]; p != nil; child, p = p, pv.f.parent[p] {
		cc, ok := p.(*ast.CaseClause)
		if !ok {
			continue
		}
		_ = child
		body, _ := pv.f.parent[cc].(*ast.BlockStmt)
		ts, _ := pv.f.parent[body].(*ast.TypeSwitchStmt)
		if ts == nil || len(cc.List) != 1 {
			continue
		}
		if !types.Identical(info.TypeOf(cc.List[0]), want) {
			continue
		}
		var sw ast.Expr
		switch a := ts.Assign.(type) {
		case *ast.ExprStmt:
			sw = a.X
		case *ast.AssignStmt:
			sw = a.Rhs[0]
		}
		if ta, ok := an.Unparen(sw).(*ast.TypeAssertExpr); ok {
			var p2 []prPath
			if pv.exprKey(ta.X, &p2) == opKey {
				mod := false
				for _, pa := range opPaths {
					for _, m := range pv.muts[pa.root] {
						if pathAffects(m.key, pa.key) && cc.Pos() <= m.n.Pos() && m.n.End() <= cc.End() {
							mod = true
						}
					}
				}
				if !mod {
					return true, "inside the `case " + an.Str(cc.List[0]) + "` clause of a type switch on the same value"
				}
			}
		}
	}
	// (c)
	if ok, why := pp.registryAssert(pv, s, x, want); ok {
		return true, why
	}
	return false, "single-value type assertion without a dominating comma-ok test, type-switch case or registry case establishing the dynamic type"
}

// registryAssert implements rule (c) of dischargeAssert.
func (pp *prProg) registryAssert(pv *prover, s prSite, x *ast.TypeAssertExpr, want types.Type) (bool, string) {
	info := pv.info
	id, ok := an.Unparen(x.X).(*ast.Ident)
	if !ok {
		return false, ""
	}
	v, _ := objOf(info, id).(*types.Var)
	if v == nil {
		return false, ""
	}
	// follow v back through comma-ok interface assertions to a call
	var call *ast.CallExpr
	for hops := 0; hops < 3 && v != nil; hops++ {
		def, _ := pv.singleDef(v).(*ast.AssignStmt)
		if def == nil || len(def.Rhs) != 1 {
			return false, ""
		}
		rhs := an.Unparen(def.Rhs[0])
		if ta, isTA := rhs.(*ast.TypeAssertExpr); isTA && len(def.Lhs) == 2 {
			src, _ := an.Unparen(ta.X).(*ast.Ident)
			if src == nil {
				return false, ""
			}
			v, _ = objOf(info, src).(*types.Var)
			continue
		}
		if c, isCall := rhs.(*ast.CallExpr); isCall && len(def.Lhs) == 1 {
			call = c
		}
		break
	}
	if call == nil || len(call.Args) != 1 {
		return false, ""
	}
	callee, _ := an.Callee(info, call).(*types.Func)
	if callee == nil {
		return false, ""
	}
	reg := pp.byObj[callee.Origin()]
	if reg == nil {
		return false, ""
	}
	argID, _ := an.Unparen(call.Args[0]).(*ast.Ident)
	if argID == nil {
		return false, ""
	}
	argVar := objOf(info, argID)
	if argVar == nil || len(pv.varMuts(argVar)) > 1 {
		return false, ""
	}
	// the site is inside `switch argVar { case K: }`
	var caseConst constant.Value
	for p := pv.f.parent[ast.Node(x)]; p != nil; p = pv.f.parent[p] {
		cc, ok := p.(*ast.CaseClause)
		if !ok {
			continue
		}
		body, _ := pv.f.parent[cc].(*ast.BlockStmt)
		sw, _ := pv.f.parent[body].(*ast.SwitchStmt)
		if sw == nil || sw.Tag == nil || len(cc.List) != 1 {
			continue
		}
		tag, _ := an.Unparen(sw.Tag).(*ast.Ident)
		if tag == nil || objOf(info, tag) != argVar {
			continue
		}
		if tv, ok := info.Types[cc.List[0]]; ok && tv.Value != nil {
			caseConst = tv.Value
		}
		break
	}
	if caseConst == nil {
		return false, ""
	}
	// the registry: switch on its parameter, case with the same constant returns &T{}
	if reg.decl.Type.Params == nil || len(reg.decl.Type.Params.List) != 1 || len(reg.decl.Type.Params.List[0].Names) != 1 {
		return false, ""
	}
	rinfo := reg.pkg.TypesInfo
	param := rinfo.Defs[reg.decl.Type.Params.List[0].Names[0]]
	found := false
	var got types.Type
	for _, st := range reg.decl.Body.List {
		sw, ok := st.(*ast.SwitchStmt)
		if !ok || sw.Tag == nil {
			continue
		}
		tag, _ := an.Unparen(sw.Tag).(*ast.Ident)
		if tag == nil || rinfo.Uses[tag] != param {
			continue
		}
		for _, cst := range sw.Body.List {
			cc := cst.(*ast.CaseClause)
			for _, ce := range cc.List {
				tv, ok := rinfo.Types[ce]
				if !ok || tv.Value == nil || !constant.Compare(tv.Value, token.EQL, caseConst) {
					continue
				}
				// every return of this clause returns the same concrete type
				for _, bs := range cc.Body {
					rs, ok := bs.(*ast.ReturnStmt)
					if !ok || len(rs.Results) != 1 {
						continue
					}
					r := an.Unparen(rs.Results[0])
					for {
						c, isConv := r.(*ast.CallExpr)
						if !isConv || len(c.Args) != 1 {
							break
						}
						if tv, ok := rinfo.Types[c.Fun]; !ok || !tv.IsType() {
							break
						}
						r = an.Unparen(c.Args[0])
					}
					found = true
					got = rinfo.TypeOf(r)
				}
			}
		}
	}
	if found && got != nil && types.Identical(got, want) {
		return true, fmt.Sprintf("%s's case for this constant returns %s and the site is inside the matching case of a switch on the same id", reg.Name(), types.TypeString(got, types.RelativeTo(pv.f.pkg.Types)))
	}
	return false, ""
}

// ---------------------------------------------------------------------------------------
// Explicit panics: helper classification and call-site obligations

type prPanicKind struct {
	kind    string           // "" | always | param | switch
	param   int              // switch: index of the switched parameter
	allowed []constant.Value // switch: constants of the clauses that do not panic
}

// panicKind classifies f as a helper whose panic is decided by its caller.
func (pp *prProg) panicKind(f *prFunc) prPanicKind {
	f.ensure()
	info := f.pkg.TypesInfo
	var panics []prSite
	for _, s := range pp.sites(f) {
		if s.kind == "panic" {
			panics = append(panics, s)
		}
	}
	if len(panics) == 0 {
		return prPanicKind{}
	}
	if pp.alwaysPanics(f) {
		return prPanicKind{kind: "always"}
	}
	// switch on a parameter with a panicking clause
	var params []types.Object
	if f.decl.Type.Params != nil {
		for _, fl := range f.decl.Type.Params.List {
			for _, n := range fl.Names {
				params = append(params, info.Defs[n])
			}
		}
	}
	allSwitch := true
	var pk prPanicKind
	for _, s := range panics {
		var cc *ast.CaseClause
		var sw *ast.SwitchStmt
		for p := f.parent[s.n]; p != nil; p = f.parent[p] {
			if c, ok := p.(*ast.CaseClause); ok {
				if body, ok := f.parent[c].(*ast.BlockStmt); ok {
					if w, ok := f.parent[body].(*ast.SwitchStmt); ok && w.Tag != nil {
						cc, sw = c, w
						break
					}
				}
			}
		}
		if sw == nil {
			allSwitch = false
			break
		}
		tag, _ := an.Unparen(sw.Tag).(*ast.Ident)
		idx := -1
		if tag != nil {
			for i, p := range params {
				if info.Uses[tag] == p {
					idx = i
				}
			}
		}
		// the switch must be a top-level statement of the body and the parameter unmodified
		if idx < 0 || f.parent[sw] != ast.Node(f.decl.Body) {
			allSwitch = false
			break
		}
		pv := newProver(pp, f)
		if len(pv.varMuts(params[idx])) > 0 {
			allSwitch = false
			break
		}
		_ = cc
		var allowed []constant.Value
		for _, st := range sw.Body.List {
			c := st.(*ast.CaseClause)
			hasPanic := false
			for _, ps := range panics {
				if c.Pos() <= ps.n.Pos() && ps.n.End() <= c.End() {
					hasPanic = true
				}
			}
			if hasPanic {
				continue
			}
			for _, e := range c.List {
				if tv, ok := info.Types[e]; ok && tv.Value != nil {
					allowed = append(allowed, tv.Value)
				}
			}
		}
		pk = prPanicKind{kind: "switch", param: idx, allowed: allowed}
	}
	if allSwitch && pk.kind != "" {
		return pk
	}
	if pp.paramGuardedPanic(f) {
		return prPanicKind{kind: "param"}
	}
	return prPanicKind{}
}

// dischargeSwitchCall: the argument passed for the switched parameter is one of the
// allowed constants, either literally or because every path to the call passes a
// comparison establishing it (==, the false outcome of !=, or a matching case clause).
func (pp *prProg) dischargeSwitchCall(pv *prover, s prSite, call *ast.CallExpr, pk prPanicKind) (bool, string) {
	if pk.param >= len(call.Args) {
		return false, "argument not found"
	}
	arg := call.Args[pk.param]
	info := pv.info
	inSet := func(v constant.Value) bool {
		for _, a := range pk.allowed {
			if constant.Compare(constant.ToInt(a), token.EQL, constant.ToInt(v)) {
				return true
			}
		}
		return false
	}
	if tv, ok := info.Types[arg]; ok && tv.Value != nil {
		if inSet(tv.Value) {
			return true, "constant argument is one of the handled cases"
		}
		return false, "constant argument is not one of the handled cases"
	}
	var argPaths []prPath
	argKey := pv.exprKey(arg, &argPaths)
	if !s.live {
		return false, "call is not on the CFG"
	}
	var via []an.Edge
	type edgeAt struct {
		e  an.Edge
		at an.Point
	}
	var eas []edgeAt
	// member: the literal establishes arg == K for a handled K
	member := func(l prCondLit) bool {
		be, isBin := an.Unparen(l.cond).(*ast.BinaryExpr)
		if !isBin || (be.Op != token.EQL && be.Op != token.NEQ) || (be.Op == token.EQL) != l.pos {
			return false
		}
		var other ast.Expr
		var p2 []prPath
		if pv.exprKey(be.X, &p2) == argKey {
			other = be.Y
		} else if pv.exprKey(be.Y, &p2) == argKey {
			other = be.X
		} else {
			return false
		}
		tv, ok := info.Types[other]
		return ok && tv.Value != nil && inSet(tv.Value)
	}
	implies := func(cond ast.Expr, pos bool) bool {
		for _, l := range prConj(cond, pos) {
			if member(l) {
				return true
			}
		}
		alts := prDisj(cond, pos)
		if len(alts) == 0 {
			return false
		}
		for _, l := range alts {
			if !member(l) {
				return false
			}
		}
		return true
	}
	// switch arg { case K: … }: the matching outcome of a case value in the handled set
	for _, b := range s.fn.G.Blocks {
		if !b.Live {
			continue
		}
		t, _, ok := an.CondEdges(b)
		if !ok || b.Succs[0] == b.Succs[1] {
			continue
		}
		cv, _ := b.Nodes[len(b.Nodes)-1].(ast.Expr)
		cc, ok := pv.f.parent[cv].(*ast.CaseClause)
		if !ok {
			continue
		}
		body, ok := pv.f.parent[cc].(*ast.BlockStmt)
		if !ok {
			continue
		}
		sw, ok := pv.f.parent[body].(*ast.SwitchStmt)
		if !ok || sw.Tag == nil {
			continue
		}
		var p1 []prPath
		if pv.exprKey(sw.Tag, &p1) != argKey {
			continue
		}
		if tv, ok := info.Types[cv]; ok && tv.Value != nil && inSet(tv.Value) {
			via = append(via, t)
			eas = append(eas, edgeAt{t, an.Point{B: b, I: len(b.Nodes) - 1}})
		}
	}
	for _, br := range prBranches(s.fn) {
		if pv.inTaggedCase(br.cond) {
			continue
		}
		if implies(br.cond, true) {
			via = append(via, br.t)
			eas = append(eas, edgeAt{br.t, br.at})
		}
		if implies(br.cond, false) {
			via = append(via, br.f)
			eas = append(eas, edgeAt{br.f, br.at})
		}
	}
	if len(via) == 0 {
		return false, fmt.Sprintf("no comparison of %s with a handled constant precedes the call", an.Str(arg))
	}
	if !s.fn.MustPass(s.p, nil, via) {
		return false, fmt.Sprintf("the call is reachable without %s having been compared equal to a handled constant", an.Str(arg))
	}
	for _, ea := range eas {
		if !pv.stable(s.fn, ea.e, ea.at, s.p, argPaths) {
			return false, fmt.Sprintf("%s may be modified between the check and the call", an.Str(arg))
		}
	}
	return true, fmt.Sprintf("every path to the call passes a comparison establishing %s is one of the %d handled constants", an.Str(arg), len(pk.allowed))
}

// standaloneConstructed: the module builds a value of named type n on its own (composite
// literal, new, or a variable declared of that type), as opposed to only embedding it.
func (pp *prProg) standaloneConstructed(n *types.Named) bool {
	found := false
	for _, pkg := range pp.c.P.Pkgs {
		info := pkg.TypesInfo
		for _, file := range pkg.Syntax {
			ast.Inspect(file, func(x ast.Node) bool {
				if found {
					return false
				}
				switch e := x.(type) {
				case *ast.CompositeLit:
					if t := info.TypeOf(e); t != nil && types.Identical(types.Unalias(t), n) {
						found = true
					}
				case *ast.CallExpr:
					if id, ok := an.Unparen(e.Fun).(*ast.Ident); ok && len(e.Args) == 1 {
						if b, isB := info.Uses[id].(*types.Builtin); isB && b.Name() == "new" {
							if t := info.TypeOf(e.Args[0]); t != nil && types.Identical(types.Unalias(t), n) {
								found = true
							}
						}
					}
				case *ast.ValueSpec:
					if e.Type != nil {
						if t := info.TypeOf(e.Type); t != nil && types.Identical(types.Unalias(t), n) {
							found = true
						}
					}
				}
				return true
			})
		}
	}
	return found
}

// ---------------------------------------------------------------------------------------
// Verdicts

type prVerdict struct {
	s     prSite
	rule  string // bounds | assert | panic | alloc
	class string // ok | bad | delegated | unknown
	why   string
}

type prOptions struct {
	// scope: functions whose sites are judged; others are only counted as trusted base
	scope func(*prFunc) bool
	// delegate: a non-empty answer hands the site to another engine (counted, listed)
	delegate func(*prFunc, prSite) string
	// invariants: frozen length facts (checked to still be established)
	invariants []*prInvariant
	// siteFilter: within a function in scope, sites for which it answers false belong to
	// the trusted base (counted only)
	siteFilter func(*prFunc, ast.Node) bool
}

// judge evaluates every site of every reachable function in scope.
func (pp *prProg) judge(r *prReach, opt prOptions) (verdicts []prVerdict, outOfScope map[string]int) {
	outOfScope = map[string]int{}
	kinds := map[*prFunc]prPanicKind{}
	kindOf := func(f *prFunc) prPanicKind {
		if k, ok := kinds[f]; ok {
			return k
		}
		k := pp.panicKind(f)
		kinds[f] = k
		return k
	}
	for _, f := range r.order {
		sites := pp.sites(f)
		if opt.scope != nil && !opt.scope(f) {
			for _, s := range sites {
				outOfScope[s.kind]++
			}
			continue
		}
		pv := newProver(pp, f)
		pv.invariants = opt.invariants
		selfKind := kindOf(f)
		for _, s := range sites {
			if opt.siteFilter != nil && !opt.siteFilter(f, s.n) {
				outOfScope[s.kind]++
				continue
			}
			if opt.delegate != nil {
				if why := opt.delegate(f, s); why != "" {
					verdicts = append(verdicts, prVerdict{s, prRuleOf(s.kind), "delegated", why})
					continue
				}
			}
			v := prVerdict{s: s, rule: prRuleOf(s.kind)}
			switch s.kind {
			case "index", "slice", "div", "conv":
				ok, why := pv.discharge(s)
				v.class, v.why = prClass(ok), why
			case "make":
				ok, why := pv.discharge(s)
				if ok {
					ok2, why2 := pv.sizeBounded(s)
					ok, why = ok2, why2
				}
				v.class, v.why = prClass(ok), why
			case "assert":
				ok, why := pp.dischargeAssert(pv, s)
				v.class, v.why = prClass(ok), why
			case "panic":
				if selfKind.kind != "" {
					continue // decided at the call sites
				}
				v.class, v.why = "bad", "explicit panic reachable from the entry set ("+r.path(f)+") and not recognised as guarded by the caller"
			}
			verdicts = append(verdicts, v)
		}
		// call-site obligations for panicking helpers
		for _, e := range pp.callees(f) {
			if e.kind == "ref" || e.kind == "json" {
				continue
			}
			k := kindOf(e.to)
			if k.kind == "" {
				continue
			}
			call, _ := e.at.(*ast.CallExpr)
			if call == nil {
				continue
			}
			if opt.siteFilter != nil && !opt.siteFilter(f, call) {
				continue
			}
			loc, live := f.points[call]
			s := prSite{f: f, n: call, kind: "call", live: live}
			if live {
				s.fn, s.p = loc.fn, loc.p
			} else if pp.inDeadCode(f, call) {
				continue
			}
			v := prVerdict{s: s, rule: "panic"}
			switch k.kind {
			case "switch":
				ok, why := pp.dischargeSwitchCall(pv, s, call, k)
				v.class, v.why = prClass(ok), e.to.Name()+" panics on unhandled values: "+why
			case "always":
				recvT := pp.recvNamed(e.to)
				if e.kind == "iface" && recvT != nil && !pp.standaloneConstructed(recvT) {
					v.class, v.why = "ok", fmt.Sprintf("dynamic dispatch could reach %s (always panics), but %s is an abstract base that the module never constructs on its own; every embedding type overrides or the call is unreachable for it", e.to.Name(), recvT.Obj().Name())
					// embedding types that do not override the method inherit the panic
					for _, n := range pp.named {
						if n == recvT {
							continue
						}
						if m := pp.methodOf(types.NewPointer(n), e.to.obj.Pkg(), e.to.obj.Name()); m == e.to {
							if pp.implementsVia(n, e.via, f) {
								v.class, v.why = "bad", fmt.Sprintf("%s inherits %s, which always panics, and can be the dynamic type of this %s call", n.Obj().Name(), e.to.Name(), e.via)
							}
						}
					}
				} else {
					v.class, v.why = "bad", "call to "+e.to.Name()+", which panics on every path"
				}
			case "param":
				ok, why := pp.dischargeParamCall(pv, s, call, e.to)
				v.class, v.why = prClass(ok), why
			}
			verdicts = append(verdicts, v)
		}
	}
	return
}

func prClass(ok bool) string {
	if ok {
		return "ok"
	}
	return "bad"
}

func prRuleOf(kind string) string {
	switch kind {
	case "index", "slice", "div", "conv":
		return "bounds"
	case "make":
		return "alloc"
	case "assert":
		return "assert"
	}
	return "panic"
}

func (pp *prProg) recvNamed(f *prFunc) *types.Named {
	r := f.obj.Type().(*types.Signature).Recv()
	if r == nil {
		return nil
	}
	t := r.Type()
	if p, ok := t.(*types.Pointer); ok {
		t = p.Elem()
	}
	n, _ := types.Unalias(t).(*types.Named)
	return n
}

// implementsVia: named type n (or *n) satisfies the module interface named via in f's package scope.
func (pp *prProg) implementsVia(n *types.Named, via string, f *prFunc) bool {
	for _, pkg := range pp.c.P.Pkgs {
		if o := pkg.Types.Scope().Lookup(via); o != nil {
			if it, ok := o.Type().Underlying().(*types.Interface); ok {
				return types.Implements(n, it) || types.Implements(types.NewPointer(n), it)
			}
		}
	}
	return false
}

// dischargeParamCall handles helpers like uAssert(cond, msg) / panicOnNil(name, ptrs...):
// the asserted condition must be a conjunction of comparisons each of which is
// established by a dominating guard of the caller, or the nil-checked arguments must be
// address-of expressions / freshly allocated values.
func (pp *prProg) dischargeParamCall(pv *prover, s prSite, call *ast.CallExpr, callee *prFunc) (bool, string) {
	info := pv.info
	sig := callee.obj.Type().(*types.Signature)
	// boolean-condition helper
	if sig.Params().Len() >= 1 && prIsBool(sig.Params().At(0).Type()) && len(call.Args) >= 1 {
		cond := call.Args[0]
		if tv, ok := info.Types[cond]; ok && tv.Value != nil && constant.BoolVal(tv.Value) {
			return true, "asserted condition is the constant true"
		}
		if !s.live {
			return false, "assertion not on the CFG"
		}
		var conj []ast.Expr
		var split func(e ast.Expr)
		split = func(e ast.Expr) {
			e = an.Unparen(e)
			if be, ok := e.(*ast.BinaryExpr); ok && be.Op == token.LAND {
				split(be.X)
				split(be.Y)
				return
			}
			conj = append(conj, e)
		}
		split(cond)
		doms := pv.f.condsAt(call)
		for _, c := range conj {
			var p1 []prPath
			ck := pv.exprKey(c, &p1)
			proved := false
			for _, dc := range doms {
				dcond, neg := negated(dc.cond)
				var p2 []prPath
				dk := pv.exprKey(dcond, &p2)
				holds := dc.onTrue != neg
				st := dc.local || pv.stable(s.fn, dc.edge, dc.at, s.p, p1)
				if dk == ck && holds && st {
					proved = true
				}
				cc, cneg := negated(c)
				var p3 []prPath
				if cneg && pv.exprKey(cc, &p3) == dk && !holds && st {
					proved = true
				}
			}
			if !proved {
				return false, fmt.Sprintf("%s asserts `%s`, which no dominating guard of the caller establishes", callee.Name(), an.Str(c))
			}
		}
		return true, "every conjunct of the asserted condition is established by a dominating guard"
	}
	return false, fmt.Sprintf("call to %s, which panics depending on its arguments; argument shape not recognised", callee.Name())
}
