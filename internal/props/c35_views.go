package props

import (
	"fmt"
	"go/ast"
	"go/types"
	"sort"
	"strings"
	"unicode"

	"verif/internal/an"
	"verif/internal/load"
)

// ---------------------------------------------------------------- C35.2 wrappers and call sites

func c35Wrappers(c *Ctx) {
	r := c.R
	info := c.Info()
	// key source of every encryptTicket/decryptTicket call in the package
	n := 0
	for _, fd := range load.AllFuncDecls(c.P.TLS) {
		isCrypt := func(x ast.Node) bool {
			return an.IsCallTo(info, x, Mod, "Config", "encryptTicket") || an.IsCallTo(info, x, Mod, "Config", "decryptTicket")
		}
		if !an.Contains(fd.Body, isCrypt) {
			continue
		}
		fn := an.NewFn(c.P.TLS, fd)
		name := fd.Name.Name
		if rn := load.RecvName(fd); rn != "" {
			name = rn + "." + name
		}
		for _, h := range fn.FindNodes(isCrypt) {
			call := h.N.(*ast.CallExpr)
			callee := an.Callee(info, call).Name()
			cons := name + ":" + callee + ":keys"
			n++
			if len(call.Args) != 2 {
				r.Unknown("C35.2", cons, c.Pos(call), "unexpected argument count")
				continue
			}
			karg := an.Unparen(call.Args[1])
			switch {
			case an.FieldSel(info, karg, "Conn", "ticketKeys"):
				r.Ok("C35.2", cons, c.Pos(call), "keys are the connection's configured set (Conn.ticketKeys)")
			default:
				id, isId := karg.(*ast.Ident)
				var def ast.Expr
				if isId {
					def = singleDef(fn, id)
				}
				okSrc := def != nil && an.IsCallTo(info, an.Unparen(def), Mod, "Config", "ticketKeys")
				if okSrc {
					// same receiver as the crypt call
					d := an.Unparen(def).(*ast.CallExpr)
					okSrc = an.Str(d.Fun.(*ast.SelectorExpr).X) == an.Str(call.Fun.(*ast.SelectorExpr).X)
				}
				r.Check(okSrc, "C35.2", cons, c.Pos(call), "keys are the unmodified result of Config.ticketKeys on the same Config",
					"the key set passed to "+callee+" is not the unmodified configured set: "+an.Str(karg))
			}
		}
	}
	// Conn.ticketKeys is filled from Config.ticketKeys
	okFill := false
	for _, fd := range load.AllFuncDecls(c.P.TLS) {
		ast.Inspect(fd.Body, func(x ast.Node) bool {
			as, ok := x.(*ast.AssignStmt)
			if !ok || len(as.Lhs) != 1 || len(as.Rhs) != 1 {
				return true
			}
			if an.FieldSel(info, an.Unparen(as.Lhs[0]), "Conn", "ticketKeys") {
				if an.IsCallTo(info, an.Unparen(as.Rhs[0]), Mod, "Config", "ticketKeys") {
					okFill = true
				} else {
					r.Bad("C35.2", "Conn.ticketKeys:source", c.Pos(as), "Conn.ticketKeys is assigned from something other than Config.ticketKeys: %s", an.Str(as.Rhs[0]))
				}
			}
			return true
		})
	}
	r.Check(okFill, "C35.2", "Conn.ticketKeys:source", "", "Conn.ticketKeys is the result of Config.ticketKeys", "no assignment of Conn.ticketKeys from Config.ticketKeys found")

	// DecryptTicket: a state is returned only when decryptTicket gave bytes and parsing succeeded
	if fn := c.Fn("C35.2", "Config", "DecryptTicket"); fn != nil {
		const F = "DecryptTicket"
		dc := fn.FindNodes(an.CallTo(info, Mod, "Config", "decryptTicket"))
		ps := fn.FindNodes(an.CallTo(info, Mod, "", "ParseSessionState"))
		if len(dc) != 1 || len(ps) != 1 {
			r.Unknown("C35.2", F+":shape", c.Pos(fn.Decl), "expected one decryptTicket and one ParseSessionState call, found %d/%d", len(dc), len(ps))
		} else {
			bytesObj := assignedObj(info, dc[0].P.Node(), dc[0].N.(*ast.CallExpr), 0)
			pcall := ps[0].N.(*ast.CallExpr)
			r.Check(bytesObj != nil && len(pcall.Args) == 1 && identObj(info, pcall.Args[0]) == bytesObj && len(dc[0].N.(*ast.CallExpr).Args) == 2 &&
				identObj(info, dc[0].N.(*ast.CallExpr).Args[0]) == info.Defs[fn.Decl.Type.Params.List[0].Names[0]],
				"C35.2", F+":dataflow", c.Pos(pcall), "the caller's ticket is decrypted and exactly the decrypted bytes are parsed",
				"DecryptTicket does not parse exactly the bytes decryptTicket returned for the caller's ticket")
			errObj := assignedObj(info, ps[0].P.Node(), pcall, -1)
			stObj := assignedObj(info, ps[0].P.Node(), pcall, 0)
			var pass []an.Edge
			if errObj != nil {
				pass, _ = errEdgesAfter(fn, ps[0].P, errObj)
			}
			var nonNil []an.Edge
			if bytesObj != nil {
				_, nonNil = errEdgesAfter(fn, dc[0].P, bytesObj)
			}
			okAll, cnt := true, 0
			for _, p := range fn.Returns() {
				rs := p.Node().(*ast.ReturnStmt)
				if len(rs.Results) == 0 || an.IsNilIdent(info, rs.Results[0]) {
					continue
				}
				cnt++
				if identObj(info, rs.Results[0]) != stObj || !fn.MustPass(p, nil, pass) || !fn.MustPass(p, nil, nonNil) {
					okAll = false
				}
			}
			r.Check(okAll && cnt > 0, "C35.2", F+":state-only-on-success", c.Pos(pcall), "a state is returned only behind decrypted != nil and a nil parse error",
				"DecryptTicket can return a state although decryption or parsing failed")
		}
	}
	if fn := c.Fn("C35.2", "Config", "EncryptTicket"); fn != nil {
		const F = "EncryptTicket"
		bc := fn.FindNodes(an.CallTo(info, Mod, "SessionState", "Bytes"))
		ec := fn.FindNodes(an.CallTo(info, Mod, "Config", "encryptTicket"))
		if len(bc) != 1 || len(ec) != 1 {
			r.Unknown("C35.2", F+":shape", c.Pos(fn.Decl), "expected one Bytes and one encryptTicket call, found %d/%d", len(bc), len(ec))
		} else {
			bObj := assignedObj(info, bc[0].P.Node(), bc[0].N.(*ast.CallExpr), 0)
			eObj := assignedObj(info, bc[0].P.Node(), bc[0].N.(*ast.CallExpr), -1)
			ecall := ec[0].N.(*ast.CallExpr)
			var pass []an.Edge
			if eObj != nil {
				pass, _ = errEdgesAfter(fn, bc[0].P, eObj)
			}
			ssParam := info.Defs[fn.Decl.Type.Params.List[len(fn.Decl.Type.Params.List)-1].Names[0]]
			recvOK := identObj(info, bc[0].N.(*ast.CallExpr).Fun.(*ast.SelectorExpr).X) == ssParam
			r.Check(recvOK && bObj != nil && len(ecall.Args) == 2 && identObj(info, ecall.Args[0]) == bObj && fn.MustPass(ec[0].P, nil, pass),
				"C35.2", F+":dataflow", c.Pos(ecall), "the caller's state is serialised with Bytes, its error checked, and exactly those bytes are sealed",
				"EncryptTicket does not seal exactly the successfully serialised bytes of the caller's state")
		}
	}
	r.Count("ticket_crypt_call_sites", n)
	r.Floor("C35.2", 10)
}

// ---------------------------------------------------------------- C35.3 key derivation

func c35Keys(c *Ctx) {
	r := c.R
	info := c.Info()
	tls := c.P.TLS
	isDerive := an.CallTo(info, Mod, "Config", "ticketKeyFromBytes")
	// TicketKeyFromBytes
	if fn := c.Fn("C35.3", "", "TicketKeyFromBytes"); fn != nil {
		const F = "TicketKeyFromBytes"
		param := info.Defs[fn.Decl.Type.Params.List[0].Names[0]]
		calls := fn.FindNodes(isDerive)
		if len(calls) != 1 {
			r.Bad("C35.3", F+":derives", c.Pos(fn.Decl), "TicketKeyFromBytes does not derive its key with Config.ticketKeyFromBytes (%d calls): it can disagree with SetSessionTicketKeys", len(calls))
		} else {
			call := calls[0].N.(*ast.CallExpr)
			untouched := len(redefPoints(fn, param, an.Point{})) == 0 && !an.Contains(fn.Body, func(x ast.Node) bool {
				switch s := x.(type) {
				case *ast.AssignStmt:
					for _, l := range s.Lhs {
						if ie, ok := an.Unparen(l).(*ast.IndexExpr); ok && identObj(info, ie.X) == param {
							return true
						}
					}
				case *ast.IncDecStmt:
					if ie, ok := an.Unparen(s.X).(*ast.IndexExpr); ok && identObj(info, ie.X) == param {
						return true
					}
				}
				return false
			})
			r.Check(len(call.Args) == 1 && identObj(info, call.Args[0]) == param && untouched, "C35.3", F+":derives", c.Pos(call),
				"derives with Config.ticketKeyFromBytes from the unmodified argument", "the argument of ticketKeyFromBytes is not the caller's unmodified key")
			// the result is returned through ToPublic of that very value
			tk := assignedObj(info, calls[0].P.Node(), call, 0)
			okRet := false
			if tk != nil {
				// the derived key must reach ToPublic untouched: defined once, used once
				uses := 0
				ast.Inspect(fn.Body, func(x ast.Node) bool {
					if id, ok := x.(*ast.Ident); ok && objOf(info, id) == tk {
						uses++
					}
					return true
				})
				if uses != 2 {
					r.Bad("C35.3", F+":returns-derived", c.Pos(call), "the derived key is modified or used %d times between derivation and conversion: TicketKeyFromBytes can disagree with the keys SetSessionTicketKeys installs", uses-1)
				}
			}
			for _, p := range fn.Returns() {
				rs := p.Node().(*ast.ReturnStmt)
				if len(rs.Results) != 1 {
					continue
				}
				rc, ok := an.Unparen(rs.Results[0]).(*ast.CallExpr)
				if !ok || !an.IsCallTo(info, rc, Mod, "ticketKey", "ToPublic") {
					okRet = false
					break
				}
				x := an.Unparen(rc.Fun.(*ast.SelectorExpr).X)
				okRet = (tk != nil && identObj(info, x) == tk) || x == ast.Expr(call)
			}
			r.Check(okRet, "C35.3", F+":returns-derived", c.Pos(fn.Decl), "returns the public view of the derived key", "TicketKeyFromBytes does not return ToPublic() of the key it derived")
		}
	}
	// SetSessionTicketKeys
	if fn := c.Fn("C35.3", "Config", "SetSessionTicketKeys"); fn != nil {
		const F = "SetSessionTicketKeys"
		param := info.Defs[fn.Decl.Type.Params.List[0].Names[0]]
		ok, why := false, "no loop deriving one ticket key per input key found"
		var dst types.Object
		an.Inner(fn.Body, func(x ast.Node) bool {
			rs, isR := x.(*ast.RangeStmt)
			if !isR || identObj(info, rs.X) != param {
				return true
			}
			k, _ := rs.Key.(*ast.Ident)
			v, _ := rs.Value.(*ast.Ident)
			for _, st := range rs.Body.List {
				as, isAs := st.(*ast.AssignStmt)
				if !isAs || len(as.Lhs) != 1 || len(as.Rhs) != 1 {
					continue
				}
				call, isCall := an.Unparen(as.Rhs[0]).(*ast.CallExpr)
				if !isCall || !isDerive(call) || len(call.Args) != 1 {
					continue
				}
				argOK := (v != nil && identObj(info, call.Args[0]) == info.Defs[v])
				if ie, isIx := an.Unparen(call.Args[0]).(*ast.IndexExpr); isIx && k != nil && identObj(info, ie.X) == param && identObj(info, ie.Index) == info.Defs[k] {
					argOK = true
				}
				switch l := an.Unparen(as.Lhs[0]).(type) {
				case *ast.IndexExpr:
					dst = identObj(info, l.X)
					idxOK := k != nil && identObj(info, l.Index) == info.Defs[k]
					ok = argOK && idxOK
					if !argOK {
						why = "the key derived in the loop is not derived from the loop's own element of keys"
					} else if !idxOK {
						why = "derived keys are not stored at the index of their input key: the order of keys (first = sealing key) is not preserved"
					}
				case *ast.Ident:
					// newKeys = append(newKeys, derive(k))
					dst = identObj(info, l)
					ok = false
					why = "unrecognised store of the derived key"
				}
				if ac, isApp := an.Unparen(as.Rhs[0]).(*ast.CallExpr); isApp && an.Str(ac.Fun) == "append" {
					_ = ac
				}
			}
			return true
		})
		// append form: newKeys = append(newKeys, c.ticketKeyFromBytes(v)) inside range keys
		if !ok {
			an.Inner(fn.Body, func(x ast.Node) bool {
				rs, isR := x.(*ast.RangeStmt)
				if !isR || identObj(info, rs.X) != param {
					return true
				}
				v, _ := rs.Value.(*ast.Ident)
				for _, st := range rs.Body.List {
					as, isAs := st.(*ast.AssignStmt)
					if !isAs || len(as.Lhs) != 1 || len(as.Rhs) != 1 {
						continue
					}
					ac, isCall := an.Unparen(as.Rhs[0]).(*ast.CallExpr)
					if !isCall || an.Str(ac.Fun) != "append" || len(ac.Args) != 2 {
						continue
					}
					dc, isD := an.Unparen(ac.Args[1]).(*ast.CallExpr)
					if isD && isDerive(dc) && len(dc.Args) == 1 && v != nil && identObj(info, dc.Args[0]) == info.Defs[v] && identObj(info, ac.Args[0]) == identObj(info, as.Lhs[0]) {
						ok, dst = true, identObj(info, as.Lhs[0])
					}
				}
				return true
			})
		}
		r.Check(ok, "C35.3", F+":derives-each-in-order", c.Pos(fn.Decl), "key i of the installed set is ticketKeyFromBytes(keys[i])", why)
		// installed into sessionTicketKeys
		inst := false
		an.Inner(fn.Body, func(x ast.Node) bool {
			as, isAs := x.(*ast.AssignStmt)
			if isAs && len(as.Lhs) == 1 && len(as.Rhs) == 1 && an.FieldSel(info, an.Unparen(as.Lhs[0]), "Config", "sessionTicketKeys") {
				rhs := an.Unparen(as.Rhs[0])
				for i := 0; i < 3; i++ { // follow plain copies (newKeys := fresh)
					id, isId := rhs.(*ast.Ident)
					if !isId || identObj(info, id) == dst {
						break
					}
					d := singleDef(fn, id)
					if d == nil {
						break
					}
					rhs = an.Unparen(d)
				}
				inst = dst != nil && identObj(info, rhs) == dst
			}
			return true
		})
		r.Check(inst, "C35.3", F+":installs", c.Pos(fn.Decl), "the derived set is installed as Config.sessionTicketKeys", "the derived keys are not what is installed as Config.sessionTicketKeys")
	}
	// legacy path
	if fn := c.Fn("C35.3", "Config", "initLegacySessionTicketKeyRLocked"); fn != nil {
		okL := false
		for _, h := range fn.FindNodes(isDerive) {
			call := h.N.(*ast.CallExpr)
			if len(call.Args) == 1 && an.FieldSel(info, an.Unparen(call.Args[0]), "Config", "SessionTicketKey") {
				okL = true
			}
		}
		r.Check(okL, "C35.3", "initLegacySessionTicketKeyRLocked:derives", c.Pos(fn.Decl), "the legacy SessionTicketKey is expanded with ticketKeyFromBytes", "the legacy SessionTicketKey is not expanded with Config.ticketKeyFromBytes")
	}
	// ticketKeyFromBytes: key material depends only on the argument
	if fn := c.Fn("C35.3", "Config", "ticketKeyFromBytes"); fn != nil {
		const F = "ticketKeyFromBytes"
		param := info.Defs[fn.Decl.Type.Params.List[0].Names[0]]
		var res types.Object
		if rl := fn.Decl.Type.Results; rl != nil && len(rl.List) == 1 && len(rl.List[0].Names) == 1 {
			res = info.Defs[rl.List[0].Names[0]]
		}
		// tainted locals: derived from param
		taint := map[types.Object]bool{param: true}
		for i := 0; i < 3; i++ {
			ast.Inspect(fn.Body, func(x ast.Node) bool {
				as, ok := x.(*ast.AssignStmt)
				if !ok {
					return true
				}
				for j, l := range as.Lhs {
					if j < len(as.Rhs) || len(as.Rhs) == 1 {
						rhs := as.Rhs[0]
						if j < len(as.Rhs) {
							rhs = as.Rhs[j]
						}
						for o := range taint {
							if an.MentionsObj(info, rhs, o) {
								if lo := identObj(info, l); lo != nil {
									taint[lo] = true
								}
							}
						}
					}
				}
				return true
			})
		}
		fields := map[string]bool{}
		okSrc := true
		var bad ast.Node
		for _, h := range fn.FindNodes(func(x ast.Node) bool {
			call, ok := x.(*ast.CallExpr)
			if !ok || len(call.Args) != 2 {
				return false
			}
			id, ok := call.Fun.(*ast.Ident)
			return ok && id.Name == "copy"
		}) {
			call := h.N.(*ast.CallExpr)
			f := c35KeyField(info, call.Args[0])
			if f == "" {
				continue
			}
			fields[f] = true
			src := false
			for o := range taint {
				if o != res && an.MentionsObj(info, call.Args[1], o) {
					src = true
				}
			}
			if !src {
				okSrc, bad = false, call
			}
		}
		pos := c.Pos(fn.Decl)
		if bad != nil {
			pos = c.Pos(bad)
		}
		r.Check(okSrc && fields["aesKey"] && fields["hmacKey"], "C35.3", F+":deterministic", pos, "aesKey and hmacKey are copied from a value computed from the argument only",
			"aesKey/hmacKey are not both filled from a value derived from the argument: equal inputs need not give equal keys")
		// both key fields must not take the same bytes (distinct offsets)
	}
	// views
	for _, pr := range [][2]string{{"ticketKey", "ToPublic"}, {"TicketKey", "ToPrivate"}} {
		fd := load.FuncDecl(tls, pr[0], pr[1])
		cons := pr[0] + "." + pr[1]
		if fd == nil {
			r.Unknown("C35.3", cons, "", "converter not found")
			continue
		}
		fm := extractFieldMap(tls, fd)
		if fm == nil {
			r.Unknown("C35.3", cons, c.Pos(fd), "no field map extracted")
			continue
		}
		var ds []string
		for d := range fm.m {
			ds = append(ds, d)
		}
		sort.Strings(ds)
		for _, d := range ds {
			srcs := fm.m[d]
			ok := len(srcs) == 1 && lowerFirst(srcs[0]) == lowerFirst(d)
			r.Check(ok, "C35.3", cons+":"+d, c.P.Pos(fm.dstPos[d]), d+" <- "+strings.Join(srcs, ","), fmt.Sprintf("%s sets %s from %v: the public and private key views disagree on which bytes are the AES key and which the HMAC key", cons, d, srcs))
		}
		if len(ds) < 3 {
			r.Bad("C35.3", cons+":complete", c.Pos(fd), "only %d of 3 key fields are converted", len(ds))
		}
	}
	// slice views keep order and use the element converter
	for _, pr := range [][3]string{{"ticketKeys", "ToPublic", "ticketKey"}, {"TicketKeys", "ToPrivate", "TicketKey"}} {
		fd := load.FuncDecl(tls, pr[0], pr[1])
		cons := pr[0] + "." + pr[1]
		if fd == nil {
			r.Unknown("C35.3", cons, "", "converter not found")
			continue
		}
		recv := info.Defs[fd.Recv.List[0].Names[0]]
		ok := false
		ast.Inspect(fd.Body, func(x ast.Node) bool {
			rs, isR := x.(*ast.RangeStmt)
			if !isR || identObj(info, rs.X) != recv {
				return true
			}
			v, _ := rs.Value.(*ast.Ident)
			ast.Inspect(rs.Body, func(y ast.Node) bool {
				ac, isC := y.(*ast.CallExpr)
				if !isC || an.Str(ac.Fun) != "append" || len(ac.Args) != 2 {
					return true
				}
				ec, isE := an.Unparen(ac.Args[1]).(*ast.CallExpr)
				if isE && an.IsCallTo(info, ec, Mod, pr[2], pr[1]) && v != nil && identObj(info, ec.Fun.(*ast.SelectorExpr).X) == info.Defs[v] {
					ok = true
				}
				return true
			})
			return true
		})
		r.Check(ok, "C35.3", cons, c.Pos(fd), "appends the element conversion of each key in order", cons+" does not append "+pr[2]+"."+pr[1]+"() of each element in order")
	}
	r.Floor("C35.3", 14)
}

func lowerFirst(s string) string {
	if s == "" {
		return s
	}
	rs := []rune(s)
	rs[0] = unicode.ToLower(rs[0])
	return string(rs)
}

// ---------------------------------------------------------------- C35.4 ClientSessionState views

// c35SessionFieldOf returns the SessionState field selected through ClientSessionState.session in e.
func c35SessionFieldOf(info *types.Info, e ast.Expr) string {
	se, ok := an.Unparen(e).(*ast.SelectorExpr)
	if !ok {
		return ""
	}
	sel := info.Selections[se]
	if sel == nil || sel.Kind() != types.FieldVal || an.TypeName(sel.Recv()) != "SessionState" {
		return ""
	}
	if !an.FieldSel(info, an.Unparen(se.X), "ClientSessionState", "session") {
		return ""
	}
	return se.Sel.Name
}

func c35ClientSessionState(c *Ctx) {
	r := c.R
	info := c.Info()
	tls := c.P.TLS
	getters := map[string]string{} // name -> field
	setters := map[string]string{}
	pos := map[string]string{}
	for _, fd := range load.AllFuncDecls(tls) {
		if load.RecvName(fd) != "ClientSessionState" || !strings.HasSuffix(c.P.Fset.Position(fd.Pos()).Filename, "u_public.go") {
			continue
		}
		name := fd.Name.Name
		np := 0
		if fd.Type.Params != nil {
			for _, p := range fd.Type.Params.List {
				np += len(p.Names)
			}
		}
		switch {
		case strings.HasPrefix(name, "Set") && np == 1:
			param := info.Defs[fd.Type.Params.List[0].Names[0]]
			field, n := "", 0
			ast.Inspect(fd.Body, func(x ast.Node) bool {
				as, ok := x.(*ast.AssignStmt)
				if !ok || len(as.Lhs) != 1 || len(as.Rhs) != 1 {
					return true
				}
				if f := c35SessionFieldOf(info, as.Lhs[0]); f != "" {
					n++
					if identObj(info, as.Rhs[0]) == param {
						field = f
					} else {
						field = "?" + f
					}
				}
				return true
			})
			if n != 1 {
				r.Unknown("C35.4", "ClientSessionState."+name, c.Pos(fd), "setter assigns %d session fields", n)
				continue
			}
			setters[name[3:]] = field
			pos["Set"+name[3:]] = c.Pos(fd)
		case np == 0 && fd.Type.Results != nil && len(fd.Type.Results.List) == 1:
			field := ""
			ast.Inspect(fd.Body, func(x ast.Node) bool {
				if rs, ok := x.(*ast.ReturnStmt); ok && len(rs.Results) == 1 {
					field = c35SessionFieldOf(info, rs.Results[0])
				}
				return true
			})
			if field != "" {
				getters[name] = field
				pos[name] = c.Pos(fd)
			}
		}
	}
	// constructor
	ctor := map[string]string{} // param name -> field
	ctorPos := ""
	if fd := load.FuncDecl(tls, "", "MakeClientSessionState"); fd == nil {
		r.Unknown("C35.4", "MakeClientSessionState", "", "not found")
	} else {
		ctorPos = c.Pos(fd)
		params := map[types.Object]string{}
		for _, p := range fd.Type.Params.List {
			for _, nme := range p.Names {
				params[info.Defs[nme]] = nme.Name
			}
		}
		ast.Inspect(fd.Body, func(x ast.Node) bool {
			cl, ok := x.(*ast.CompositeLit)
			if !ok || an.TypeName(info.TypeOf(cl)) != "SessionState" {
				return true
			}
			for _, el := range cl.Elts {
				kv, ok := el.(*ast.KeyValueExpr)
				if !ok {
					continue
				}
				if pn, isP := params[identObj(info, kv.Value)]; isP {
					ctor[pn] = kv.Key.(*ast.Ident).Name
				}
			}
			return true
		})
		for _, pn := range params {
			if _, ok := ctor[pn]; !ok {
				r.Bad("C35.4", "MakeClientSessionState:"+pn, ctorPos, "parameter %s is not stored in the session", pn)
			}
		}
	}
	// agreement: name -> field must be the same in every view that has the name
	names := map[string]bool{}
	for k := range getters {
		names[k] = true
	}
	for k := range setters {
		names[k] = true
	}
	for k := range ctor {
		names[k] = true
	}
	var ns []string
	for k := range names {
		ns = append(ns, k)
	}
	sort.Strings(ns)
	for _, nme := range ns {
		views := []string{}
		fields := map[string]bool{}
		add := func(view, f string) {
			if f != "" {
				views = append(views, view+"->"+f)
				fields[f] = true
			}
		}
		add("getter", getters[nme])
		add("setter", setters[nme])
		add("MakeClientSessionState", ctor[nme])
		p := pos[nme]
		if p == "" {
			p = pos["Set"+nme]
		}
		if p == "" {
			p = ctorPos
		}
		cons := "ClientSessionState:" + nme
		switch {
		case len(fields) > 1:
			r.Bad("C35.4", cons, p, "the views of %q disagree on the SessionState field: %s — a forged ClientSessionState does not carry the supplied value", nme, strings.Join(views, ", "))
		case len(views) == 1:
			// single view: fall back to the like-named rule
			f := ""
			for k := range fields {
				f = k
			}
			r.Check(strings.EqualFold(f, nme), "C35.4", cons, p, views[0]+" (like-named field)", fmt.Sprintf("%s is the only view of %q and stores it in the differently named field %s", views[0], nme, f))
		default:
			r.Ok("C35.4", cons, p, "%s", strings.Join(views, ", "))
		}
	}
	// no two names share a field
	byField := map[string][]string{}
	for _, m := range []map[string]string{getters, setters, ctor} {
		for nme, f := range m {
			if !contains(byField[f], nme) {
				byField[f] = append(byField[f], nme)
			}
		}
	}
	for f, l := range byField {
		if len(l) > 1 {
			sort.Strings(l)
			r.Bad("C35.4", "ClientSessionState:field:"+f, ctorPos, "SessionState.%s is the target of several different names: %v", f, l)
		}
	}
	r.Floor("C35.4", 10)
}

// ---------------------------------------------------------------- C35.5 TLS 1.2 resumption

func c35Resume12(c *Ctx) {
	r := c.R
	info := c.Info()
	fn := c.Fn("C35.5", "clientHandshakeState", "processServerHello")
	if fn == nil {
		return
	}
	const F = "processServerHello"
	// the resumed exit: return true, nil
	var resumed []an.Point
	for _, p := range fn.Returns() {
		rs := p.Node().(*ast.ReturnStmt)
		if len(rs.Results) == 2 && an.Str(rs.Results[0]) == "true" && an.IsNilIdent(info, rs.Results[1]) {
			resumed = append(resumed, p)
		}
	}
	if len(resumed) == 0 {
		r.Unknown("C35.5", F+":resumed-exit", c.Pos(fn.Decl), "no `return true, nil` found")
		return
	}
	check := func(field, otherOwner, otherField, what string) {
		isS := func(e ast.Expr) bool { return an.FieldSel(info, an.Unparen(e), "SessionState", field) }
		isO := func(e ast.Expr) bool { return an.FieldSel(info, an.Unparen(e), otherOwner, otherField) }
		eq := edgesForcing(fn, func(a ast.Expr, v bool) bool {
			op, ok := an.BinaryWith(an.Unparen(a), isS, isO)
			if !ok {
				return false
			}
			return (op.String() == "==" && v) || (op.String() == "!=" && !v)
		})
		ok := len(eq) > 0
		for _, p := range resumed {
			if !fn.MustPass(p, nil, eq) {
				ok = false
			}
		}
		r.Check(ok, "C35.5", F+":"+field, c.Pos(fn.Decl), "resumption completes only when the cached "+what+" equals the negotiated one",
			"a TLS 1.2 session can be resumed although the cached "+what+" differs from the negotiated one (no equality check of SessionState."+field+" with "+otherOwner+"."+otherField+" guards the resumed exit)")
	}
	check("version", "Conn", "vers", "version")
	check("cipherSuite", "cipherSuite", "id", "cipher suite")
	// master secret
	ms := fn.FindNodes(func(x ast.Node) bool {
		as, ok := x.(*ast.AssignStmt)
		return ok && len(as.Lhs) == 1 && an.FieldSel(info, an.Unparen(as.Lhs[0]), "clientHandshakeState", "masterSecret")
	})
	ok := len(ms) > 0
	for _, h := range ms {
		as := h.N.(*ast.AssignStmt)
		if len(as.Rhs) != 1 || !an.FieldSel(info, an.Unparen(as.Rhs[0]), "SessionState", "secret") {
			ok = false
		}
	}
	for _, p := range resumed {
		var pts []an.Point
		for _, h := range ms {
			pts = append(pts, h.P)
		}
		if !fn.MustPass(p, pts, nil) {
			ok = false
		}
	}
	r.Check(ok, "C35.5", F+":masterSecret", c.Pos(fn.Decl), "the resumed handshake's master secret is the cached SessionState.secret",
		"the resumed exit is reachable without hs.masterSecret having been set from SessionState.secret")
	r.Floor("C35.5", 3)
}
