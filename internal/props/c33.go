package props

import (
	"fmt"
	"go/ast"
	"go/token"
	"go/types"
	"os"
	"sort"
	"strings"

	"verif/internal/an"
)

func init() { register(&Prop{ID: "C33", Run: runC33}) }

// C33: hostile server input never crashes a uTLS client (uTLS-specific client paths).
func runC33(c *Ctx) {
	r := c.R
	r.Technique = "panic-site engine (E6) on the uTLS-specific client paths: named entry functions, the uTLS regions of upstream client functions (statements guarded by a *UConn != nil test) and their uTLS-layer callees; index/slice/assertion/make/explicit-panic sites discharged by dominating CFG guards and a linear bounds prover, one frozen length invariant with its establishing read re-checked; CFG rules for utlsHandshakeMessageType, the cryptobyte-only unmarshalers and every client-side consumer of readHandshake"
	r.Explanation = "C33.1 the named uTLS client paths resolve (decompressCert, utlsReadServerCertificate, utlsReadServerParameters, utlsHandshakeMessageType, the two unmarshal hooks, UConn.clientHandshake/handleRenegotiation/handlePostHandshakeMessage, the uconn-guarded regions such as the HelloRetryRequest section). " +
		"C33.2 every index/slice/division there is proved in range from guards that dominate it (serverHelloMsg.random has length 32 by its unmarshaler). " +
		"C33.3 every message taken from readHandshake on a client path is narrowed only by comma-ok assertions or type switches, and single-value assertions in scope are preceded by a test fixing the dynamic type. " +
		"C33.4 no explicit panic (builtin panic, always-panicking method, assertion helper) is reachable in scope without a dominating check. " +
		"C33.5 every make() in scope is sized by data already held or by a peer-controlled value that a dominating comparison bounds below 2^24. " +
		"C33.6 utlsHandshakeMessageType returns a message or a definite error on every path and its caller tests the error before using the message. " +
		"C33.7 utlsCompressedCertificateMsg.unmarshal and encryptedExtensionsMsg.utlsUnmarshal never index their input; every cryptobyte read is tested."
	r.NotDecided = "hangs and deadline behaviour; allocation inside the decompressors; panics inside the standard library; the upstream-derived parts of the client handshake outside uconn-guarded regions (site counts reported as trusted base; this includes uTLS insertions that are marked only by comments, e.g. the Kyber branch of establishHandshakeKeys); ClientHello (re)building reached from these paths (delegated to the encoder properties C01/C02/C08), the session controller's assertions (C19/C20) and the public/private converters (C31)"
	r.Assumptions = append(r.Assumptions, "Conn.sendAlert(a) returns a non-nil error for every alert other than close_notify (upstream contract)",
		"values reachable through struct fields are not changed by calls made between a guard and the guarded use")
	pp := newPrProg(c)

	// ---- C33.1 entries
	var entries []*prFunc
	for _, e := range [][2]string{
		{"clientHandshakeStateTLS13", "decompressCert"}, {"clientHandshakeStateTLS13", "utlsReadServerCertificate"},
		{"clientHandshakeStateTLS13", "utlsReadServerParameters"}, {"Conn", "utlsHandshakeMessageType"},
		{"utlsCompressedCertificateMsg", "unmarshal"}, {"encryptedExtensionsMsg", "utlsUnmarshal"},
		{"UConn", "clientHandshake"}, {"UConn", "handleRenegotiation"}, {"UConn", "handlePostHandshakeMessage"},
		{"clientHandshakeStateTLS13", "serverFinishedReceived"},
	} {
		f := pp.lookup("", e[0], e[1])
		if f == nil {
			r.Unknown("C33.1", "entry:"+e[0]+"."+e[1], "", "anchor function not found")
			continue
		}
		entries = append(entries, f)
		r.Ok("C33.1", "entry:"+e[0]+"."+e[1], c.Pos(f.decl), "anchor resolved")
	}
	// upstream client functions containing uconn-guarded regions
	regions := map[*prFunc][]*ast.IfStmt{}
	for _, f := range pp.funcs {
		if f.pkg.PkgPath != Mod || prUTLSLayer(f) {
			continue
		}
		if rs := uconnRegions(f); len(rs) > 0 {
			regions[f] = rs
			entries = append(entries, f)
			r.Ok("C33.1", fmt.Sprintf("region:%s(%d)", f.Name(), len(rs)), c.Pos(rs[0]), "uTLS region(s) guarded by a *UConn != nil test")
		}
	}
	hrr := pp.lookup("", "clientHandshakeStateTLS13", "processHelloRetryRequest")
	r.Check(hrr != nil && len(regions[hrr]) > 0, "C33.1", "region:HelloRetryRequest", "", "the uTLS HelloRetryRequest section is among the analysed regions", "the uTLS section of processHelloRetryRequest was not found")
	r.Floor("C33.1", 15)

	// ---- scope
	builders := helloBuilders(pp)
	isEntry := map[*prFunc]bool{}
	for _, e := range entries {
		isEntry[e] = true
	}
	delegated := map[string]map[string]bool{}
	note := func(cat string, f *prFunc) {
		if delegated[cat] == nil {
			delegated[cat] = map[string]bool{}
		}
		delegated[cat][f.Name()] = true
	}
	inRegion := func(f *prFunc, n ast.Node) bool {
		rs, up := regions[f]
		if !up {
			return true
		}
		for _, ifs := range rs {
			if ifs.Body.Pos() <= n.Pos() && n.End() <= ifs.Body.End() {
				return true
			}
		}
		return false
	}
	reach := pp.reach(entries, func(from *prFunc, e prEdge) bool {
		if !prUTLSLayer(e.to) && !(e.to.pkg.PkgPath != Mod && e.to.file[:2] == "u_") {
			return false // upstream: trusted base
		}
		if !inRegion(from, e.at) {
			return false // call made by the upstream part of the function
		}
		if isEntry[e.to] {
			return true
		}
		switch {
		case builders[e.to]:
			note("ClientHello building (C01/C02/C08)", e.to)
			return false
		case an.TypeName(recvType(e.to)) == "sessionController":
			note("session controller assertions (C19/C20)", e.to)
			return false
		case e.to.file == "u_public.go":
			note("public/private converters (C31)", e.to)
			return false
		}
		return true
	})
	var scoped []string
	for _, f := range reach.order {
		scoped = append(scoped, f.Name())
	}
	sort.Strings(scoped)
	r.Extra["functions_in_scope"] = scoped
	for cat, fs := range delegated {
		var l []string
		for n := range fs {
			l = append(l, n)
		}
		sort.Strings(l)
		r.Extra["delegated: "+cat] = l
	}
	r.Count("functions_in_scope", len(reach.order))

	// ---- frozen invariant: serverHelloMsg.random has 32 bytes after unmarshal succeeded
	inv := &prInvariant{Owner: "serverHelloMsg", Field: "random", Len: 32,
		Reason: "serverHelloMsg.unmarshal fails unless ReadBytes(&m.random, 32) succeeds, and client paths only see a *serverHelloMsg produced by readHandshake"}
	inv.holds = establishedByReadBytes(c, pp, inv)

	// ---- C33.2/3/4/5 sites
	verdicts, base := pp.judge(reach, prOptions{invariants: []*prInvariant{inv}, siteFilter: inRegion})
	prReport(c, "C33", map[string]string{"bounds": "C33.2", "assert": "C33.3", "panic": "C33.4", "alloc": "C33.5"}, verdicts)
	if inv.used > 0 {
		r.Check(inv.holds, "C33.2", "invariant:serverHelloMsg.random=32", "", "establishing read found: "+inv.Reason, "the read that fixes the length of serverHelloMsg.random at 32 bytes is gone")
	}
	for k, v := range base {
		r.Count("trusted_base_sites_"+k, v)
	}
	r.Floor("C33.2", 6) // 10 on the pinned tree; removing an indexing site is not a violation
	r.Floor("C33.5", 1)

	// ---- C33.3 consumers on client paths
	serverRoot := pp.lookup("", "Conn", "serverHandshake")
	server := map[*prFunc]bool{}
	if serverRoot != nil {
		for _, f := range pp.reach([]*prFunc{serverRoot}, nil).order {
			server[f] = true
		}
	}
	n := prConsumers(c, pp, "C33.3", func(f *prFunc) bool { return f.pkg.PkgPath == Mod && !server[f] })
	r.Count("client_consumers", n)
	r.Floor("C33.3", 18)

	// ---- C33.4 floor: the HRR section's calls and utlsReadServerCertificate have no panicking callee; positive evidence
	nDyn := 0
	for _, f := range reach.order {
		nDyn += len(f.dyn)
	}
	r.Count("dynamic_calls_not_followed", nDyn)
	badIn := map[*prFunc]bool{}
	for _, v := range verdicts {
		if v.rule == "panic" && v.class == "bad" {
			badIn[v.s.f] = true
		}
	}
	for _, f := range reach.order {
		if !badIn[f] {
			r.Ok("C33.4", "panic-free:"+f.Name(), c.Pos(f.decl), "no reachable builtin panic, always-panicking callee or undischarged assertion helper in the analysed part of this function")
		}
	}
	r.Floor("C33.4", 18)

	// ---- C33.6 / C33.7
	prMsgTypeTotal(c, pp, "C33.6", "C33.6")
	r.Floor("C33.6", 8)
	prCryptobyteOnly(c, pp, "C33.7", "utlsCompressedCertificateMsg", "unmarshal")
	prCryptobyteOnly(c, pp, "C33.7", "encryptedExtensionsMsg", "utlsUnmarshal")
	r.Floor("C33.7", 6)

	// ---- C33.8 peer-triggered re-entry of the session controller
	c33Reentry(c, pp)
	r.Floor("C33.8", 2)

	if os.Getenv("VERIF_PR_DUMP") != "" {
		for _, f := range reach.order {
			fmt.Printf("REACH %s (%s) via %s dyn=%d\n", f.Name(), f.file, reach.path(f), len(f.dyn))
		}
	}
}

// c33Reentry interprets the session controller's typestate along the real handshake
// driver (UConn.handshakeContext) and then along the handshake the *peer* can trigger on
// the same connection (UConn.handleRenegotiation, reached from Read on a HelloRequest),
// once for HelloGolang and once for every other ClientHelloID. A panic forced by the
// controller's state during the re-entry is a crash a server can cause at will.
func c33Reentry(c *Ctx, pp *prProg) {
	r := c.R
	e, init, why := newTsEngine(pp)
	if e == nil {
		r.Unknown("C33.8", "reentry:setup", "", "%s", why)
		return
	}
	first := pp.lookup("", "UConn", "handshakeContext")
	again := pp.lookup("", "UConn", "handleRenegotiation")
	if first == nil || again == nil {
		r.Unknown("C33.8", "reentry:anchors", "", "UConn.handshakeContext or UConn.handleRenegotiation not found")
		return
	}
	// the re-entry must really reach the handshake function again
	if !pp.reach([]*prFunc{again}, nil).has(pp.lookup("", "UConn", "clientHandshake")) {
		r.Unknown("C33.8", "reentry:shape", c.Pos(again.decl), "handleRenegotiation does not reach UConn.clientHandshake")
		return
	}
	for _, golang := range []bool{false, true} {
		vars := map[*types.Var]reVal{}
		for k, v := range init {
			vars[k] = v
		}
		vars[e.golang] = reBool(golang)
		e.phase = fmt.Sprintf("first handshake (HelloGolang=%v)", golang)
		exits := e.run(first, vars, false, nil)
		phase2 := fmt.Sprintf("renegotiation (HelloGolang=%v)", golang)
		states := 0
		seen := map[string]bool{}
		for _, ex := range exits {
			if ex.ret.k == reNonNil || ex.taint {
				continue // the first handshake definitely failed, or the state was guessed
			}
			k := e.varsKey(ex.vars, false)
			if k == e.varsKey(vars, false) {
				continue // nothing happened (the "handshake already complete" fast path)
			}
			if seen[k] {
				continue
			}
			seen[k] = true
			states++
			if os.Getenv("VERIF_PR_DUMP") != "" {
				fmt.Println("TS-EXIT", golang, k, "ret=", ex.ret)
			}
			e.phase = phase2
			e.run(again, ex.vars, false, nil)
		}
		n := 0
		var keys []string
		for k := range e.panics {
			keys = append(keys, k)
		}
		sort.Strings(keys)
		reported := map[string]bool{}
		for _, k := range keys {
			p := e.panics[k]
			if p.Phase != phase2 {
				continue
			}
			n++
			key := fmt.Sprintf("reentry:HelloGolang=%v:%s:%s", golang, p.Func, prClip(p.What, 60))
			if reported[key] {
				continue
			}
			reported[key] = true
			r.Bad("C33.8", key, p.Pos, "a second handshake started by the peer (HelloRequest -> %s) reaches this panic with the session controller in state [%s], which is the state the first handshake leaves behind; call chain: %s", again.Name(), strings.TrimSpace(p.State), p.Path)
		}
		if states == 0 {
			r.Unknown("C33.8", fmt.Sprintf("reentry:HelloGolang=%v", golang), c.Pos(first.decl), "no exit state of the first handshake could be computed")
		} else if n == 0 {
			r.Ok("C33.8", fmt.Sprintf("reentry:HelloGolang=%v", golang), c.Pos(again.decl), "%d controller state(s) after a first handshake; re-entering through %s forces no assertion or panic", states, again.Name())
		}
	}
	if e.exhausted {
		r.Unknown("C33.8", "reentry:budget", "", "interpreter budget exhausted")
	}
	var firstPanics []string
	for _, p := range e.panics {
		if strings.HasPrefix(p.Phase, "first") {
			firstPanics = append(firstPanics, fmt.Sprintf("%s [%s] %s | state %s | %s", p.Func, p.Pos, p.What, strings.TrimSpace(p.State), p.Phase))
		}
	}
	sort.Strings(firstPanics)
	r.Extra["controller_panics_reachable_in_first_handshake(informational, C19/C20)"] = firstPanics
	r.Count("reentry_functions_interpreted", len(e.funcsSeen))
	r.Count("reentry_interpreter_steps", e.steps)
	if os.Getenv("VERIF_PR_DUMP") != "" {
		for k, v := range e.perFunc {
			if v > 500 {
				fmt.Println("TS-STEPS", k, v)
			}
		}
	}
}

func recvType(f *prFunc) types.Type {
	if r := f.obj.Type().(*types.Signature).Recv(); r != nil {
		return r.Type()
	}
	return types.Typ[types.Invalid]
}

// uconnRegions returns the if statements of f whose condition has, as a conjunct, a
// comparison `x != nil` where x has type *UConn: the shape every uTLS insertion in the
// upstream handshake functions uses to stay inert for plain crypto/tls connections.
func uconnRegions(f *prFunc) []*ast.IfStmt {
	info := f.pkg.TypesInfo
	var out []*ast.IfStmt
	ast.Inspect(f.decl.Body, func(n ast.Node) bool {
		ifs, ok := n.(*ast.IfStmt)
		if !ok {
			return true
		}
		for _, l := range prConj(ifs.Cond, true) {
			be, isBin := an.Unparen(l.cond).(*ast.BinaryExpr)
			if !isBin || !l.pos || be.Op != token.NEQ {
				continue
			}
			var x ast.Expr
			if an.IsNilIdent(info, be.Y) {
				x = be.X
			} else if an.IsNilIdent(info, be.X) {
				x = be.Y
			}
			if x == nil {
				continue
			}
			if p, isPtr := info.TypeOf(x).(*types.Pointer); isPtr && an.TypeName(p.Elem()) == "UConn" {
				out = append(out, ifs)
				return false // nested regions are part of this one
			}
		}
		return true
	})
	return out
}

// helloBuilders: functions from which a dynamic dispatch on a TLSExtension method
// (Len/Read/writeToUConn) is reachable — the ClientHello (re)building layer.
func helloBuilders(pp *prProg) map[*prFunc]bool {
	can := map[*prFunc]bool{}
	for _, f := range pp.funcs {
		for _, e := range pp.callees(f) {
			if e.kind == "iface" {
				switch e.to.decl.Name.Name {
				case "Len", "Read", "writeToUConn":
					if implementsNamed(pp, e.to, "TLSExtension") {
						can[f] = true
					}
				}
			}
		}
	}
	for changed := true; changed; {
		changed = false
		for _, f := range pp.funcs {
			if can[f] {
				continue
			}
			for _, e := range pp.callees(f) {
				if (e.kind == "static" || e.kind == "iface") && can[e.to] {
					can[f] = true
					changed = true
					break
				}
			}
		}
	}
	// the extension methods themselves
	if o := pp.c.P.TLS.Types.Scope().Lookup("TLSExtension"); o != nil {
		for _, t := range pp.implementers(o.Type()) {
			for _, mn := range []string{"Len", "Read", "writeToUConn"} {
				if m := pp.methodOf(t, pp.c.P.TLS.Types, mn); m != nil {
					can[m] = true
				}
			}
		}
	}
	return can
}

func implementsNamed(pp *prProg, m *prFunc, iface string) bool {
	o := pp.c.P.TLS.Types.Scope().Lookup(iface)
	if o == nil {
		return false
	}
	it, ok := o.Type().Underlying().(*types.Interface)
	if !ok {
		return false
	}
	rt := recvType(m)
	return types.Implements(rt, it) || types.Implements(types.NewPointer(rt), it)
}

// establishedByReadBytes: Owner.unmarshal contains a call String.ReadBytes(&m.Field, Len)
// inside a branch condition whose failing outcome returns false.
func establishedByReadBytes(c *Ctx, pp *prProg, inv *prInvariant) bool {
	f := pp.lookup("", inv.Owner, "unmarshal")
	if f == nil {
		return false
	}
	f.ensure()
	info := f.pkg.TypesInfo
	found := false
	ast.Inspect(f.decl.Body, func(n ast.Node) bool {
		call, ok := n.(*ast.CallExpr)
		if !ok || len(call.Args) != 2 || found {
			return !found
		}
		fn, _ := an.Callee(info, call).(*types.Func)
		if fn == nil || fn.Name() != "ReadBytes" {
			return true
		}
		u, isAddr := an.Unparen(call.Args[0]).(*ast.UnaryExpr)
		if !isAddr || u.Op != token.AND || !an.FieldSel(info, an.Unparen(u.X), inv.Owner, inv.Field) {
			return true
		}
		if v, isC := an.ConstInt(info, call.Args[1]); !isC || v != inv.Len {
			return true
		}
		loc, live := f.points[call]
		if !live {
			return true
		}
		for _, br := range prBranches(loc.fn) {
			if br.at != loc.p {
				continue
			}
			for _, pol := range []bool{true, false} {
				implied := false
				for _, l := range prConj(br.cond, pol) {
					if an.Unparen(l.cond) == ast.Expr(call) && l.pos {
						implied = true
					}
				}
				if implied {
					// the other outcome must leave with `return false`
					other := br.f
					if !pol {
						other = br.t
					}
					if ok, _ := failEdgeExits(loc.fn, other, nil); ok {
						found = true
					}
				}
			}
		}
		return true
	})
	return found
}
