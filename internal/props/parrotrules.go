package props

import (
	"fmt"
	"go/constant"
	"go/types"
	"sort"
	"strings"
)

// constOf looks up an integer constant (or constant-initialised variable) of package tls.
func constOf(c *Ctx, name string) (int64, bool) {
	o := c.P.TLS.Types.Scope().Lookup(name)
	if k, ok := o.(*types.Const); ok {
		v, exact := constant.Int64Val(constant.ToInt(k.Val()))
		return v, exact
	}
	return 0, false
}

func isGreaseVal(v int64) bool {
	return v&0x0f0f == 0x0a0a && (v>>8)&0xff == v&0xff
}

type keyShareLit struct {
	Group   int64
	HasData bool
	DataLen int
}

// parrotView extracts the constant facts the table rules need.
type parrotView struct {
	p         *parrot
	min, max  int64 // as declared (0 = unset)
	hasSV     bool
	sv        []int64 // supported_versions (GREASE removed)
	svRaw     []int64
	curves    []int64
	hasCurves bool
	shares    []keyShareLit
	hasKS     bool
	problems  []string
}

func viewOf(p *parrot) *parrotView {
	v := &parrotView{p: p}
	if f := p.Spec.Field("TLSVersMin"); f != nil && f.Kind == "int" {
		v.min = f.Int
	}
	if f := p.Spec.Field("TLSVersMax"); f != nil && f.Kind == "int" {
		v.max = f.Int
	}
	for _, e := range p.find("SupportedVersionsExtension") {
		v.hasSV = true
		l, ok := e.Field("Versions").Ints()
		if !ok {
			v.problems = append(v.problems, "supported_versions list is not constant")
		}
		v.svRaw = append(v.svRaw, l...)
		for _, x := range l {
			if !isGreaseVal(x) {
				v.sv = append(v.sv, x)
			}
		}
	}
	for _, e := range p.find("SupportedCurvesExtension") {
		v.hasCurves = true
		l, ok := e.Field("Curves").Ints()
		if !ok {
			v.problems = append(v.problems, "supported_groups list is not constant")
		}
		v.curves = append(v.curves, l...)
	}
	for _, e := range p.find("KeyShareExtension") {
		v.hasKS = true
		ks := e.Field("KeyShares")
		if ks == nil {
			continue
		}
		if ks.Kind != "list" {
			v.problems = append(v.problems, "key_share list is not a literal")
			continue
		}
		for _, s := range ks.Elems {
			g := s.Field("Group")
			if g == nil || g.Kind != "int" {
				v.problems = append(v.problems, "key share group is not constant")
				continue
			}
			k := keyShareLit{Group: g.Int}
			if d := s.Field("Data"); d != nil && d.Kind == "list" {
				k.HasData = true
				k.DataLen = len(d.Elems)
			} else if d != nil && d.Kind != "nil" {
				k.HasData = true
				k.DataLen = -1
			}
			v.shares = append(v.shares, k)
		}
	}
	return v
}

// effective version range as SetTLSVers computes it (see c13 rule C13.1 for the part of
// SetTLSVers this models; the model itself is checked against the source by C13.4).
func (v *parrotView) effRange() (int64, int64) {
	min, max := v.min, v.max
	if min == 0 && max == 0 {
		if v.hasSV && len(v.sv) > 0 {
			min, max = v.sv[0], v.sv[0]
			for _, x := range v.sv {
				if x < min {
					min = x
				}
				if x > max {
					max = x
				}
			}
		} else {
			min, max = 0x0301, 0x0303
		}
	}
	return min, max
}

func (v *parrotView) tls13() bool {
	_, max := v.effRange()
	return max >= 0x0304
}

func hexList(l []int64) string {
	var s []string
	for _, x := range l {
		s = append(s, fmt.Sprintf("0x%04x", x))
	}
	return "{" + strings.Join(s, ",") + "}"
}

// ---- C13.1 -----------------------------------------------------------------

func parrotVersionRule(c *Ctx, rule string, ps []*parrot) {
	r := c.R
	for _, p := range ps {
		cons := "parrot:" + p.Name
		pos := c.P.Pos(p.Pos)
		if p.Err != "" {
			r.Unknown(rule, cons, pos, "%s", p.Err)
			continue
		}
		v := viewOf(p)
		if len(v.problems) > 0 {
			r.Unknown(rule, cons, pos, "%s", strings.Join(v.problems, "; "))
			continue
		}
		min, max := v.effRange()
		var accepted, advertised []int64
		for _, x := range []int64{0x0301, 0x0302, 0x0303, 0x0304} {
			if x >= min && x <= max {
				accepted = append(accepted, x)
			}
		}
		if v.hasSV {
			advertised = append(advertised, v.sv...)
		} else {
			top := max
			if top > 0x0303 {
				top = 0x0303
			}
			for _, x := range []int64{0x0301, 0x0302, 0x0303} {
				if x >= min && x <= top {
					advertised = append(advertised, x)
				}
			}
		}
		adv := map[int64]bool{}
		for _, x := range advertised {
			adv[x] = true
		}
		var extra []int64
		for _, x := range accepted {
			if !adv[x] {
				extra = append(extra, x)
			}
		}
		sort.Slice(advertised, func(i, j int) bool { return advertised[i] < advertised[j] })
		if len(extra) == 0 {
			r.Ok(rule, cons, pos, "accepts %s ⊆ advertises %s", hexList(accepted), hexList(advertised))
		} else {
			r.Bad(rule, cons, pos, "the client would complete a handshake at %s, which its ClientHello does not advertise (spec range [0x%04x,0x%04x], advertised %s)", hexList(extra), min, max, hexList(advertised))
		}
	}
}

// ---- C02.1 / C19.3 ----------------------------------------------------------

func parrotShapeRule(c *Ctx, rule string, ps []*parrot, extIDs map[string][]int64, pskTypes map[string]bool) {
	r := c.R
	for _, p := range ps {
		cons := "parrot:" + p.Name
		pos := c.P.Pos(p.Pos)
		if p.Err != "" {
			r.Unknown(rule, cons, pos, "%s", p.Err)
			continue
		}
		var probs []string
		seen := map[string]int{}
		grease, padding := 0, 0
		for i, e := range p.Exts {
			t := extType(e)
			if t == "" || !e.Ptr && e.Kind == "struct" {
				// value (non-pointer) literals are fine for value-receiver types; nothing to do
			}
			switch t {
			case "UtlsGREASEExtension":
				grease++
				continue
			case "UtlsPaddingExtension":
				padding++
			}
			key := t
			if ids := extIDs[t]; len(ids) == 1 {
				key = fmt.Sprintf("id %d", ids[0])
			} else if t == "GenericExtension" {
				if id := e.Field("Id"); id != nil && id.Kind == "int" {
					key = fmt.Sprintf("id %d", id.Int)
				}
			} else if t == "FakeChannelIDExtension" {
				old := e.Field("OldExtensionID")
				key = fmt.Sprintf("channel_id(old=%v)", old != nil && old.Bool)
			}
			seen[key]++
			if seen[key] == 2 {
				probs = append(probs, fmt.Sprintf("extension %s (%s) appears twice", t, key))
			}
			if pskTypes[t] && i != len(p.Exts)-1 {
				probs = append(probs, fmt.Sprintf("pre_shared_key (%s) is at position %d of %d, it must be last", t, i+1, len(p.Exts)))
			}
		}
		if grease > 2 {
			probs = append(probs, fmt.Sprintf("%d GREASE extensions (ApplyPreset supports at most 2)", grease))
		}
		if padding > 1 {
			probs = append(probs, "more than one padding extension")
		}
		// wire limits of literal lists
		for _, e := range p.find("ALPNExtension") {
			if l := e.Field("AlpnProtocols"); l != nil && l.Kind == "list" {
				for _, s := range l.Elems {
					if s.Kind == "string" && (len(s.Str) == 0 || len(s.Str) > 255) {
						probs = append(probs, "ALPN protocol name length out of range 1..255")
					}
				}
			}
		}
		for _, e := range p.find("SupportedPointsExtension") {
			if l, ok := e.Field("SupportedPoints").Ints(); ok && len(l) > 255 {
				probs = append(probs, "too many point formats")
			}
		}
		if cs, ok := p.Spec.Field("CipherSuites").Ints(); !ok || len(cs) == 0 {
			probs = append(probs, "cipher suite list is empty or not constant")
		}
		if cm, ok := p.Spec.Field("CompressionMethods").Ints(); !ok || len(cm) == 0 {
			probs = append(probs, "compression method list is empty or not constant")
		}
		if len(probs) == 0 {
			r.Ok(rule, cons, pos, "%d extensions: no repeated type, ≤2 GREASE, ≤1 padding, pre_shared_key last, literal lists within wire limits", len(p.Exts))
		} else {
			r.Bad(rule, cons, pos, "%s", strings.Join(probs, "; "))
		}
	}
}

// ---- C18.2 ------------------------------------------------------------------

type groupFacts struct {
	classical map[int64]string
	hybrid    map[int64]string
}

func loadGroupFacts(c *Ctx) groupFacts {
	g := groupFacts{classical: map[int64]string{}, hybrid: map[int64]string{}}
	for _, n := range []string{"X25519", "CurveP256", "CurveP384", "CurveP521"} {
		if v, ok := constOf(c, n); ok {
			g.classical[v] = n
		}
	}
	for _, n := range []string{"X25519MLKEM768", "X25519Kyber768Draft00"} {
		if v, ok := constOf(c, n); ok {
			g.hybrid[v] = n
		}
	}
	return g
}

func parrotKeyShareRule(c *Ctx, ruleShape, ruleRetain string, ps []*parrot, retainsOnlyFirst bool) {
	r := c.R
	gf := loadGroupFacts(c)
	x25519, _ := constOf(c, "X25519")
	for _, p := range ps {
		cons := "parrot:" + p.Name
		pos := c.P.Pos(p.Pos)
		if p.Err != "" {
			r.Unknown(ruleShape, cons, pos, "%s", p.Err)
			continue
		}
		v := viewOf(p)
		if len(v.problems) > 0 {
			r.Unknown(ruleShape, cons, pos, "%s", strings.Join(v.problems, "; "))
			continue
		}
		if !v.tls13() {
			if v.hasKS {
				r.Ok(ruleShape, cons, pos, "TLS 1.2 parrot carrying key shares")
			} else {
				r.Ok(ruleShape, cons, pos, "TLS 1.2 parrot: no key shares required")
			}
			continue
		}
		var probs []string
		if !v.hasKS {
			probs = append(probs, "TLS 1.3 is offered without a key_share extension")
		}
		curveSet := map[int64]bool{}
		greaseCurve := false
		for _, x := range v.curves {
			curveSet[x] = true
			if isGreaseVal(x) {
				greaseCurve = true
			}
		}
		classical, hybrid := 0, 0
		firstClassical := int64(-1)
		for _, s := range v.shares {
			switch {
			case isGreaseVal(s.Group):
				if !greaseCurve {
					probs = append(probs, "GREASE key share without a GREASE entry in supported_groups")
				}
				if !s.HasData {
					probs = append(probs, "GREASE key share has no literal data (an empty key_exchange is malformed)")
				}
				continue
			case !curveSet[s.Group]:
				probs = append(probs, fmt.Sprintf("key share group 0x%04x is not listed in supported_groups", s.Group))
			}
			if s.HasData && s.DataLen != 1 {
				continue // user-supplied key material: nothing for ApplyPreset to generate
			}
			switch {
			case gf.classical[s.Group] != "":
				classical++
				if firstClassical < 0 {
					firstClassical = s.Group
				}
			case gf.hybrid[s.Group] != "":
				hybrid++
			default:
				probs = append(probs, fmt.Sprintf("key share group 0x%04x has no key data and ApplyPreset cannot generate a key for it", s.Group))
			}
		}
		if v.hasKS && classical == 0 {
			probs = append(probs, "no classical (EC)DHE share: the TLS 1.3 handshake aborts because keyShareKeys.ecdhe is nil")
		}
		if hybrid > 0 && firstClassical >= 0 && firstClassical != x25519 {
			probs = append(probs, fmt.Sprintf("hybrid share offered but the first classical share is %s: establishHandshakeKeys first combines the hybrid's X25519 part with that key and aborts", gf.classical[firstClassical]))
		}
		if len(probs) == 0 {
			r.Ok(ruleShape, cons, pos, "%d classical + %d hybrid generated shares, all listed in supported_groups", classical, hybrid)
		} else {
			r.Bad(ruleShape, cons, pos, "%s", strings.Join(probs, "; "))
		}
		// retention
		if classical > 1 && retainsOnlyFirst {
			r.Bad(ruleRetain, cons, pos, "%d classical key shares are published but ApplyPreset retains the private key of the first one only: if the server selects one of the others the derived secret cannot match", classical)
		} else {
			r.Ok(ruleRetain, cons, pos, "%d classical share(s): every published share has a retained private key", classical)
		}
	}
}
