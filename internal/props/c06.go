package props

import (
	"go/ast"
	"go/token"
	"go/types"

	"verif/internal/an"
	"verif/internal/load"
)

func init() { register(&Prop{ID: "C06", Run: runC06}) }

// decoders that deliberately ignore the body (documented normalisations of C08's statement)
var grammarIgnoringDecoders = map[string]string{
	"RenegotiationInfoExtension": "renegotiation-info bodies are ignored on import",
	"UtlsPreSharedKeyExtension":  "real-PSK bodies are ignored on import",
	"SessionTicketExtension":     "session-ticket contents are dropped",
	"UtlsGREASEExtension":        "body copied wholesale, value replaced by the placeholder",
	"UtlsPaddingExtension":       "padding is recomputed by policy",
}

// grammarRule: the decoder's parse grammar agrees with the layout derived from the encoder.
func grammarRule(c *Ctx, rule string, exts []*extImpl) {
	r := c.R
	tls := c.P.TLS
	info := tls.TypesInfo
	resolve := func(fn *types.Func) *ast.FuncDecl { return declOf(tls, fn) }
	n := 0
	for _, e := range exts {
		if e.Write == nil || e.Read == nil || e.Len == nil {
			continue
		}
		ls := runEncoder(tls, e.Len)
		main, _, prob := lenForm(ls)
		if prob != "" || main == nil {
			continue
		}
		rs := runEncoder(tls, e.Read)
		if len(rs.issues) > 0 || len(rs.writes) == 0 {
			continue
		}
		fs := mergeConstPair(groupFields(rs.writes), 2)
		enc, _ := encoderGrammar(fs, *main, allowedGaps[e.Name])
		dec := decoderGrammarIn(info, e.Write, resolve, 0)
		n++
		cons := e.Name + ":grammar"
		if len(dec) == 0 {
			if why, ok := grammarIgnoringDecoders[e.Name]; ok || len(enc) == 0 {
				r.Ok(rule, cons, c.Pos(e.Write), "decoder does not parse the body (%s)", why)
			} else {
				r.Bad(rule, cons, c.Pos(e.Write), "the decoder reads nothing although the encoder emits [%s]: a fingerprinted extension loses its content", toksString(enc))
			}
			continue
		}
		ok, why := grammarsAgree(enc, dec)
		r.Check(ok, rule, cons, c.Pos(e.Write), "encoder layout ["+toksString(enc)+"] = decoder grammar ["+toksString(dec)+"]",
			"encoder layout ["+toksString(enc)+"] vs decoder grammar ["+toksString(dec)+"]: "+why)
	}
	r.Count("grammar_pairs", n)
	r.Floor(rule, 24)
}

func runC06(c *Ctx) {
	r := c.R
	tls := c.P.TLS
	info := tls.TypesInfo
	r.Technique = "encoder layout derivation vs decoder grammar extraction (E2), field-symmetry and registry agreement, def-use/CFG rules on FromRaw / ReadTLSExtensions / ApplyPreset"
	r.Explanation = "C06.1 for every extension type with a decoder, the decoder's cryptobyte parse grammar (prefix widths, element widths) equals the layout derived from the encoder. C06.2 every field the encoder reads is restored by the decoder except the documented per-connection material; GREASE code points are un-GREASEd exactly for the lists ApplyPreset re-GREASEs; the type registry round-trips (shared with C08.2/4/6). " +
		"C06.3 FromRaw reads legacy version, cipher suites, compression methods and extensions into the spec fields of the same name, in wire order, and fails on truncated input; ReadTLSExtensions appends every parsed extension in wire order (no filter, no reorder) and lets the decoder see exactly the extension's body. C06.4 ApplyPreset consumes each of those spec fields (shared with C03.1)."
	r.NotDecided = "byte-level equality of the regenerated hello; idempotence on concrete inputs"
	exts := tlsExtensions(c)
	grammarRule(c, "C06.1", exts)
	results := map[string]*codecResult{}
	// silent encoder pass for the registry rule
	sub := *c
	rr := *c.R
	sub.R = &rr
	for _, e := range exts {
		results[e.Name] = checkEncoder(&sub, "scratch", e)
	}
	c08Registry(c, "C06.2-registry", exts, results)
	c08Symmetry(c, "C06.2-fields", exts)
	c08UnGrease(c, "C06.2-grease", exts)

	// ---- C06.3 FromRaw
	fn := c.Fn("C06.3", "ClientHelloSpec", "FromRaw")
	if fn != nil {
		recv := info.Defs[fn.Decl.Recv.List[0].Names[0]]
		isSpec := func(e ast.Expr, f string) bool {
			se, ok := an.Unparen(e).(*ast.SelectorExpr)
			if !ok || se.Sel.Name != f {
				return false
			}
			id, ok := an.Unparen(se.X).(*ast.Ident)
			return ok && info.Uses[id] == recv
		}
		// TLSVersMin/Max from record / handshake version
		for _, f := range []string{"TLSVersMin", "TLSVersMax"} {
			ok := len(fn.Find(an.AssignsTo(func(e ast.Expr) bool { return isSpec(e, f) }))) > 0
			r.Check(ok, "C06.3", "FromRaw:"+f, c.Pos(fn.Decl), "the captured legacy version is stored in the spec", "FromRaw no longer records "+f+" from the capture")
		}
		// the three list readers are called, in wire order, with the sub-strings read by length-prefixed reads
		order := []struct{ meth, what string }{{"ReadCipherSuites", "cipher suites"}, {"ReadCompressionMethods", "compression methods"}, {"ReadTLSExtensions", "extensions"}}
		var prev []an.Point
		for _, o := range order {
			pts := fn.Find(an.CallTo(info, Mod, "ClientHelloSpec", o.meth))
			ok := len(pts) == 1
			if ok && prev != nil {
				ok = fn.MustPass(pts[0], prev, nil)
			}
			r.Check(ok, "C06.3", "FromRaw:"+o.meth, c.Pos(fn.Decl), o.what+" are imported, after the preceding field", "FromRaw does not import the "+o.what+" in wire order")
			// its error is propagated
			if len(pts) == 1 {
				_, fail, _ := condEdges(fn, func(cond ast.Expr) (bool, bool) {
					be, ok := cond.(*ast.BinaryExpr)
					if !ok || be.Op != token.NEQ || !an.IsNilIdent(info, be.Y) {
						return false, false
					}
					id, ok := an.Unparen(be.X).(*ast.Ident)
					return ok && id.Name == "err", false
				})
				okErr := false
				for _, fe := range fail {
					if fe.B == pts[0].B {
						if ok2, _ := failEdgeExits(fn, fe, nil); ok2 {
							okErr = true
						}
					}
				}
				r.Check(okErr, "C06.3", "FromRaw:"+o.meth+":error", c.PosP(pts[0]), "a malformed "+o.what+" field fails the import", "an error while importing the "+o.what+" is not returned")
			}
			prev = pts
		}
		// every cryptobyte read failure returns an error
		_, fail, at := condEdges(fn, func(cond ast.Expr) (bool, bool) {
			x, neg := negated(cond)
			call, ok := x.(*ast.CallExpr)
			if !ok || !isCryptobyteRead(info, call) {
				return false, false
			}
			return true, !neg
		})
		for i, fe := range fail {
			ok, why := failEdgeExits(fn, fe, nil)
			r.Check(ok, "C06.3", "FromRaw:read#"+shortExpr(at[i].Node().(ast.Expr)), c.PosP(at[i]), "a truncated capture is rejected", "truncated capture: "+why)
		}
	}
	// the helper readers store into the like-named field
	for _, h := range []struct{ meth, field string }{{"ReadCipherSuites", "CipherSuites"}, {"ReadCompressionMethods", "CompressionMethods"}} {
		fd := load.FuncDecl(tls, "ClientHelloSpec", h.meth)
		if fd == nil {
			r.Unknown("C06.3", h.meth, "", "not found")
			continue
		}
		_, w := fieldsTouched(tls, fd)
		_, ok := w[h.field]
		r.Check(ok, "C06.3", "ClientHelloSpec."+h.meth+":stores", c.Pos(fd), "stores into spec."+h.field, h.meth+" does not store into the spec's "+h.field)
	}
	// ReadTLSExtensions: append in order, decoder receives extData, error propagated
	if rt := c.Fn("C06.3", "ClientHelloSpec", "ReadTLSExtensions"); rt != nil {
		appends := rt.FindNodes(func(n ast.Node) bool {
			as, ok := n.(*ast.AssignStmt)
			if !ok || len(as.Lhs) != 1 || len(as.Rhs) != 1 {
				return false
			}
			se, ok := an.Unparen(as.Lhs[0]).(*ast.SelectorExpr)
			if !ok || se.Sel.Name != "Extensions" {
				return false
			}
			call, ok := an.Unparen(as.Rhs[0]).(*ast.CallExpr)
			if !ok {
				return false
			}
			id, ok := call.Fun.(*ast.Ident)
			return ok && id.Name == "append" && len(call.Args) == 2 && an.Str(call.Args[0]) == an.Str(as.Lhs[0])
		})
		r.Check(len(appends) >= 2, "C06.3", "ReadTLSExtensions:append-in-order", c.Pos(rt.Decl), "each parsed extension is appended to the end of the spec's list (known and generic alike)", "parsed extensions are not appended in wire order")
		// Write(extData) with the extension's own data
		okW := false
		var wcall an.Hit
		for _, h := range rt.FindNodes(func(n ast.Node) bool {
			call, ok := n.(*ast.CallExpr)
			if !ok {
				return false
			}
			se, ok := call.Fun.(*ast.SelectorExpr)
			return ok && se.Sel.Name == "Write" && len(call.Args) == 1 && an.TypeName(info.TypeOf(call.Args[0])) == "String"
		}) {
			okW = true
			wcall = h
		}
		r.Check(okW, "C06.3", "ReadTLSExtensions:decoder-gets-body", c.Pos(rt.Decl), "the decoder is handed the extension's own data", "the decoder is not called with the extension's data")
		if okW {
			// on Write error: return; the append of that extension must come after the Write
			for _, a := range appends {
				as := a.N.(*ast.AssignStmt)
				call := as.Rhs[0].(*ast.CallExpr)
				if id, ok := an.Unparen(call.Args[1]).(*ast.Ident); ok && an.TypeName(info.TypeOf(id)) == "TLSExtensionWriter" {
					r.Check(rt.MustPass(a.P, []an.Point{wcall.P}, nil), "C06.3", "ReadTLSExtensions:append-after-decode", c.Pos(as), "an extension enters the spec only after its decoder ran", "an extension can be appended without having been decoded")
				}
			}
		}
	}
	// no importer drops an error (a decoder failure must fail the import, not yield a partial spec)
	for _, im := range []struct{ recv, name string }{{"ClientHelloSpec", "ReadTLSExtensions"}, {"ClientHelloSpec", "FromRaw"}, {"ClientHelloSpec", "ImportTLSClientHello"}, {"ClientHelloSpec", "ImportTLSClientHelloFromJSON"}, {"ClientHelloSpec", "UnmarshalJSON"}, {"Fingerprinter", "FingerprintClientHello"}, {"Fingerprinter", "RawClientHello"}} {
		fd := load.FuncDecl(tls, im.recv, im.name)
		if fd == nil {
			continue
		}
		ds := droppedErrors(c, fd)
		detail := ""
		for _, d := range ds {
			detail += d.fn.Name() + " (" + d.why + ") "
		}
		r.Check(len(ds) == 0, "C06.3", im.recv+"."+im.name+":errors-propagated", c.Pos(fd), "no error is discarded", im.recv+"."+im.name+" discards the error of "+detail+": a capture that cannot be decoded yields a silently different spec")
	}
	r.Floor("C06.3", 18)
	// ---- C06.4
	saved := len(r.Obls)
	c03ApplyPreset(c)
	for i := saved; i < len(r.Obls); i++ {
		r.Obls[i].Rule = "C06.4"
	}
	r.Floor("C03.1", 0)
	r.Floor("C06.4", 8)
}
