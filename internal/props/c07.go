package props

import (
	"fmt"
	"go/ast"
	"go/token"
	"go/types"
	"os"
	"sort"
	"strings"

	"verif/internal/an"
)

func init() { register(&Prop{ID: "C07", Run: runC07}) }

// C07: spec importers never panic.
func runC07(c *Ctx) {
	r := c.R
	r.Technique = "panic-site reachability (E6): module call graph from the importer entry points (interface calls resolved to every implementer via types.Implements, json.Unmarshal modelled by the UnmarshalJSON methods of the target type), enumeration of index/slice/assertion/make/division/explicit-panic sites, discharge by dominating CFG guards, loop shapes and a linear bounds prover; nil rule for JSON-optional pointer fields"
	r.Explanation = "C07.1 the entry set resolves and covers every TLSExtensionWriter.Write and every TLSExtensionJSON.UnmarshalJSON (sets recomputed on each run). " +
		"C07.2 every index, slice, slice-to-array conversion and integer division in a function reachable from the importers is proved in range from guards that dominate it. " +
		"C07.3 every single-value type assertion there is preceded by a comma-ok test, a type-switch case or the ExtensionFromID registry case fixing the dynamic type. " +
		"C07.4 every explicit panic reachable there (builtin panic, helpers that panic on unhandled arguments) is excluded by a dominating check at the call site. " +
		"C07.5 pointer-typed struct fields that a JSON document may leave nil are nil-checked before they are dereferenced, or only passed to nil-safe methods. " +
		"C07.6 every make() there is sized by the length of data already held, or by a value bounded below 2^24 by a dominating comparison."
	r.NotDecided = "panics inside the standard library, cryptobyte and encoding/json; calls through function values (listed in the evidence); the second clause (a spec built from a valid capture can be applied and marshalled) beyond listing the encoder sites delegated to E2; values reaching a slice through the heap between guard and use (field paths are assumed stable across calls)"
	pp := newPrProg(c)

	// ---- C07.1 entry set
	var entries []*prFunc
	addEntry := func(rel, recv, name string) {
		f := pp.lookup(rel, recv, name)
		n := name
		if recv != "" {
			n = recv + "." + name
		}
		if f == nil {
			r.Unknown("C07.1", "entry:"+n, "", "entry point not found")
			return
		}
		entries = append(entries, f)
		r.Ok("C07.1", "entry:"+n, c.Pos(f.decl), "entry point resolved")
	}
	for _, f := range pp.funcs {
		if f.pkg.PkgPath == Mod && f.decl.Recv != nil && strings.HasPrefix(f.Name(), "Fingerprinter.") && f.decl.Name.IsExported() {
			addEntry("", "Fingerprinter", f.decl.Name.Name)
		}
	}
	for _, e := range [][3]string{
		{"", "ClientHelloSpec", "FromRaw"}, {"", "ClientHelloSpec", "ReadTLSExtensions"}, {"", "ClientHelloSpec", "UnmarshalJSON"},
		{"", "ClientHelloSpec", "ImportTLSClientHello"}, {"", "ClientHelloSpec", "ImportTLSClientHelloFromJSON"},
		{"", "TLSExtensionsJSONUnmarshaler", "UnmarshalJSON"},
		{"internal/helper", "", "Uint8to16"},
	} {
		addEntry(e[0], e[1], e[2])
	}
	public := append([]*prFunc{}, entries...)
	nW, nJ := 0, 0
	for _, spec := range []struct{ iface, method, tag string }{{"TLSExtensionWriter", "Write", "writer"}, {"TLSExtensionJSON", "UnmarshalJSON", "json"}} {
		o := c.P.TLS.Types.Scope().Lookup(spec.iface)
		if o == nil {
			r.Unknown("C07.1", "iface:"+spec.iface, "", "interface not found")
			continue
		}
		for _, t := range pp.implementers(o.Type()) {
			m := pp.methodOf(t, c.P.TLS.Types, spec.method)
			name := an.TypeName(t)
			if m == nil {
				r.Unknown("C07.1", spec.tag+":"+name, "", "method declaration not found")
				continue
			}
			entries = append(entries, m)
			if spec.tag == "writer" {
				nW++
			} else {
				nJ++
			}
		}
	}
	reach := pp.reach(entries, nil)
	// every writer/JSON decoder must also be reachable from the public importers themselves
	pub := pp.reach(public, nil)
	for _, spec := range []struct{ iface, method, tag string }{{"TLSExtensionWriter", "Write", "writer"}, {"TLSExtensionJSON", "UnmarshalJSON", "json"}} {
		o := c.P.TLS.Types.Scope().Lookup(spec.iface)
		if o == nil {
			continue
		}
		for _, t := range pp.implementers(o.Type()) {
			if m := pp.methodOf(t, c.P.TLS.Types, spec.method); m != nil {
				r.Check(pub.has(m), "C07.1", spec.tag+":"+an.TypeName(t), c.Pos(m.decl), "analysed; reachable from the public importers through "+spec.iface+" dispatch ("+pub.path(m)+")",
					"implements "+spec.iface+" but is not reached from the importers by the call graph: the dispatch model is incomplete")
			}
		}
	}
	r.Count("writers", nW)
	r.Count("json_decoders", nJ)
	r.Count("reachable_functions", len(reach.order))
	r.Floor("C07.1", 60)

	// ---- C07.2/3/4/6 sites
	verdicts, _ := pp.judge(reach, prOptions{})
	prReport(c, "C07", map[string]string{"bounds": "C07.2", "assert": "C07.3", "panic": "C07.4", "alloc": "C07.6"}, verdicts)
	r.Floor("C07.2", 12)
	r.Floor("C07.3", 3)
	r.Floor("C07.4", 1)
	r.Floor("C07.6", 8)

	// ---- C07.5 JSON-optional pointer fields
	c07NilFields(c, pp, reach)
	r.Floor("C07.5", 3)

	// ---- informational: encoder sites delegated to E2, dynamic calls not followed
	if o := c.P.TLS.Types.Scope().Lookup("TLSExtension"); o != nil {
		n := 0
		for _, t := range pp.implementers(o.Type()) {
			for _, mn := range []string{"Read", "Len"} {
				if m := pp.methodOf(t, c.P.TLS.Types, mn); m != nil && !reach.has(m) {
					for _, s := range pp.sites(m) {
						if s.kind == "index" || s.kind == "slice" {
							n++
						}
					}
				}
			}
		}
		r.Count("encoder_index_sites_delegated_to_E2", n)
	}
	var dyn []string
	for _, f := range reach.order {
		for _, d := range f.dyn {
			dyn = append(dyn, f.Name()+": "+an.Str(d.Fun))
		}
	}
	sort.Strings(dyn)
	r.Extra["dynamic_calls_not_followed"] = dyn

	if os.Getenv("VERIF_PR_DUMP") != "" {
		for _, f := range reach.order {
			fmt.Printf("REACH %s (%s) via %s\n", f.Name(), f.file, reach.path(f))
		}
	}
}

// prReport turns verdicts into obligations. Keys are rule:Function:expression.
func prReport(c *Ctx, prop string, rules map[string]string, verdicts []prVerdict) {
	seen := map[string]int{}
	delegated := map[string]int{}
	for _, v := range verdicts {
		rule := rules[v.rule]
		if rule == "" {
			continue
		}
		base := v.s.f.Name() + ":" + v.s.Expr()
		ord := seen[rule+base]
		seen[rule+base]++
		key := v.s.key(ord)
		pos := c.Pos(v.s.n)
		switch v.class {
		case "ok":
			c.R.Ok(rule, key, pos, "%s", v.why)
		case "bad":
			c.R.Bad(rule, key, pos, "%s", v.why)
		case "unknown":
			c.R.Unknown(rule, key, pos, "%s", v.why)
		case "delegated":
			delegated[v.why]++
		}
	}
	for why, n := range delegated {
		c.R.Count("delegated: "+why, n)
	}
}

// c07NilFields implements C07.5.
func c07NilFields(c *Ctx, pp *prProg, reach *prReach) {
	r := c.R
	// 1. struct types decoded into by encoding/json in reachable functions, and their
	//    pointer-typed fields
	type fieldKey struct {
		owner *types.Named
		name  string
	}
	optional := map[*types.Var]fieldKey{}
	for _, f := range reach.order {
		info := f.pkg.TypesInfo
		ast.Inspect(f.decl.Body, func(n ast.Node) bool {
			call, ok := n.(*ast.CallExpr)
			if !ok || len(call.Args) != 2 {
				return true
			}
			fn, _ := an.Callee(info, call).(*types.Func)
			if fn == nil || fn.Pkg() == nil || fn.Pkg().Path() != "encoding/json" || fn.Name() != "Unmarshal" {
				return true
			}
			t := info.TypeOf(call.Args[1])
			for {
				p, ok := types.Unalias(t).(*types.Pointer)
				if !ok {
					break
				}
				t = p.Elem()
			}
			named, _ := types.Unalias(t).(*types.Named)
			if named == nil {
				return true
			}
			st, _ := named.Underlying().(*types.Struct)
			if st == nil {
				return true
			}
			// a type with its own UnmarshalJSON controls its fields itself
			if pp.methodOf(types.NewPointer(named), named.Obj().Pkg(), "UnmarshalJSON") != nil {
				return true
			}
			for i := 0; i < st.NumFields(); i++ {
				fv := st.Field(i)
				if _, isPtr := fv.Type().Underlying().(*types.Pointer); isPtr && fv.Exported() {
					optional[fv] = fieldKey{named, fv.Name()}
				}
			}
			return true
		})
	}
	if len(optional) == 0 {
		r.Unknown("C07.5", "json-targets", "", "no struct with pointer fields is decoded by encoding/json in the importers")
		return
	}
	// 2. uses of those fields in reachable functions
	for _, f := range reach.order {
		f.ensure()
		info := f.pkg.TypesInfo
		pv := newProver(pp, f)
		ast.Inspect(f.decl.Body, func(n ast.Node) bool {
			se, ok := n.(*ast.SelectorExpr)
			if !ok {
				return true
			}
			sel := info.Selections[se]
			if sel == nil || sel.Kind() != types.FieldVal {
				return true
			}
			fv, _ := sel.Obj().(*types.Var)
			fk, isOpt := optional[fv]
			if !isOpt {
				return true
			}
			// how is the field value used?
			var parent ast.Node = f.parent[se]
			for {
				if _, isParen := parent.(*ast.ParenExpr); !isParen {
					break
				}
				parent = f.parent[parent]
			}
			deref := ""
			switch p := parent.(type) {
			case *ast.SelectorExpr:
				if an.Unparen(p.X) != ast.Expr(se) {
					return true
				}
				psel := info.Selections[p]
				if psel == nil {
					return true
				}
				switch psel.Kind() {
				case types.FieldVal:
					deref = "field " + p.Sel.Name + " is read through it"
				case types.MethodVal:
					m, _ := psel.Obj().(*types.Func)
					_, ptrRecv := m.Type().(*types.Signature).Recv().Type().(*types.Pointer)
					if !ptrRecv {
						deref = "value-receiver method " + m.Name() + " dereferences it at the call"
					} else if mf := pp.byObj[m.Origin()]; mf == nil {
						deref = "method " + m.Name() + " is outside the module"
					} else if ok, why := nilSafeMethod(pp, mf); !ok {
						deref = "method " + mf.Name() + " is not nil-safe: " + why
					} else {
						key := fmt.Sprintf("%s:%s.%s.%s()", f.Name(), fk.owner.Obj().Name(), fk.name, m.Name())
						r.Ok("C07.5", key, c.Pos(se), "the field may be nil after decoding a document that omits it, but %s tolerates a nil receiver (%s)", mf.Name(), why)
						return true
					}
				}
			case *ast.StarExpr:
				deref = "explicit dereference"
			default:
				return true // compared, assigned, passed on: no dereference here
			}
			key := fmt.Sprintf("%s:%s.%s", f.Name(), fk.owner.Obj().Name(), fk.name)
			if p, ok := parent.(*ast.SelectorExpr); ok {
				key += "." + p.Sel.Name
			}
			// dominating nil check
			{
				loc := f.points[se]
				var paths []prPath
				k := pv.exprKey(se, &paths)
				for _, dc := range f.condsAt(se) {
					cond, neg := negated(dc.cond)
					be, isBin := cond.(*ast.BinaryExpr)
					if !isBin || (be.Op != token.NEQ && be.Op != token.EQL) {
						continue
					}
					var other ast.Expr
					var p2 []prPath
					if pv.exprKey(be.X, &p2) == k {
						other = be.Y
					} else if pv.exprKey(be.Y, &p2) == k {
						other = be.X
					}
					if other == nil || !an.IsNilIdent(info, other) {
						continue
					}
					nonNil := (be.Op == token.NEQ) == (dc.onTrue != neg)
					if nonNil && (dc.local || pv.stable(loc.fn, dc.edge, dc.at, loc.p, paths)) {
						r.Ok("C07.5", key, c.Pos(se), "dereference dominated by the nil check `%s`", an.Str(dc.cond))
						return true
					}
				}
			}
			// every path to the use passes a non-nil outcome of a nil test or an assignment of
			// a fresh value to the same field path (if x.F == nil { x.F = &T{} })
			if loc, ok := f.points[se]; ok {
				var paths []prPath
				k := pv.exprKey(se, &paths)
				var viaE []an.Edge
				var viaP []an.Point
				for _, br := range prBranches(loc.fn) {
					for _, pol := range []bool{true, false} {
						for _, l := range prConj(br.cond, pol) {
							be, isBin := an.Unparen(l.cond).(*ast.BinaryExpr)
							if !isBin || (be.Op != token.NEQ && be.Op != token.EQL) {
								continue
							}
							var other ast.Expr
							var p2 []prPath
							if pv.exprKey(be.X, &p2) == k {
								other = be.Y
							} else if pv.exprKey(be.Y, &p2) == k {
								other = be.X
							}
							if other == nil || !an.IsNilIdent(info, other) || (be.Op == token.NEQ) != l.pos {
								continue
							}
							if pol {
								viaE = append(viaE, br.t)
							} else {
								viaE = append(viaE, br.f)
							}
						}
					}
				}
				for _, h := range loc.fn.FindNodes(func(n ast.Node) bool {
					as, ok := n.(*ast.AssignStmt)
					if !ok || len(as.Lhs) != len(as.Rhs) {
						return false
					}
					for i, l := range as.Lhs {
						var p2 []prPath
						if pv.exprKey(l, &p2) == k && freshMessage(info, as.Rhs[i]) {
							return true
						}
					}
					return false
				}) {
					viaP = append(viaP, h.P)
				}
				if (len(viaE) > 0 || len(viaP) > 0) && loc.fn.MustPass(loc.p, viaP, viaE) {
					stable := true
					for _, m := range pv.muts[paths[0].root] {
						// another assignment of something that is not a fresh value, later on a path to the use
						if as, isAs := m.n.(*ast.AssignStmt); isAs && pathAffects(m.key, k) {
							fresh := false
							for i, l := range as.Lhs {
								var p2 []prPath
								if pv.exprKey(l, &p2) == k && i < len(as.Rhs) && freshMessage(info, as.Rhs[i]) {
									fresh = true
								}
							}
							if !fresh {
								stable = false
							}
						}
					}
					if stable {
						r.Ok("C07.5", key, c.Pos(se), "every path to the dereference passes a non-nil outcome of a nil test or assigns a fresh value to the field")
						return true
					}
				}
			}
			r.Bad("C07.5", key, c.Pos(se), "%s.%s is a pointer that encoding/json leaves nil when the document omits the key (e.g. `{}`), and it is dereferenced without a nil check: %s",
				fk.owner.Obj().Name(), fk.name, deref)
			return true
		})
	}
}

// nilSafeMethod: every use of the receiver in the body is a comparison with nil or is
// dominated by a check that the receiver is not nil.
func nilSafeMethod(pp *prProg, m *prFunc) (bool, string) {
	m.ensure()
	info := m.pkg.TypesInfo
	if m.decl.Recv == nil || len(m.decl.Recv.List) != 1 || len(m.decl.Recv.List[0].Names) != 1 {
		return true, "receiver unnamed, never used"
	}
	recv := info.Defs[m.decl.Recv.List[0].Names[0]]
	if recv == nil {
		return true, "receiver unnamed, never used"
	}
	ok, why := true, "receiver only used behind a nil check"
	uses := 0
	ast.Inspect(m.decl.Body, func(n ast.Node) bool {
		id, isId := n.(*ast.Ident)
		if !isId || info.Uses[id] != recv {
			return true
		}
		uses++
		if be, isBin := m.parent[id].(*ast.BinaryExpr); isBin && (be.Op == token.EQL || be.Op == token.NEQ) {
			if an.IsNilIdent(info, be.X) || an.IsNilIdent(info, be.Y) {
				return true
			}
		}
		if _, live := m.points[id]; !live {
			return true
		}
		guarded := false
		for _, dc := range m.condsAt(id) {
			cond, neg := negated(dc.cond)
			be, isBin := cond.(*ast.BinaryExpr)
			if !isBin || (be.Op != token.NEQ && be.Op != token.EQL) {
				continue
			}
			var other ast.Expr
			if x, _ := an.Unparen(be.X).(*ast.Ident); x != nil && info.Uses[x] == recv {
				other = be.Y
			} else if y, _ := an.Unparen(be.Y).(*ast.Ident); y != nil && info.Uses[y] == recv {
				other = be.X
			}
			if other == nil || !an.IsNilIdent(info, other) {
				continue
			}
			if (be.Op == token.NEQ) == (dc.onTrue != neg) {
				guarded = true
			}
		}
		if !guarded {
			ok, why = false, fmt.Sprintf("receiver %s is used at %s without a preceding nil check", id.Name, pp.c.Pos(id))
		}
		return true
	})
	if uses == 0 {
		why = "receiver never used"
	}
	return ok, why
}
