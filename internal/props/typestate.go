package props

// E9 typestate engine, part 1: abstract values, configurations, tracked variables, call graph.
//
// The engine is an explicit-state abstract interpreter for the session-controller protocol.
// Nothing about the protocol is written down here: the tracked variables are struct fields
// resolved through go/types, their finite domains come from the declared constants, and the
// behaviour of every function is obtained by interpreting its body (typestate_exec.go) on
// each abstract state. Conditions over anything that is not tracked are non-deterministic.

import (
	"fmt"
	"go/ast"
	"go/constant"
	"go/token"
	"go/types"
	"sort"
	"strconv"
	"strings"

	"verif/internal/load"

	"golang.org/x/tools/go/packages"
	"golang.org/x/tools/go/types/typeutil"
)

type tsK uint8

const (
	kTop tsK = iota
	kInt
	kBool
	kNil
	kNonNil
	kSym   // a named package-level variable of a tracked struct type (e.g. HelloGolang)
	kOther // some value of a tracked struct type that is none of the named ones
	kFunc
	kList
	kRef
	kTuple
)

// tsVal is an abstract value. nd: derived from a non-deterministic choice; tr: derived from
// tracked state; fresh: pointer to a literal built in this evaluation.
type tsVal struct {
	k     tsK
	n     int64
	o     types.Object
	cl    *tsClosure
	l     []tsVal
	nd    bool
	tr    bool
	fresh bool
}

type tsClosure struct {
	lit  *ast.FuncLit
	fn   *types.Func // method value / function identifier
	env  map[types.Object]tsVal
	name string
	k    string
}

// id identifies a closure by its code and captured values (not by allocation).
func (c *tsClosure) id() string {
	if c.k != "" {
		return c.k
	}
	var sb strings.Builder
	if c.fn != nil {
		fmt.Fprintf(&sb, ":f%d", c.fn.Pos())
	}
	if c.lit != nil {
		fmt.Fprintf(&sb, ":l%d{", c.lit.Pos())
		type kv struct {
			p token.Pos
			s string
		}
		var ents []kv
		for o, v := range c.env {
			ents = append(ents, kv{o.Pos(), v.key()})
		}
		sort.Slice(ents, func(i, j int) bool { return ents[i].p < ents[j].p })
		for _, e := range ents {
			fmt.Fprintf(&sb, "%d=%s;", e.p, e.s)
		}
		sb.WriteByte('}')
	}
	c.k = sb.String()
	return c.k
}

var tsTop = tsVal{k: kTop}

func tsBool(b bool) tsVal {
	if b {
		return tsVal{k: kBool, n: 1}
	}
	return tsVal{k: kBool}
}
func tsInt(n int64) tsVal { return tsVal{k: kInt, n: n} }

func (v tsVal) flags(o tsVal) tsVal { v.nd = v.nd || o.nd; v.tr = v.tr || o.tr; return v }

func (v tsVal) key() string {
	var sb strings.Builder
	v.writeKey(&sb)
	return sb.String()
}

func (v tsVal) writeKey(sb *strings.Builder) {
	sb.WriteByte('a' + byte(v.k))
	switch v.k {
	case kInt, kBool:
		sb.WriteString(strconv.FormatInt(v.n, 10))
	case kSym:
		sb.WriteString(strconv.Itoa(int(v.o.Pos())))
	case kFunc:
		if v.cl != nil {
			sb.WriteString(v.cl.id())
		}
	case kList, kTuple, kRef:
		sb.WriteByte('[')
		for _, x := range v.l {
			x.writeKey(sb)
			sb.WriteByte(',')
		}
		sb.WriteByte(']')
	}
	if v.nd {
		sb.WriteByte('n')
	}
	if v.tr {
		sb.WriteByte('t')
	}
}

// plain strips provenance flags (values stored in the tracked state carry none).
func (v tsVal) plain() tsVal { v.nd, v.tr, v.fresh = false, false, false; return v }

// ---------------------------------------------------------------- tracked variables

type tsDom uint8

const (
	domBool tsDom = iota
	domEnum
	domNil
	domSym
)

type tsVar struct {
	owner, field string
	obj          *types.Var
	dom          tsDom
	vals         []tsVal          // the finite domain
	names        map[int64]string // enum constant names
	pointee      string           // for pointer fields: name of the pointed-to struct
	aux          bool
}

func (tv *tsVar) name() string { return tv.owner + "." + tv.field }

func (tv *tsVar) show(v tsVal) string {
	switch v.k {
	case kTop:
		return "?"
	case kBool:
		if v.n != 0 {
			return "true"
		}
		return "false"
	case kInt:
		if n, ok := tv.names[v.n]; ok {
			return n
		}
		return fmt.Sprint(v.n)
	case kNil:
		return "nil"
	case kNonNil:
		return "set"
	case kSym:
		return v.o.Name()
	case kOther:
		return "other"
	}
	return "?"
}

// tsSlots names the struct fields that make up the abstract state. "*" = every field of the struct.
// aux fields are part of the state (their values decide branches) but reading one does not by
// itself make a function worth interpreting: they are read all over crypto/tls.
var tsSlots = []struct {
	owner, field string
	aux          bool
}{
	{"sessionController", "*", false},
	{"UConn", "clientHelloBuildStatus", false},
	{"UConn", "skipResumptionOnNilExtension", false},
	{"UConn", "ClientHelloID", true},
	{"UConn", "sessionController", true},
	{"utlsConnExtraFields", "sessionController", true},
	{"Conn", "isClient", true},
	{"Conn", "config", true},
	{"Config", "ClientSessionCache", true},
	{"Config", "SessionTicketsDisabled", true},
}

// ---------------------------------------------------------------- configurations

type tsTrace struct {
	parent *tsTrace
	s      string
}

func (t *tsTrace) list(until *tsTrace) []string {
	var out []string
	for x := t; x != nil && x != until; x = x.parent {
		out = append(out, x.s)
	}
	for i, j := 0, len(out)-1; i < j; i, j = i+1, j-1 {
		out[i], out[j] = out[j], out[i]
	}
	return out
}

// tsConf is one abstract configuration: tracked state + locals of the current frame.
type tsConf struct {
	eng    *tsEngine
	st     string                 // one byte per tracked variable: 0 = unknown, i+1 = i-th value of its domain
	env    map[types.Object]tsVal // known locals only; an absent local is unknown
	nd     int                    // enclosing non-deterministic branch decisions in this frame
	ndEver bool
	trEver bool
	defers []*ast.DeferStmt
	trace  *tsTrace
	k      string // cached key; configurations are not mutated after their key was taken
}

func (c *tsConf) clone() *tsConf {
	d := *c
	d.k = ""
	return &d
}

func (c *tsConf) withVar(i int, v tsVal) *tsConf {
	code := c.eng.encode(i, v)
	if c.st[i] == code {
		return c
	}
	d := c.clone()
	b := []byte(c.st)
	b[i] = code
	d.st = string(b)
	return d
}

// get decodes tracked variable i.
func (c *tsConf) get(i int) tsVal { return c.eng.decode(i, c.st[i]) }

func (e *tsEngine) encode(i int, v tsVal) byte {
	for j, d := range e.vars[i].vals {
		if d.k == v.k && d.n == v.n && d.o == v.o {
			return byte(j + 1)
		}
	}
	if v.k == kInt && e.vars[i].dom == domEnum && len(e.vars[i].vals) < 200 {
		// a value outside the declared constants (e.g. the zero value): extend the domain
		e.vars[i].vals = append(e.vars[i].vals, tsInt(v.n))
		return byte(len(e.vars[i].vals))
	}
	return 0
}

func (e *tsEngine) decode(i int, code byte) tsVal {
	if code == 0 {
		return tsTop
	}
	return e.vars[i].vals[code-1]
}

func (c *tsConf) withEnv(o types.Object, v tsVal) *tsConf {
	if o == nil {
		return c
	}
	if v.k == kTop && !v.nd && !v.tr {
		if _, has := c.env[o]; !has {
			return c
		}
		d := c.clone()
		d.env = make(map[types.Object]tsVal, len(c.env))
		for k, x := range c.env {
			if k != o {
				d.env[k] = x
			}
		}
		return d
	}
	d := c.clone()
	d.env = make(map[types.Object]tsVal, len(c.env)+1)
	for k, x := range c.env {
		d.env[k] = x
	}
	d.env[o] = v
	return d
}

func (c *tsConf) withTrace(s string) *tsConf {
	d := c.clone()
	d.trace = &tsTrace{c.trace, s}
	return d
}

func stKey(st string) string { return st }

func (c *tsConf) key() string {
	if c.k != "" {
		return c.k
	}
	c.k = c.computeKey()
	return c.k
}

func (c *tsConf) computeKey() string {
	var sb strings.Builder
	sb.WriteString(stKey(c.st))
	sb.WriteByte('|')
	type kv struct {
		p token.Pos
		n string
		v tsVal
	}
	ents := make([]kv, 0, len(c.env))
	for o, v := range c.env {
		ents = append(ents, kv{o.Pos(), o.Name(), v})
	}
	sort.Slice(ents, func(i, j int) bool {
		if ents[i].p != ents[j].p {
			return ents[i].p < ents[j].p
		}
		return ents[i].n < ents[j].n
	})
	for _, e := range ents {
		sb.WriteString(strconv.Itoa(int(e.p)))
		sb.WriteByte('=')
		e.v.writeKey(&sb)
		sb.WriteByte(';')
	}
	sb.WriteByte('|')
	sb.WriteString(strconv.Itoa(c.nd))
	sb.WriteString(boolStr(c.ndEver))
	sb.WriteString(boolStr(c.trEver))
	for _, d := range c.defers {
		sb.WriteByte(',')
		sb.WriteString(strconv.Itoa(int(d.Pos())))
	}
	return sb.String()
}

// ---------------------------------------------------------------- engine

type tsFrame struct {
	name    string
	fn      *types.Func
	decl    *ast.FuncDecl
	callPos token.Pos
	lit     bool
}

type tsPanic struct {
	pos        token.Pos
	stack      []tsFrame
	determined bool
	msg        string
}

type tsEngine struct {
	c    *Ctx
	pkg  *packages.Package
	info *types.Info

	vars  []*tsVar
	varOf map[*types.Var]int
	// structs with tracked fields: struct name -> indexes of its tracked vars
	structVars map[string][]int

	decls       map[*types.Func]*ast.FuncDecl
	declName    map[*types.Func]string
	callees     map[*types.Func]map[*types.Func]bool
	mention     map[*types.Func]bool                         // body mentions a tracked field
	writes      map[*types.Func]bool                         // body assigns a tracked field
	hasPanic    map[*types.Func]bool                         // body calls builtin panic
	pure        map[*types.Func]bool                         // receiver-less helper that touches no struct field
	purePanic   map[*types.Func]bool                         // pure helper that can reach a builtin panic
	ifaceOf     map[*types.TypeName]map[string][]*types.Func // module interface -> method -> implementers
	relCache    map[ast.Node]bool
	useCache    map[ast.Node]map[types.Object]bool
	suffixCache map[ast.Stmt]map[types.Object]bool
	unionCache  map[[2]uintptr]map[types.Object]bool
	live        []map[types.Object]bool // stack: locals that may still be read after the current statement
	owners      map[string]bool         // structs that carry tracked fields (the singleton objects)
	base        map[*types.Func]bool
	ancBase     map[*types.Func]bool // can reach base through the call graph

	fieldFn    map[*types.Var]tsVal     // func-typed fields assigned by the constructor
	dynTargets map[string][]*types.Func // implementers of module-interface methods, by method name
	symVars    map[types.Object]bool

	stack     []tsFrame
	memo      map[string][]tsSummary
	ctorPhase bool
	steps     int
	maxSteps  int
	unsup     map[string]string // unsupported constructs met while interpreting: key -> pos
	inlined   map[*types.Func]bool
	sites     map[token.Pos]bool // assertion/panic sites seen in interpreted code
	writeLog  map[[3]int]token.Pos // (variable, old code, new code) of every interpreted assignment to a tracked field
}

type tsSummary struct {
	st     string
	val    tsVal
	pn     *tsPanic
	suffix []tsFrame
	trace  []string
}

func (e *tsEngine) unsupported(n ast.Node, what string) {
	k := what + "@" + e.fnName()
	if _, ok := e.unsup[k]; !ok {
		e.unsup[k] = e.c.Pos(n)
	}
}

func (e *tsEngine) fnName() string {
	for i := len(e.stack) - 1; i >= 0; i-- {
		if !e.stack[i].lit {
			return e.stack[i].name
		}
	}
	return "?"
}

func tsFuncName(fn *types.Func) string {
	sig := fn.Type().(*types.Signature)
	if r := sig.Recv(); r != nil {
		t := r.Type()
		if p, ok := t.(*types.Pointer); ok {
			t = p.Elem()
		}
		if n, ok := t.(*types.Named); ok {
			return n.Obj().Name() + "." + fn.Name()
		}
	}
	return fn.Name()
}

// newTSEngine resolves the tracked variables and builds the call graph. Returns nil (after
// recording Unknown obligations under rule) if an anchor is missing.
func newTSEngine(c *Ctx, rule string) *tsEngine {
	e := &tsEngine{c: c, pkg: c.P.TLS, info: c.P.TLS.TypesInfo, varOf: map[*types.Var]int{}, structVars: map[string][]int{},
		decls: map[*types.Func]*ast.FuncDecl{}, declName: map[*types.Func]string{}, callees: map[*types.Func]map[*types.Func]bool{},
		mention: map[*types.Func]bool{}, writes: map[*types.Func]bool{}, hasPanic: map[*types.Func]bool{}, pure: map[*types.Func]bool{}, purePanic: map[*types.Func]bool{}, ifaceOf: map[*types.TypeName]map[string][]*types.Func{}, relCache: map[ast.Node]bool{}, useCache: map[ast.Node]map[types.Object]bool{}, suffixCache: map[ast.Stmt]map[types.Object]bool{}, unionCache: map[[2]uintptr]map[types.Object]bool{}, owners: map[string]bool{},
		base: map[*types.Func]bool{}, ancBase: map[*types.Func]bool{}, fieldFn: map[*types.Var]tsVal{}, dynTargets: map[string][]*types.Func{}, symVars: map[types.Object]bool{},
		memo: map[string][]tsSummary{}, unsup: map[string]string{}, inlined: map[*types.Func]bool{}, sites: map[token.Pos]bool{}, writeLog: map[[3]int]token.Pos{}, maxSteps: 40_000_000}
	ok := true
	for _, sl := range tsSlots {
		nm := load.Named(e.pkg, sl.owner)
		if nm == nil {
			c.R.Unknown(rule, "state:"+sl.owner, "", "struct %s not found", sl.owner)
			ok = false
			continue
		}
		st, _ := nm.Underlying().(*types.Struct)
		if st == nil {
			c.R.Unknown(rule, "state:"+sl.owner, "", "%s is not a struct", sl.owner)
			ok = false
			continue
		}
		found := false
		for i := 0; i < st.NumFields(); i++ {
			f := st.Field(i)
			if sl.field != "*" && f.Name() != sl.field {
				continue
			}
			found = true
			if tv := e.makeVar(sl.owner, f); tv != nil {
				tv.aux = sl.aux
				e.varOf[f] = len(e.vars)
				e.structVars[sl.owner] = append(e.structVars[sl.owner], len(e.vars))
				e.vars = append(e.vars, tv)
			} else if sl.field != "*" {
				c.R.Unknown(rule, "state:"+sl.owner+"."+sl.field, "", "field type %s has no finite abstraction", f.Type())
				ok = false
			}
		}
		if !found {
			c.R.Unknown(rule, "state:"+sl.owner+"."+sl.field, "", "field not found")
			ok = false
		}
	}
	if !ok {
		return nil
	}
	for _, sl := range tsSlots {
		e.owners[sl.owner] = true
	}
	e.buildGraph()
	return e
}

// makeVar derives the finite domain of a field from its type.
func (e *tsEngine) makeVar(owner string, f *types.Var) *tsVar {
	tv := &tsVar{owner: owner, field: f.Name(), obj: f, names: map[int64]string{}}
	t := f.Type()
	switch u := t.Underlying().(type) {
	case *types.Basic:
		if u.Info()&types.IsBoolean != 0 {
			tv.dom = domBool
			tv.vals = []tsVal{tsBool(false), tsBool(true)}
			return tv
		}
		if u.Info()&types.IsInteger != 0 {
			nt, ok := types.Unalias(t).(*types.Named)
			if !ok {
				return nil
			}
			// enum: every package-level constant of this named type
			sc := nt.Obj().Pkg().Scope()
			seen := map[int64]bool{}
			for _, n := range sc.Names() {
				cn, ok := sc.Lookup(n).(*types.Const)
				if !ok || !types.Identical(cn.Type(), t) {
					continue
				}
				v, exact := constant.Int64Val(constant.ToInt(cn.Val()))
				if !exact || seen[v] {
					continue
				}
				seen[v] = true
				tv.names[v] = n
				tv.vals = append(tv.vals, tsInt(v))
			}
			if len(tv.vals) == 0 {
				return nil
			}
			sort.Slice(tv.vals, func(i, j int) bool { return tv.vals[i].n < tv.vals[j].n })
			tv.dom = domEnum
			return tv
		}
		return nil
	case *types.Pointer:
		tv.dom = domNil
		tv.vals = []tsVal{{k: kNil}, {k: kNonNil}}
		if n, ok := types.Unalias(u.Elem()).(*types.Named); ok {
			tv.pointee = n.Obj().Name()
		}
		return tv
	case *types.Interface, *types.Signature, *types.Slice, *types.Map, *types.Chan:
		tv.dom = domNil
		tv.vals = []tsVal{{k: kNil}, {k: kNonNil}}
		return tv
	case *types.Struct:
		// symbolic: the package-level variables of this type that the field is compared with
		tv.dom = domSym
		for _, file := range e.pkg.Syntax {
			ast.Inspect(file, func(n ast.Node) bool {
				be, ok := n.(*ast.BinaryExpr)
				if !ok || (be.Op != token.EQL && be.Op != token.NEQ) {
					return true
				}
				for _, pr := range [][2]ast.Expr{{be.X, be.Y}, {be.Y, be.X}} {
					se, ok := ast.Unparen(pr[0]).(*ast.SelectorExpr)
					if !ok {
						continue
					}
					if sel := e.info.Selections[se]; sel == nil || sel.Obj() != f {
						continue
					}
					if id, ok := ast.Unparen(pr[1]).(*ast.Ident); ok {
						if v, ok := e.info.Uses[id].(*types.Var); ok && v.Parent() == e.pkg.Types.Scope() && !e.symVars[v] {
							e.symVars[v] = true
							tv.vals = append(tv.vals, tsVal{k: kSym, o: v})
						}
					}
				}
				return true
			})
		}
		tv.vals = append(tv.vals, tsVal{k: kOther})
		return tv
	}
	return nil
}

// trackedSel returns the tracked-variable index selected by e, or -1.
func (e *tsEngine) trackedSel(x ast.Expr) int {
	se, ok := ast.Unparen(x).(*ast.SelectorExpr)
	if !ok {
		return -1
	}
	sel := e.info.Selections[se]
	if sel == nil || sel.Kind() != types.FieldVal {
		return -1
	}
	v, ok := sel.Obj().(*types.Var)
	if !ok {
		return -1
	}
	if i, ok := e.varOf[v]; ok {
		return i
	}
	return -1
}

// buildGraph indexes declarations and computes mention/write/panic facts and the static call
// graph (direct calls, method values, CHA edges for interfaces declared in the module).
func (e *tsEngine) buildGraph() {
	for _, fd := range load.AllFuncDecls(e.pkg) {
		fn, _ := e.info.Defs[fd.Name].(*types.Func)
		if fn == nil {
			continue
		}
		e.decls[fn] = fd
		e.declName[fn] = tsFuncName(fn)
	}
	// implementers of module interfaces, by method name
	type impl struct {
		iface *types.Interface
		fns   map[string][]*types.Func
	}
	ifaceImpls := map[*types.TypeName]*impl{}
	sc := e.pkg.Types.Scope()
	var named []*types.Named
	for _, n := range sc.Names() {
		if tn, ok := sc.Lookup(n).(*types.TypeName); ok {
			if nt, ok := tn.Type().(*types.Named); ok && nt.TypeParams().Len() == 0 {
				named = append(named, nt)
			}
		}
	}
	for _, nt := range named {
		it, ok := nt.Underlying().(*types.Interface)
		if !ok || it.NumMethods() == 0 {
			continue
		}
		im := &impl{iface: it, fns: map[string][]*types.Func{}}
		for _, ct := range named {
			if _, isI := ct.Underlying().(*types.Interface); isI {
				continue
			}
			for _, t := range []types.Type{ct, types.NewPointer(ct)} {
				if !types.Implements(t, it) {
					continue
				}
				ms := types.NewMethodSet(t)
				for i := 0; i < it.NumMethods(); i++ {
					m := it.Method(i)
					if s := ms.Lookup(m.Pkg(), m.Name()); s != nil {
						// the tracked objects themselves are assumed not to be passed around as
						// values of module interfaces (e.g. the connection as its own transcript hash)
						if f, ok := s.Obj().(*types.Func); ok && !e.owners[ct.Obj().Name()] {
							im.fns[m.Name()] = append(im.fns[m.Name()], f)
						}
					}
				}
				break
			}
		}
		ifaceImpls[nt.Obj()] = im
		e.ifaceOf[nt.Obj()] = im.fns
		for name, fs := range im.fns {
			for _, f := range fs {
				e.dynTargets[name] = append(e.dynTargets[name], f.Origin())
			}
		}
	}
	// func-typed fields: every method value / function assigned to them anywhere
	fieldTargets := map[*types.Var][]*types.Func{}
	for _, file := range e.pkg.Syntax {
		ast.Inspect(file, func(n ast.Node) bool {
			as, ok := n.(*ast.AssignStmt)
			if !ok || len(as.Lhs) != len(as.Rhs) {
				return true
			}
			for i, l := range as.Lhs {
				se, ok := ast.Unparen(l).(*ast.SelectorExpr)
				if !ok {
					continue
				}
				sel := e.info.Selections[se]
				if sel == nil || sel.Kind() != types.FieldVal {
					continue
				}
				if _, isSig := sel.Obj().Type().Underlying().(*types.Signature); !isSig {
					continue
				}
				if f := e.funcValue(as.Rhs[i]); f != nil {
					fieldTargets[sel.Obj().(*types.Var)] = append(fieldTargets[sel.Obj().(*types.Var)], f)
				}
			}
			return true
		})
	}
	for fn, fd := range e.decls {
		cs := map[*types.Func]bool{}
		e.callees[fn] = cs
		usesField := false
		ast.Inspect(fd.Body, func(n ast.Node) bool {
			switch x := n.(type) {
			case *ast.SelectorExpr:
				if i := e.trackedSel(x); i >= 0 && !e.vars[i].aux {
					e.mention[fn] = true
				}
				if sel := e.info.Selections[x]; sel != nil && sel.Kind() == types.FieldVal {
					usesField = true
				}
				if f := e.funcValue(x); f != nil {
					cs[f] = true // method value or call; both are edges
				}
			case *ast.Ident:
				if f, ok := e.info.Uses[x].(*types.Func); ok && f.Pkg() == e.pkg.Types {
					cs[f.Origin()] = true
				}
			case *ast.AssignStmt:
				for _, l := range x.Lhs {
					if e.trackedSel(l) >= 0 {
						e.writes[fn] = true
					}
				}
			case *ast.IncDecStmt:
				if e.trackedSel(x.X) >= 0 {
					e.writes[fn] = true
				}
			case *ast.CompositeLit:
				// constructing a struct whose protocol fields are tracked initialises them
				if nt, ok := types.Unalias(e.info.TypeOf(x)).(*types.Named); ok {
					for _, vi := range e.structVars[nt.Obj().Name()] {
						if !e.vars[vi].aux {
							e.writes[fn] = true
						}
					}
				}
			case *ast.CallExpr:
				if id, ok := ast.Unparen(x.Fun).(*ast.Ident); ok && id.Name == "panic" {
					if _, isB := e.info.Uses[id].(*types.Builtin); isB {
						e.hasPanic[fn] = true
					}
				}
				callee := typeutil.Callee(e.info, x)
				if f, ok := callee.(*types.Func); ok {
					if r := f.Type().(*types.Signature).Recv(); r != nil {
						if _, isI := r.Type().Underlying().(*types.Interface); isI {
							// CHA for module interfaces
							if nt, ok := types.Unalias(r.Type()).(*types.Named); ok {
								if im := ifaceImpls[nt.Obj()]; im != nil {
									for _, t := range im.fns[f.Name()] {
										cs[t.Origin()] = true
									}
								}
							} else {
								// embedded interface method: search all module interfaces that have it
								for _, im := range ifaceImpls {
									for _, t := range im.fns[f.Name()] {
										cs[t.Origin()] = true
									}
								}
							}
						}
					}
				}
				if se, ok := ast.Unparen(x.Fun).(*ast.SelectorExpr); ok {
					if sel := e.info.Selections[se]; sel != nil && sel.Kind() == types.FieldVal {
						for _, t := range fieldTargets[sel.Obj().(*types.Var)] {
							cs[t.Origin()] = true
						}
					}
				}
			}
			return true
		})
		if fd.Recv == nil && !usesField && !e.mention[fn] {
			e.pure[fn] = true
		}
	}
	for fn := range e.pure {
		if e.hasPanic[fn] {
			e.purePanic[fn] = true
		}
	}
	for changed := true; changed; {
		changed = false
		for fn := range e.pure {
			if e.purePanic[fn] {
				continue
			}
			for cal := range e.callees[fn] {
				if e.purePanic[cal] {
					e.purePanic[fn] = true
					changed = true
				}
			}
		}
	}
	// base: writers, and direct mentioners that can panic (themselves or through a pure helper)
	for fn := range e.decls {
		if e.writes[fn] {
			e.base[fn] = true
			continue
		}
		if e.mention[fn] {
			if e.hasPanic[fn] {
				e.base[fn] = true
				continue
			}
			for cal := range e.callees[fn] {
				if e.purePanic[cal] || (e.hasPanic[cal] && e.mention[cal]) {
					e.base[fn] = true
				}
			}
		}
	}
	// ancestors of base
	for fn := range e.base {
		e.ancBase[fn] = true
	}
	for changed := true; changed; {
		changed = false
		for fn, cs := range e.callees {
			if e.ancBase[fn] {
				continue
			}
			for cal := range cs {
				if e.ancBase[cal] {
					e.ancBase[fn] = true
					changed = true
					break
				}
			}
		}
	}
}

// funcValue resolves x to a declared function of the package when x denotes one (function
// identifier, method value or method call target).
func (e *tsEngine) funcValue(x ast.Expr) *types.Func {
	switch v := ast.Unparen(x).(type) {
	case *ast.Ident:
		if f, ok := e.info.Uses[v].(*types.Func); ok && f.Pkg() == e.pkg.Types {
			return f.Origin()
		}
	case *ast.SelectorExpr:
		if sel := e.info.Selections[v]; sel != nil && (sel.Kind() == types.MethodVal || sel.Kind() == types.MethodExpr) {
			if f, ok := sel.Obj().(*types.Func); ok && f.Pkg() == e.pkg.Types {
				return f.Origin()
			}
		}
	}
	return nil
}

// shouldInline decides whether a call to fn is interpreted or havocked.
func (e *tsEngine) shouldInline(fn *types.Func) bool {
	if e.decls[fn] == nil {
		return false
	}
	return e.ancBase[fn] || e.mention[fn] || e.purePanic[fn]
}

// showState renders the tracked state.
func (e *tsEngine) showState(st string) string {
	var parts []string
	cnt := map[string]int{}
	for _, tv := range e.vars {
		cnt[tv.field]++
	}
	for i, tv := range e.vars {
		n := tv.field
		if cnt[n] > 1 {
			n = tv.owner + "." + n
		}
		parts = append(parts, n+"="+tv.show(e.decode(i, st[i])))
	}
	return strings.Join(parts, " ")
}
