package props

import (
	"fmt"
	"go/ast"
	"go/token"
	"go/types"

	"verif/internal/an"
	"verif/internal/load"
)

func init() { register(&Prop{ID: "C05", Run: runC05}) }

type padCase struct {
	lo, hi  int64
	wantLen func(v Lin) (Lin, bool) // expected padding length as a function of the symbolic variable; bool = constant form
	pad     bool
	desc    string
}

func runC05(c *Ctx) {
	r := c.R
	tls := c.P.TLS
	info := tls.TypesInfo
	r.Technique = "abstract execution of the padding policies on affine forms with interval partitioning (all lengths at once); CFG/def-use rules on MarshalClientHelloNoECH, FromRaw and AlwaysAddPadding; encoder layout (E2) for the padding body"
	r.Explanation = "C05.1 BoringPaddingStyle(u): for every u in (255,512) with 512-u ≥ 5 the result p satisfies u+4+p = 512, for 512-u < 5 it is 1, and outside (255,512) no padding; AlwaysPadToLen(n) likewise with n — decided per interval on affine forms, covering every length. " +
		"C05.2 in MarshalClientHelloNoECH the policy receives the length of the unpadded handshake message (4 + header + 2 + extensions without padding), runs before anything is written, the padding extension's own length is added only after the update, and a second padding extension is an error. " +
		"C05.3 FromRaw installs AlwaysPadToLen(len(raw)-5) exactly when a padding extension was parsed; AlwaysAddPadding never adds a second one. " +
		"C05.4 the padding extension's body bytes are never written by its encoder (they are zero on the fresh buffer both in-module call sites provide) and its length field equals the policy's result."
	r.NotDecided = "reproduction of a captured total length on a concrete connection (depends on runtime sizes)"

	// ---- C05.1
	bp := load.FuncDecl(tls, "", "BoringPaddingStyle")
	if bp == nil {
		r.Unknown("C05.1", "BoringPaddingStyle", "", "not found")
	} else {
		u := info.Defs[bp.Type.Params.List[0].Names[0]]
		cases := []padCase{
			{-1 << 20, 255, nil, false, "u ≤ 255: no padding"},
			{256, 507, func(v Lin) (Lin, bool) { return linConst(508).Sub(v), false }, true, "255 < u ≤ 507: u+4+p = 512"},
			{508, 511, func(v Lin) (Lin, bool) { return linConst(1), true }, true, "508 ≤ u < 512: one-byte body"},
			{512, 1 << 24, nil, false, "u ≥ 512: no padding"},
		}
		for _, pc := range cases {
			x := &linExec{info: info, vars: map[types.Object]Lin{u: linAtom("u")}, decide: intervalOracle("u", pc.lo, pc.hi)}
			out := x.run(bp.Body.List)
			c05CheckCase(c, "C05.1", fmt.Sprintf("BoringPaddingStyle[%d..%d]", pc.lo, pc.hi), c.Pos(bp), out, pc, linAtom("u"))
		}
	}
	ap := load.FuncDecl(tls, "", "AlwaysPadToLen")
	if ap == nil {
		r.Unknown("C05.1", "AlwaysPadToLen", "", "not found")
	} else {
		var lit *ast.FuncLit
		ast.Inspect(ap.Body, func(n ast.Node) bool {
			if fl, ok := n.(*ast.FuncLit); ok && lit == nil {
				lit = fl
			}
			return true
		})
		if lit == nil {
			r.Unknown("C05.1", "AlwaysPadToLen", c.Pos(ap), "does not return a function literal")
		} else {
			n := info.Defs[ap.Type.Params.List[0].Names[0]]
			u := info.Defs[lit.Type.Params.List[0].Names[0]]
			// substitute padToLen = u + d so that every condition is a statement about d = padToLen-unpaddedLen
			cases := []padCase{
				{-1 << 24, 0, nil, false, "unpadded ≥ target: no padding"},
				{1, 4, func(v Lin) (Lin, bool) { return linConst(1), true }, true, "fewer than 5 bytes missing: one-byte body"},
				{5, 1 << 24, func(v Lin) (Lin, bool) { return v.AddC(-4), false }, true, "u+4+p = target"},
			}
			for _, pc := range cases {
				x := &linExec{info: info, vars: map[types.Object]Lin{u: linAtom("u"), n: linAtom("u").Add(linAtom("d"))}, decide: intervalOracle("d", pc.lo, pc.hi)}
				out := x.run(lit.Body.List)
				c05CheckCase(c, "C05.1", fmt.Sprintf("AlwaysPadToLen[missing %d..%d]", pc.lo, pc.hi), c.Pos(ap), out, pc, linAtom("d"))
			}
		}
	}
	r.Floor("C05.1", 7)

	// Update applies the policy's two results to PaddingLen, WillPad
	if up := load.FuncDecl(tls, "UtlsPaddingExtension", "Update"); up == nil {
		r.Unknown("C05.2", "UtlsPaddingExtension.Update", "", "not found")
	} else {
		ok := false
		ast.Inspect(up.Body, func(n ast.Node) bool {
			as, isAs := n.(*ast.AssignStmt)
			if !isAs || len(as.Lhs) != 2 || len(as.Rhs) != 1 {
				return true
			}
			call, isCall := as.Rhs[0].(*ast.CallExpr)
			if !isCall || !an.FieldSel(info, an.Unparen(call.Fun), "UtlsPaddingExtension", "GetPaddingLen") {
				return true
			}
			if an.FieldSel(info, an.Unparen(as.Lhs[0]), "UtlsPaddingExtension", "PaddingLen") && an.FieldSel(info, an.Unparen(as.Lhs[1]), "UtlsPaddingExtension", "WillPad") && len(call.Args) == 1 {
				if id, isID := an.Unparen(call.Args[0]).(*ast.Ident); isID && info.Uses[id] == info.Defs[up.Type.Params.List[0].Names[0]] {
					ok = true
				}
			}
			return true
		})
		r.Check(ok, "C05.2", "UtlsPaddingExtension.Update", c.Pos(up), "(PaddingLen, WillPad) = GetPaddingLen(unpaddedLen)", "Update no longer stores the policy's (length, willPad) result for the given unpadded length")
	}
	c05Marshal(c)
	c05FromRaw(c)
	// ---- C05.4 encoder of the padding extension
	for _, e := range tlsExtensions(c) {
		if e.Name == "UtlsPaddingExtension" {
			checkEncoder(c, "C05.4", e)
		}
	}
	c08FreshBuffer(c, "C05.4-fresh")
	r.Floor("C05.4", 5)
}

func c05CheckCase(c *Ctx, rule, cons, pos string, out *linOutcome, pc padCase, v Lin) {
	r := c.R
	if out == nil || out.Kind != "return" || len(out.Ret) != 2 {
		why := "no return"
		if out != nil {
			why = out.Kind + ": " + out.Why
		}
		r.Bad(rule, cons, pos, "the policy does not behave uniformly on this range (%s): %s", pc.desc, why)
		return
	}
	wantPad := triFalse
	if pc.pad {
		wantPad = triTrue
	}
	if out.Bool[1] != wantPad {
		r.Bad(rule, cons, pos, "%s, but the policy reports willPad=%v", pc.desc, out.Bool[1] == triTrue)
		return
	}
	want := linConst(0)
	if pc.wantLen != nil {
		want, _ = pc.wantLen(v)
	}
	r.Check(out.Ret[0].Eq(want), rule, cons, pos, fmt.Sprintf("%s: padding length = %s", pc.desc, out.Ret[0]),
		fmt.Sprintf("%s: expected padding length %s, the code yields %s", pc.desc, want, out.Ret[0]))
}

func c05Marshal(c *Ctx) {
	r := c.R
	info := c.Info()
	fn := c.Fn("C05.2", "UConn", "MarshalClientHelloNoECH")
	if fn == nil {
		return
	}
	upd := fn.FindNodes(an.CallTo(info, Mod, "UtlsPaddingExtension", "Update"))
	if len(upd) != 1 {
		r.Bad("C05.2", "MarshalClientHelloNoECH:Update", c.Pos(fn.Decl), "expected exactly one call to the padding policy, found %d", len(upd))
		return
	}
	call := upd[0].N.(*ast.CallExpr)
	// argument = headerLength + extensionsLen + 6, as a linear form over local variables
	atoms := map[types.Object]string{}
	var lin func(e ast.Expr) (Lin, bool)
	lin = func(e ast.Expr) (Lin, bool) {
		e = an.Unparen(e)
		if v, ok := an.ConstInt(info, e); ok {
			return linConst(v), true
		}
		switch x := e.(type) {
		case *ast.Ident:
			if o := objOf(info, x); o != nil {
				atoms[o] = x.Name
				return linAtom(x.Name), true
			}
		case *ast.BinaryExpr:
			a, ok1 := lin(x.X)
			b, ok2 := lin(x.Y)
			if ok1 && ok2 && x.Op == token.ADD {
				return a.Add(b), true
			}
		}
		return Lin{}, false
	}
	arg, ok := lin(call.Args[0])
	if !ok {
		r.Unknown("C05.2", "MarshalClientHelloNoECH:Update-arg", c.Pos(call), "argument is not a sum of local lengths")
		return
	}
	// identify the two locals: header length (defined from Hello field lengths) and extensions length (accumulated from ext.Len())
	var hdr, exts types.Object
	for o := range atoms {
		isExt := false
		ast.Inspect(fn.Body, func(n ast.Node) bool {
			as, ok := n.(*ast.AssignStmt)
			if !ok || as.Tok != token.ADD_ASSIGN || len(as.Lhs) != 1 {
				return true
			}
			if id, ok := as.Lhs[0].(*ast.Ident); ok && objOf(info, id) == o {
				if call, ok := an.Unparen(as.Rhs[0]).(*ast.CallExpr); ok {
					if se, ok := call.Fun.(*ast.SelectorExpr); ok && se.Sel.Name == "Len" {
						isExt = true
					}
				}
			}
			return true
		})
		if isExt {
			exts = o
		} else {
			hdr = o
		}
	}
	okArg := hdr != nil && exts != nil && arg.C == 6 && arg.T[atoms[hdr]] == 1 && arg.T[atoms[exts]] == 1 && len(arg.T) == 2
	r.Check(okArg, "C05.2", "MarshalClientHelloNoECH:Update-arg", c.Pos(call),
		"policy is given 4 (handshake header) + header + 2 (extensions length) + extensions",
		fmt.Sprintf("the padding policy is given %s, not the length of the unpadded handshake message (header + extensions + 6)", arg))
	if hdr == nil || exts == nil {
		return
	}
	// header length local = 2+32+1+len(SessionId)+2+2*len(CipherSuites)+1+len(CompressionMethods)
	in := &interp{pkg: c.P.TLS, info: info, env: map[types.Object]sval{}, fstore: map[string]sval{}, out: &encShape{}}
	var hdrLin *Lin
	ast.Inspect(fn.Body, func(n ast.Node) bool {
		as, ok := n.(*ast.AssignStmt)
		if !ok || len(as.Lhs) != 1 || len(as.Rhs) != 1 {
			return true
		}
		if id, ok := as.Lhs[0].(*ast.Ident); ok && objOf(info, id) == hdr && as.Tok == token.DEFINE {
			// bind `hello` as a path
			ast.Inspect(as.Rhs[0], func(m ast.Node) bool {
				if x, ok := m.(*ast.Ident); ok {
					if o := objOf(info, x); o != nil {
						if _, isVar := o.(*types.Var); isVar && an.TypeName(o.Type()) == "PubClientHelloMsg" {
							in.env[o] = sval{k: svPath, path: "hello"}
						}
					}
				}
				return true
			})
			v := in.evalInt(as.Rhs[0])
			if v.k == svLin {
				l := v.lin
				hdrLin = &l
			}
		}
		return true
	})
	wantHdr := linConst(38).Add(linAtom("len(hello.SessionId)")).Add(linAtom("len(hello.CipherSuites)").Scale(2)).Add(linAtom("len(hello.CompressionMethods)"))
	if hdrLin == nil {
		r.Unknown("C05.2", "MarshalClientHelloNoECH:header-length", c.Pos(fn.Decl), "header length is not a linear form of the hello's field lengths")
	} else {
		r.Check(hdrLin.Eq(wantHdr), "C05.2", "MarshalClientHelloNoECH:header-length", c.Pos(fn.Decl), "header length = "+hdrLin.String(),
			fmt.Sprintf("header length is %s, the ClientHello body before extensions is %s", hdrLin, wantHdr))
	}
	// the padding extension's own length is added after the update, the others before; nothing is written before
	var padAdd, otherAdd []an.Point
	for _, h := range fn.FindNodes(func(n ast.Node) bool {
		as, ok := n.(*ast.AssignStmt)
		if !ok || as.Tok != token.ADD_ASSIGN || len(as.Lhs) != 1 {
			return false
		}
		id, ok := as.Lhs[0].(*ast.Ident)
		return ok && objOf(info, id) == exts
	}) {
		as := h.N.(*ast.AssignStmt)
		isPad := false
		if call, ok := an.Unparen(as.Rhs[0]).(*ast.CallExpr); ok {
			if se, ok := call.Fun.(*ast.SelectorExpr); ok {
				isPad = an.TypeName(info.TypeOf(se.X)) == "UtlsPaddingExtension"
			}
		}
		if isPad {
			padAdd = append(padAdd, h.P)
		} else {
			otherAdd = append(otherAdd, h.P)
		}
	}
	okOrder := len(padAdd) == 1 && len(otherAdd) >= 1
	for _, p := range padAdd {
		if !fn.MustPass(p, []an.Point{upd[0].P}, nil) {
			okOrder = false
		}
	}
	for _, p := range otherAdd {
		if fn.Reachable(upd[0].P, p) {
			okOrder = false
		}
	}
	r.Check(okOrder, "C05.2", "MarshalClientHelloNoECH:padding-counted-after-update", c.Pos(call), "non-padding extension lengths are summed before the policy runs and the padding extension's length is added after it",
		"the length handed to the policy includes (or misses) the wrong extensions: padding must be sized from the unpadded length and then added")
	writes := fn.Find(func(n ast.Node) bool {
		cl, ok := n.(*ast.CallExpr)
		if !ok {
			return false
		}
		f, _ := an.Callee(info, cl).(*types.Func)
		return f != nil && f.Pkg() != nil && (f.Pkg().Path() == "encoding/binary" && f.Name() == "Write" || f.Pkg().Path() == "bufio" && f.Name() == "ReadFrom")
	})
	okBefore := len(writes) > 0
	for _, w := range writes {
		if fn.Reachable(w, upd[0].P) {
			okBefore = false
		}
	}
	r.Check(okBefore, "C05.2", "MarshalClientHelloNoECH:update-before-output", c.Pos(call), "padding is sized before any byte is emitted", "bytes are emitted before the padding length is decided")
	// duplicates rejected: inside the loop over the extensions, the outcome "a padding
	// extension was already seen" of a nil test of the tracking variable leaves the function
	// with an error, and the tracking variable is stored only behind the other outcome.
	dupErr, dupWhy := false, "no test of an already-seen padding extension inside the loop over uconn.Extensions"
	var loop *ast.RangeStmt
	ast.Inspect(fn.Body, func(n ast.Node) bool {
		if rs, ok := n.(*ast.RangeStmt); ok && loop == nil && an.FieldSel(info, an.Unparen(rs.X), "UConn", "Extensions") {
			loop = rs
		}
		return true
	})
	if loop != nil {
		inLoop := func(n ast.Node) bool { return n != nil && loop.Body.Pos() <= n.Pos() && n.End() <= loop.Body.End() }
		var tracked types.Object
		pass, fail, _ := condEdges(fn, func(cond ast.Expr) (bool, bool) {
			if !inLoop(cond) {
				return false, false
			}
			var v types.Object
			op, ok := an.BinaryWith(an.Unparen(cond), func(e ast.Expr) bool {
				id, ok := an.Unparen(e).(*ast.Ident)
				if ok && an.TypeName(info.TypeOf(id)) == "UtlsPaddingExtension" {
					v = objOf(info, id)
					return true
				}
				return false
			}, func(e ast.Expr) bool { return an.IsNilIdent(info, e) })
			if !ok || (op != token.EQL && op != token.NEQ) {
				return false, false
			}
			tracked = v
			return true, op == token.EQL
		})
		if len(fail) > 0 && tracked != nil {
			dupErr, dupWhy = true, ""
			for _, fe := range fail {
				if ok, why := failEdgeExits(fn, fe, nil); !ok {
					dupErr, dupWhy = false, "a second padding extension does not make marshalling fail: "+why
				}
			}
			nStores := 0
			for _, h := range fn.FindNodes(an.AssignsTo(func(e ast.Expr) bool {
				id, ok := an.Unparen(e).(*ast.Ident)
				return ok && objOf(info, id) == tracked
			})) {
				if !inLoop(h.N) {
					continue
				}
				nStores++
				if !fn.MustPass(h.P, nil, pass) {
					dupErr, dupWhy = false, "the padding extension is recorded without testing that none was seen before"
				}
			}
			if nStores == 0 {
				dupErr, dupWhy = false, "the loop never records the padding extension it found"
			}
		}
	}
	r.Check(dupErr, "C05.2", "MarshalClientHelloNoECH:duplicate-padding-rejected", c.Pos(fn.Decl), "a second padding extension makes marshalling fail", "a spec with two padding extensions is no longer rejected ("+dupWhy+")")
	r.Floor("C05.2", 6)
}

func c05FromRaw(c *Ctx) {
	r := c.R
	info := c.Info()
	fn := c.Fn("C05.3", "ClientHelloSpec", "FromRaw")
	if fn == nil {
		return
	}
	raw := info.Defs[fn.Decl.Type.Params.List[0].Names[0]]
	found := false
	for _, h := range fn.FindNodes(an.CallTo(info, Mod, "", "AlwaysPadToLen")) {
		call := h.N.(*ast.CallExpr)
		be, ok := an.Unparen(inlineLocal(fn, call.Args[0])).(*ast.BinaryExpr)
		okArg := false
		if ok && be.Op == token.SUB {
			if k, ok := an.ConstInt(info, be.Y); ok && k == 5 {
				if lc, ok := an.Unparen(be.X).(*ast.CallExpr); ok && len(lc.Args) == 1 {
					if id, ok := lc.Fun.(*ast.Ident); ok && id.Name == "len" {
						if a, ok := an.Unparen(lc.Args[0]).(*ast.Ident); ok && info.Uses[a] == raw {
							okArg = true
						}
					}
				}
			}
		}
		found = true
		r.Check(okArg, "C05.3", "FromRaw:pad-to-captured-length", c.Pos(call), "pads to len(raw)-5, the captured handshake message length (record header removed)", "the captured padding target is not len(raw)-5 (the record minus its 5-byte header)")
		// assigned to GetPaddingLen of a value asserted to *UtlsPaddingExtension, under that assertion's ok edge
		as, ok := h.P.Node().(*ast.AssignStmt)
		okDst := ok && len(as.Lhs) == 1 && an.FieldSel(info, an.Unparen(as.Lhs[0]), "UtlsPaddingExtension", "GetPaddingLen")
		r.Check(okDst, "C05.3", "FromRaw:policy-installed", c.Pos(call), "installed as the parsed padding extension's policy", "AlwaysPadToLen's result is not installed as the padding extension's GetPaddingLen")
		pass, _, _ := condEdges(fn, func(cond ast.Expr) (bool, bool) {
			id, ok := cond.(*ast.Ident)
			return ok && id.Name == "ok", true
		})
		r.Check(len(pass) > 0 && fn.MustPass(h.P, nil, pass), "C05.3", "FromRaw:only-when-padding-parsed", c.Pos(call), "only when an extension of the spec is a *UtlsPaddingExtension", "the fixed-length policy is installed even when the capture had no padding extension")
	}
	if !found {
		r.Bad("C05.3", "FromRaw:pad-to-captured-length", c.Pos(fn.Decl), "FromRaw no longer installs AlwaysPadToLen for a captured padding extension: the fingerprinted spec cannot reproduce the captured length")
	}
	// AlwaysAddPadding: appends/inserts a padding extension only when none is present
	ap := c.Fn("C05.3", "ClientHelloSpec", "AlwaysAddPadding")
	if ap != nil {
		// the flag: a bool local set to true in the branch that found a *UtlsPaddingExtension
		var flag types.Object
		ast.Inspect(ap.Body, func(n ast.Node) bool {
			is, ok := n.(*ast.IfStmt)
			if !ok || is.Init == nil {
				return true
			}
			as, ok := is.Init.(*ast.AssignStmt)
			if !ok || len(as.Rhs) != 1 {
				return true
			}
			ta, ok := an.Unparen(as.Rhs[0]).(*ast.TypeAssertExpr)
			if !ok || an.TypeName(info.TypeOf(ta.Type)) != "UtlsPaddingExtension" {
				return true
			}
			for _, st := range is.Body.List {
				if a2, ok := st.(*ast.AssignStmt); ok && len(a2.Lhs) == 1 && len(a2.Rhs) == 1 {
					if v, ok := an.Unparen(a2.Rhs[0]).(*ast.Ident); ok && v.Name == "true" {
						if l, ok := a2.Lhs[0].(*ast.Ident); ok {
							flag = objOf(info, l)
						}
					}
				}
			}
			return true
		})
		if flag == nil {
			r.Bad("C05.3", "AlwaysAddPadding:no-duplicate", c.Pos(ap.Decl), "AlwaysAddPadding no longer records that the spec already contains a padding extension")
		} else {
			pass, _, _ := condEdges(ap, func(cond ast.Expr) (bool, bool) {
				x, neg := negated(cond)
				id, ok := x.(*ast.Ident)
				return ok && objOf(info, id) == flag, !neg == false
			})
			var loop *ast.RangeStmt
			ast.Inspect(ap.Body, func(n ast.Node) bool {
				if rs, ok := n.(*ast.RangeStmt); ok && loop == nil {
					loop = rs
				}
				return true
			})
			okAdd := true
			nAdds := 0
			for _, a := range ap.FindNodes(func(n ast.Node) bool {
				cl, ok := n.(*ast.CompositeLit)
				return ok && an.TypeName(info.TypeOf(cl)) == "UtlsPaddingExtension"
			}) {
				nAdds++
				inLoop := loop != nil && a.N.Pos() >= loop.Body.Pos() && a.N.End() <= loop.Body.End()
				if inLoop {
					continue // insertion before pre_shared_key: reached only while no padding extension has been seen (the loop leaves on the first one)
				}
				if len(pass) == 0 || !ap.MustPass(a.P, nil, pass) {
					okAdd = false
				}
			}
			r.Check(okAdd && nAdds >= 1, "C05.3", "AlwaysAddPadding:no-duplicate", c.Pos(ap.Decl), "after the scan a padding extension is appended only when none was found", "AlwaysAddPadding appends a padding extension without checking that the spec has none")
		}
	}
	r.Floor("C05.3", 4)
}
