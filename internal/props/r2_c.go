package props

// Rules added after the second round of independently written breaking changes (seeded/C18-3,
// C18-4, C19-3, C19-4, C20-3, C20-4, C21-3, C21-4, C32-4) showed a gap. One function per rule;
// each names the change that motivated it and says why it is a necessary condition.

import (
	"fmt"
	"go/ast"
	"go/constant"
	"go/token"
	"go/types"
	"reflect"
	"sort"
	"strings"

	"verif/internal/an"
	"verif/internal/load"
	"verif/internal/report"

	"golang.org/x/tools/go/cfg"
)

func init() {
	registerExtra("C18", c18DecoderDropsKeyData)
	registerExtra("C18", c18FullReads)
	registerExtra("C19", c19BindersFollowState)
	registerExtra("C19", c19SNIFeedsCacheKey)
	registerExtra("C20", c20SetSessionStateInitialized)
	registerExtra("C20", c20SettersRefuseDisabledSessions)
	registerExtra("C21", c21ExtensionStillOffered)
	registerExtra("C21", c21BoundAdmitsLimit)
	registerExtra("C32", c32JSONRoleAgreement)
}

// ---- small shared helpers ----------------------------------------------------------------------

// stripConv removes parentheses and type conversions.
func stripConv(info *types.Info, e ast.Expr) ast.Expr {
	for {
		e = an.Unparen(e)
		if cv, ok := e.(*ast.CallExpr); ok && len(cv.Args) == 1 {
			if tv, ok := info.Types[cv.Fun]; ok && tv.IsType() {
				e = cv.Args[0]
				continue
			}
		}
		return e
	}
}

// wholeUses lists the sub-expressions of n in which obj is used as a whole value (not as the base
// of a field selection, not as the operand of &, not as an assignment target).
func wholeUses(info *types.Info, n ast.Node, obj types.Object) []*ast.Ident {
	skip := map[*ast.Ident]bool{}
	var out []*ast.Ident
	an.Inner(n, func(x ast.Node) bool {
		switch v := x.(type) {
		case *ast.SelectorExpr:
			if id, ok := an.Unparen(v.X).(*ast.Ident); ok {
				skip[id] = true
			}
		case *ast.UnaryExpr:
			if v.Op == token.AND {
				if id, ok := an.Unparen(v.X).(*ast.Ident); ok {
					skip[id] = true
				}
			}
		case *ast.AssignStmt:
			for _, l := range v.Lhs {
				if id, ok := an.Unparen(l).(*ast.Ident); ok {
					skip[id] = true
				}
			}
		case *ast.ValueSpec:
			for _, id := range v.Names {
				skip[id] = true
			}
		case *ast.Ident:
			if !skip[v] && info.Uses[v] == obj {
				out = append(out, v)
			}
		}
		return true
	})
	return out
}

// isNilExpr: the predeclared nil, possibly converted.
func isNilExpr(info *types.Info, e ast.Expr) bool { return an.IsNilIdent(info, stripConv(info, e)) }

// ---- C18.7 (seeded C18-3): the raw-bytes decoder keeps key-share data of GREASE shares only -----

// c18DecoderDropsKeyData decides the clause "each non-GREASE key share carries a freshly generated
// public key" for specs obtained by fingerprinting. ApplyPreset generates a key only for a share
// whose Data is empty (len(Data) > 1 means "use as given"), so whatever KeyShareExtension.Write
// keeps from the captured hello is replayed on every connection with no private key behind it.
// Necessary condition: on every path from the place where the captured key_exchange bytes are
// read into a share to the place where the share is kept, either the data is cleared or a test has
// established that the group is the GREASE placeholder. A guard on "can ApplyPreset generate this
// group" (curveForCurveID) lets the hybrid groups through, which ApplyPreset does generate.
func c18DecoderDropsKeyData(c *Ctx) {
	r := c.R
	info := c.Info()
	fn := c.Fn("C18.7", "KeyShareExtension", "Write")
	if fn == nil {
		return
	}
	defer r.Floor("C18.7", 1)
	greaseVal, okG := constOf(c, "GREASE_PLACEHOLDER")
	if !okG {
		r.Unknown("C18.7", "KeyShareExtension.Write:grease-constant", c.Pos(fn.Decl), "constant GREASE_PLACEHOLDER not found")
		return
	}
	// KeyShare-typed locals of the decoder
	var shares []types.Object
	seen := map[types.Object]bool{}
	an.Inner(fn.Body, func(x ast.Node) bool {
		id, ok := x.(*ast.Ident)
		if !ok {
			return true
		}
		o, isVar := info.Defs[id].(*types.Var)
		if isVar && !o.IsField() && !seen[o] && an.TypeName(o.Type()) == "KeyShare" {
			if _, isPtr := o.Type().(*types.Pointer); !isPtr {
				seen[o] = true
				shares = append(shares, o)
			}
		}
		return true
	})
	isDataOf := func(e ast.Expr, o types.Object) bool {
		se, ok := an.Unparen(e).(*ast.SelectorExpr)
		if !ok || !an.FieldSel(info, se, "KeyShare", "Data") {
			return false
		}
		id, ok := an.Unparen(se.X).(*ast.Ident)
		return ok && objOf(info, id) == o
	}
	n := 0
	for _, ks := range shares {
		// objects the group of this share is computed from (ks itself and the locals feeding ks.Group)
		groupSrc := map[types.Object]bool{ks: true}
		an.Inner(fn.Body, func(x ast.Node) bool {
			as, ok := x.(*ast.AssignStmt)
			if !ok || len(as.Lhs) != len(as.Rhs) {
				return true
			}
			for i, l := range as.Lhs {
				se, ok := an.Unparen(l).(*ast.SelectorExpr)
				if !ok || !an.FieldSel(info, se, "KeyShare", "Group") {
					continue
				}
				if id, ok := an.Unparen(se.X).(*ast.Ident); !ok || objOf(info, id) != ks {
					continue
				}
				ast.Inspect(as.Rhs[i], func(y ast.Node) bool {
					if id, ok := y.(*ast.Ident); ok {
						if v, isVar := info.Uses[id].(*types.Var); isVar && !v.IsField() {
							groupSrc[v] = true
						}
					}
					return true
				})
			}
			return true
		})
		aboutGroup := func(e ast.Expr) bool {
			for o := range groupSrc {
				if o == ks {
					// only through ks.Group
					if an.Contains(e, func(y ast.Node) bool {
						se, ok := y.(*ast.SelectorExpr)
						if !ok || !an.FieldSel(info, se, "KeyShare", "Group") {
							return false
						}
						id, ok := an.Unparen(se.X).(*ast.Ident)
						return ok && objOf(info, id) == ks
					}) {
						return true
					}
					continue
				}
				if mentionsThroughLocals(fn, e, o, 0) {
					return true
				}
			}
			return false
		}
		// fills: &ks.Data handed to a reader, or ks.Data = <non-nil>
		fills := fn.Find(func(x ast.Node) bool {
			switch v := x.(type) {
			case *ast.UnaryExpr:
				return v.Op == token.AND && isDataOf(v.X, ks)
			case *ast.AssignStmt:
				for i, l := range v.Lhs {
					if isDataOf(l, ks) && (len(v.Rhs) != len(v.Lhs) || !isNilExpr(info, v.Rhs[i])) {
						return true
					}
				}
			}
			return false
		})
		if len(fills) == 0 {
			continue
		}
		clears := fn.Find(func(x ast.Node) bool {
			as, ok := x.(*ast.AssignStmt)
			if !ok || len(as.Lhs) != len(as.Rhs) {
				return false
			}
			for i, l := range as.Lhs {
				if isDataOf(l, ks) && isNilExpr(info, as.Rhs[i]) {
					return true
				}
			}
			return false
		})
		grease, _, _ := condEdges(fn, func(cond ast.Expr) (bool, bool) {
			x, _ := negated(cond)
			if call, ok := x.(*ast.CallExpr); ok && an.IsCallTo(info, call, Mod, "", "isGREASEUint16") && len(call.Args) == 1 && aboutGroup(call.Args[0]) {
				return true, true
			}
			be, ok := an.Unparen(cond).(*ast.BinaryExpr)
			if !ok || (be.Op != token.EQL && be.Op != token.NEQ) {
				return false, false
			}
			for _, pr := range [][2]ast.Expr{{be.X, be.Y}, {be.Y, be.X}} {
				if v, isC := an.ConstInt(info, pr[1]); isC && v == greaseVal && aboutGroup(pr[0]) {
					return true, be.Op == token.EQL
				}
			}
			return false, false
		})
		// keeps: the share used as a whole value (appended, stored, returned)
		for _, b := range fn.G.Blocks {
			if !b.Live {
				continue
			}
			for i, node := range b.Nodes {
				for _, id := range wholeUses(info, node, ks) {
					n++
					p := an.Point{B: b, I: i}
					ok := true
					for _, f := range fills {
						if f == p {
							continue
						}
						if !fn.MustPassFrom(f, p, clears, grease) {
							ok = false
						}
					}
					r.Check(ok, "C18.7", "KeyShareExtension.Write:captured-key-dropped:"+ks.Name(), c.Pos(id),
						"a share is kept with its captured key_exchange bytes only behind the GREASE-placeholder test; otherwise Data is cleared first",
						"a non-GREASE key share can be kept with the key_exchange bytes of the captured ClientHello (no path-wide `"+ks.Name()+".Data = nil` and no GREASE test on the way): ApplyPreset treats non-empty Data as \"use as given\", so the captured public key is replayed on every connection without a private key")
				}
			}
		}
	}
	if n == 0 {
		// literal form: KeyShare{Group: g, Data: d} appended directly
		for _, h := range fn.FindNodes(func(x ast.Node) bool {
			cl, ok := x.(*ast.CompositeLit)
			return ok && an.TypeName(info.TypeOf(cl)) == "KeyShare"
		}) {
			cl := h.N.(*ast.CompositeLit)
			var data ast.Expr
			for i, el := range cl.Elts {
				if kv, ok := el.(*ast.KeyValueExpr); ok {
					if k, ok := kv.Key.(*ast.Ident); ok && k.Name == "Data" {
						data = kv.Value
					}
				} else if i == 1 {
					data = el
				}
			}
			if data == nil || isNilExpr(info, data) {
				n++
				r.Ok("C18.7", "KeyShareExtension.Write:captured-key-dropped:literal", c.Pos(cl), "the share is built without data")
				continue
			}
			n++
			r.Unknown("C18.7", "KeyShareExtension.Write:captured-key-dropped:literal", c.Pos(cl), "a KeyShare literal with Data %s is built in the decoder; this form is not analysed", an.Str(data))
		}
	}
	if n == 0 {
		r.Ok("C18.7", "KeyShareExtension.Write:captured-key-dropped", c.Pos(fn.Decl), "the decoder never stores key_exchange bytes into a share")
	}
}

// ---- C18.8 (seeded C18-4): randoms and key seeds are filled with full reads ----------------------

// c18FullReads decides the clause "client randoms / key shares never repeat across connections"
// for entropy sources whose Read legally returns fewer bytes than asked for (io.Reader contract):
// a single Read on config.rand() leaves the rest of the buffer zero, so with a chunked Config.Rand
// only the first bytes of the random (session id, ML-KEM seed) vary. Necessary condition: on the
// path that builds a ClientHello, the value of config.rand() is only ever handed to io.ReadFull
// (or io.ReadAtLeast with the full length), or passed on as an io.Reader argument to a key
// generator; it is never the receiver of a bare Read. Where the hello is created with its 32-byte
// random already allocated, a full read into it lies on every successful path (ApplyPreset only
// fills an empty random).
func c18FullReads(c *Ctx) {
	r := c.R
	info := c.Info()
	defer r.Floor("C18.8", 8)
	cg := c.buildCallGraph()
	var roots []*types.Func
	for _, a := range [][2]string{{"UConn", "buildHandshakeState"}, {"UConn", "ApplyPreset"}, {"Conn", "makeClientHelloForApplyPreset"}} {
		if f := c.methodObj(a[0], a[1]); f != nil {
			roots = append(roots, f)
		} else {
			r.Unknown("C18.8", a[0]+"."+a[1], "", "anchor function not found")
		}
	}
	reach := cg.reach(roots...)
	isRand := func(n ast.Node) bool { return an.IsCallTo(info, n, Mod, "Config", "rand") }
	var fds []*ast.FuncDecl
	for f := range reach {
		fd := cg.decl[f]
		if fd == nil || fd.Body == nil {
			continue
		}
		file := baseName(c.P.Fset.Position(fd.Pos()).Filename)
		if strings.Contains(file, "server") {
			continue // the server side of the package shares helpers with the client path
		}
		if an.Contains(fd.Body, isRand) {
			fds = append(fds, fd)
		}
	}
	sort.Slice(fds, func(i, j int) bool { return fds[i].Pos() < fds[j].Pos() })
	ioFunc := func(call *ast.CallExpr, name string) bool {
		f, _ := an.Callee(info, call).(*types.Func)
		return f != nil && f.Pkg() != nil && f.Pkg().Path() == "io" && f.Name() == name && f.Type().(*types.Signature).Recv() == nil
	}
	for _, fd := range fds {
		fn := an.NewFn(c.P.TLS, fd)
		who := fd.Name.Name
		ord := map[string]int{}
		key := func(kind, what string) string {
			k := who + ":" + kind + ":" + what
			ord[k]++
			if ord[k] > 1 {
				k += fmt.Sprintf("#%d", ord[k])
			}
			return k
		}
		// sources: config.rand() calls and single-definition locals bound to one
		isSrc := func(e ast.Expr) bool {
			e = an.Unparen(e)
			if isRand(e) {
				return true
			}
			if d := inlineLocal(fn, e); d != e && isRand(an.Unparen(d)) {
				return true
			}
			return false
		}
		handled := map[ast.Node]bool{}
		ast.Inspect(fd.Body, func(x ast.Node) bool {
			call, ok := x.(*ast.CallExpr)
			if !ok {
				return true
			}
			// receiver of a method call: src.Read(buf)
			if se, ok := call.Fun.(*ast.SelectorExpr); ok && isSrc(se.X) {
				handled[an.Unparen(se.X)] = true
				if se.Sel.Name == "Read" && len(call.Args) == 1 {
					// a hand-written fill loop reads into the unfilled tail: for … { r.Read(buf[n:]) }
					inLoop := false
					if sl, isSl := an.Unparen(call.Args[0]).(*ast.SliceExpr); isSl && sl.Low != nil {
						if _, isConst := an.ConstInt(info, sl.Low); !isConst {
							ast.Inspect(fd.Body, func(l ast.Node) bool {
								if _, isFor := l.(*ast.ForStmt); isFor && l.Pos() <= call.Pos() && call.End() <= l.End() {
									inLoop = true
								}
								return true
							})
						}
					}
					k := key("full-read", shortExpr(call.Args[0]))
					if inLoop {
						r.Unknown("C18.8", k, c.Pos(call), "Read on config.rand() inside a loop: whether the loop fills the buffer is not analysed")
					} else {
						r.Bad("C18.8", k, c.Pos(call), "%s is filled with a single Read on config.rand(): an io.Reader may return fewer bytes than asked for without an error, the rest of the buffer stays zero, and with a chunked Config.Rand the value repeats across connections (use io.ReadFull)", an.Str(call.Args[0]))
					}
				} else {
					r.Unknown("C18.8", key("use", se.Sel.Name), c.Pos(call), "config.rand() is the receiver of %s", se.Sel.Name)
				}
				return true
			}
			for i, a := range call.Args {
				if !isSrc(a) {
					continue
				}
				handled[an.Unparen(a)] = true
				switch {
				case ioFunc(call, "ReadFull") && i == 0 && len(call.Args) == 2:
					r.Ok("C18.8", key("full-read", shortExpr(call.Args[1])), c.Pos(call), "filled with io.ReadFull(config.rand(), …)")
				case ioFunc(call, "ReadAtLeast") && i == 0 && len(call.Args) == 3:
					full := false
					if lc, ok := an.Unparen(call.Args[2]).(*ast.CallExpr); ok && len(lc.Args) == 1 {
						if id, ok := lc.Fun.(*ast.Ident); ok && id.Name == "len" && an.Str(lc.Args[0]) == an.Str(call.Args[1]) {
							full = true
						}
					}
					r.Check(full, "C18.8", key("full-read", shortExpr(call.Args[1])), c.Pos(call), "filled with io.ReadAtLeast(…, len(buf))",
						"io.ReadAtLeast on config.rand() with a minimum other than the buffer length: the tail of "+an.Str(call.Args[1])+" may stay zero")
				default:
					// handed on as an io.Reader parameter (key generators, signers)
					callee, _ := an.Callee(info, call).(*types.Func)
					name := an.Str(call.Fun)
					if callee != nil {
						name = callee.Name()
					}
					okParam := false
					if tv, has := info.Types[call.Fun]; has {
						if sig, isSig := tv.Type.Underlying().(*types.Signature); isSig && i < sig.Params().Len() {
							if _, isI := sig.Params().At(i).Type().Underlying().(*types.Interface); isI {
								okParam = true
							}
						}
					}
					if okParam {
						r.Ok("C18.8", key("generator", name), c.Pos(call), "config.rand() is passed on as the entropy source of %s", name)
					} else {
						r.Unknown("C18.8", key("use", name), c.Pos(call), "config.rand() is an argument of %s in a form that is not recognised", name)
					}
				}
			}
			return true
		})
		// any other use of a config.rand() call (stored in a field, returned, …)
		ast.Inspect(fd.Body, func(x ast.Node) bool {
			call, ok := x.(*ast.CallExpr)
			if !ok || !isRand(call) || handled[call] {
				return true
			}
			// bound to a single-definition local whose uses were classified above
			bound := false
			ast.Inspect(fd.Body, func(y ast.Node) bool {
				if as, ok := y.(*ast.AssignStmt); ok && len(as.Lhs) == 1 && len(as.Rhs) == 1 && an.Unparen(as.Rhs[0]) == ast.Expr(call) {
					if id, ok := as.Lhs[0].(*ast.Ident); ok && inlineLocal(fn, id) != ast.Expr(id) {
						bound = true
					}
				}
				return true
			})
			if !bound {
				r.Unknown("C18.8", key("use", "other"), c.Pos(call), "a use of config.rand() that is neither a full read nor an entropy argument")
			}
			return true
		})
	}
	// the random allocated by makeClientHelloForApplyPreset is filled on every successful path
	if mk := c.Fn("C18.8", "Conn", "makeClientHelloForApplyPreset"); mk != nil {
		allocated := false
		ast.Inspect(mk.Body, func(x ast.Node) bool {
			cl, ok := x.(*ast.CompositeLit)
			if !ok || an.TypeName(info.TypeOf(cl)) != "clientHelloMsg" {
				return true
			}
			for _, el := range cl.Elts {
				if kv, ok := el.(*ast.KeyValueExpr); ok {
					if k, ok := kv.Key.(*ast.Ident); ok && k.Name == "random" && !isNilExpr(info, kv.Value) {
						allocated = true
					}
				}
			}
			return true
		})
		cons := "makeClientHelloForApplyPreset:random-filled"
		if !allocated {
			r.Ok("C18.8", cons, c.Pos(mk.Decl), "the hello starts with an empty random, which ApplyPreset fills")
		} else {
			fillsRandom := mk.Find(func(x ast.Node) bool {
				call, ok := x.(*ast.CallExpr)
				if !ok || len(call.Args) < 2 || !(ioFunc(call, "ReadFull") || ioFunc(call, "ReadAtLeast")) {
					return false
				}
				src := an.Unparen(call.Args[0])
				if !isRand(src) {
					if d := inlineLocal(mk, src); !isRand(an.Unparen(d)) {
						return false
					}
				}
				return an.MentionsField(info, call.Args[1], "clientHelloMsg", "random")
			})
			ok := len(fillsRandom) > 0
			for _, ret := range mk.Returns() {
				if returnsError(mk, ret.Node().(*ast.ReturnStmt)) {
					continue
				}
				if !mk.MustPass(ret, fillsRandom, nil) {
					ok = false
				}
			}
			r.Check(ok, "C18.8", cons, c.Pos(mk.Decl), "every successful return lies behind a full read of config.rand() into hello.random",
				"makeClientHelloForApplyPreset can return a hello whose pre-allocated 32-byte random was not filled by a full read from config.rand(): ApplyPreset only fills an empty random, so the bytes on the wire are (partly) zero and repeat")
		}
	}
}

// ---- C19.8 (seeded C19-3): the binder is recomputed whenever a PSK is on the hello --------------

// c19Val is a value of the three-valued evaluator below.
type c19Val struct {
	k string // "", "bool", "int", "nil", "nonnil"
	b bool
	n int64
}

// c19BindersFollowState decides the clause "when present, pre_shared_key's binder verifies". The
// hello is marshalled again on every BuildHandshakeState/Handshake, and the only place where the
// binders are recomputed over the new bytes is uApplyPatch -> updateBinders, guarded by
// shouldUpdateBinders(). Necessary condition: with a PSK extension owned by the controller and
// the state PskExtInitialized or PskExtAllSet, shouldUpdateBinders() returns true whatever the
// other controller fields hold (in particular `locked`, which is true from the first successful
// BuildHandshakeState on): otherwise a hello edited after BuildHandshakeState goes out with a
// binder computed over the old bytes, and in PskExtInitialized the loaded session is never
// installed. Decided by evaluating the function body for every such valuation (three-valued;
// `locked` is enumerated, restricted to the states finalCheck admits when it locks).
func c19BindersFollowState(c *Ctx) {
	r := c.R
	info := c.Info()
	tls := c.P.TLS
	defer r.Floor("C19.8", 4)
	fn := c.Fn("C19.8", "sessionController", "shouldUpdateBinders")
	if fn == nil {
		return
	}
	stConst := func(name string) (int64, bool) { return constOf(c, name) }
	vInit, ok1 := stConst("PskExtInitialized")
	vAll, ok2 := stConst("PskExtAllSet")
	if !ok1 || !ok2 {
		r.Unknown("C19.8", "shouldUpdateBinders:states", c.Pos(fn.Decl), "constants PskExtInitialized/PskExtAllSet not found")
		return
	}
	// the states in which `locked` can be true: the constants finalCheck asserts before locking
	lockedStates := map[int64]bool{}
	lockedKnown := false
	for _, fd := range load.AllFuncDecls(tls) {
		if load.RecvName(fd) != "sessionController" || fd.Body == nil {
			continue
		}
		setsLocked := an.Contains(fd.Body, func(n ast.Node) bool {
			as, ok := n.(*ast.AssignStmt)
			if !ok {
				return false
			}
			for _, l := range as.Lhs {
				if an.FieldSel(info, an.Unparen(l), "sessionController", "locked") {
					return true
				}
			}
			return false
		})
		if !setsLocked {
			continue
		}
		ast.Inspect(fd.Body, func(n ast.Node) bool {
			call, ok := n.(*ast.CallExpr)
			if !ok || !an.IsCallTo(info, call, Mod, "sessionController", "assertControllerState") {
				return true
			}
			lockedKnown = true
			for _, a := range call.Args[1:] {
				if v, ok := an.ConstInt(info, a); ok {
					lockedStates[v] = true
				}
			}
			return true
		})
	}
	type valuation struct {
		name   string
		state  int64
		locked bool
	}
	var vals []valuation
	for _, s := range []struct {
		n string
		v int64
	}{{"PskExtInitialized", vInit}, {"PskExtAllSet", vAll}} {
		vals = append(vals, valuation{s.n + ":unlocked", s.v, false})
		if !lockedKnown || lockedStates[s.v] {
			vals = append(vals, valuation{s.n + ":locked", s.v, true})
		}
	}
	for _, v := range vals {
		ev := &c19Eval{c: c, state: v.state, locked: v.locked, recv: map[types.Object]bool{}}
		if fn.Decl.Recv != nil && len(fn.Decl.Recv.List) == 1 && len(fn.Decl.Recv.List[0].Names) == 1 {
			ev.recv[info.Defs[fn.Decl.Recv.List[0].Names[0]]] = true
		}
		res, at := ev.run(fn)
		cons := "shouldUpdateBinders:" + v.name
		switch res.k {
		case "bool":
			r.Check(res.b, "C19.8", cons, c.Pos(at), "returns true: the binders are recomputed over the hello that is about to be written",
				"with a PSK extension set, shouldUpdateBinders() returns false in state "+strings.Replace(v.name, ":", " (", 1)+"): the hello re-marshalled by BuildHandshakeState/Handshake keeps the binder computed over its previous bytes (any edit in between makes the server reject it with decrypt_error), or the loaded PSK is never installed")
		default:
			r.Unknown("C19.8", cons, c.Pos(at), "the result could not be evaluated (%s)", strings.Join(ev.why, "; "))
		}
	}
	// the recomputation itself is guarded by that predicate only
	if up := c.Fn("C19.8", "UConn", "uApplyPatch"); up != nil {
		calls := up.Find(an.CallTo(info, Mod, "sessionController", "updateBinders"))
		if len(calls) == 0 {
			r.Bad("C19.8", "uApplyPatch:updateBinders-guard", c.Pos(up.Decl), "uApplyPatch no longer recomputes the binders")
		}
		for _, p := range calls {
			var offending []string
			for _, cc := range controllingConds(up, p) {
				for _, a := range condAtoms(cc.cond) {
					if !isBoolAtom(info, a) {
						continue
					}
					x := an.Unparen(inlineLocal(up, a))
					x, _ = negated(x)
					if call, ok := x.(*ast.CallExpr); ok && an.IsCallTo(info, call, Mod, "sessionController", "shouldUpdateBinders") {
						continue
					}
					if be, ok := an.Unparen(a).(*ast.BinaryExpr); ok && an.IsNilIdent(info, be.Y) {
						if t := info.TypeOf(be.X); t != nil && t.String() == "error" {
							continue
						}
					}
					offending = append(offending, an.Str(a))
				}
			}
			r.Check(len(offending) == 0, "C19.8", "uApplyPatch:updateBinders-guard", c.PosP(p), "the binders are recomputed whenever shouldUpdateBinders() holds",
				fmt.Sprintf("recomputing the binders additionally depends on %v: when that fails the re-marshalled hello keeps a stale binder", offending))
		}
	}
}

type c19Eval struct {
	c      *Ctx
	state  int64
	locked bool
	recv   map[types.Object]bool // identifiers denoting the controller
	why    []string
	depth  int
}

func (e *c19Eval) unknown(format string, a ...any) c19Val {
	s := fmt.Sprintf(format, a...)
	for _, w := range e.why {
		if w == s {
			return c19Val{}
		}
	}
	e.why = append(e.why, s)
	return c19Val{}
}

// run walks fn's CFG taking only the edges the valuation allows and combines the values of the
// reached return statements: all true -> true, some false -> false, otherwise unknown.
func (e *c19Eval) run(fn *an.Fn) (c19Val, ast.Node) {
	seen := map[*cfg.Block]bool{}
	var work []*cfg.Block
	push := func(b *cfg.Block) {
		if !seen[b] {
			seen[b] = true
			work = append(work, b)
		}
	}
	push(fn.Entry())
	allTrue, anyFalse, n := true, false, 0
	var at ast.Node = fn.Body
	if fn.Decl != nil {
		at = fn.Decl
	}
	for len(work) > 0 {
		b := work[len(work)-1]
		work = work[:len(work)-1]
		returned := false
		for _, node := range b.Nodes {
			rs, ok := node.(*ast.ReturnStmt)
			if !ok {
				continue
			}
			returned = true
			n++
			if len(rs.Results) != 1 {
				allTrue = false
				e.unknown("return without a single result")
				continue
			}
			v := e.eval(fn, rs.Results[0])
			switch {
			case v.k == "bool" && v.b:
			case v.k == "bool":
				anyFalse, allTrue = true, false
				at = rs
			default:
				allTrue = false
				if !anyFalse {
					at = rs
				}
			}
		}
		if returned {
			continue
		}
		if t, f, ok := an.CondEdges(b); ok {
			cond := b.Nodes[len(b.Nodes)-1].(ast.Expr)
			v := c19Val{}
			if isBoolAtom(fn.Info, cond) || isSynthCompare(cond) {
				sub := &c19Eval{c: e.c, state: e.state, locked: e.locked, recv: e.recv, depth: e.depth}
				v = sub.eval(fn, cond)
			}
			switch {
			case v.k == "bool" && v.b:
				push(b.Succs[t.K])
			case v.k == "bool":
				push(b.Succs[f.K])
			default:
				push(b.Succs[t.K])
				push(b.Succs[f.K])
			}
			continue
		}
		for _, s := range b.Succs {
			push(s)
		}
	}
	switch {
	case n == 0:
		return e.unknown("no return statement reached"), at
	case anyFalse:
		return c19Val{k: "bool", b: false}, at
	case allTrue:
		return c19Val{k: "bool", b: true}, at
	}
	return c19Val{}, at
}

// isSynthCompare: the tag == value comparison go/cfg synthesises for a switch case (it has no
// entry in types.Info).
func isSynthCompare(e ast.Expr) bool {
	be, ok := e.(*ast.BinaryExpr)
	return ok && be.Op == token.EQL
}

func (e *c19Eval) eval(fn *an.Fn, x ast.Expr) c19Val {
	info := fn.Info
	x = an.Unparen(x)
	if tv, ok := info.Types[x]; ok && tv.Value != nil {
		switch tv.Value.Kind() {
		case constant.Bool:
			return c19Val{k: "bool", b: constant.BoolVal(tv.Value)}
		case constant.Int:
			if v, ok := constant.Int64Val(tv.Value); ok {
				return c19Val{k: "int", n: v}
			}
		}
	}
	if an.IsNilIdent(info, x) {
		return c19Val{k: "nil"}
	}
	switch v := x.(type) {
	case *ast.UnaryExpr:
		if v.Op == token.NOT {
			a := e.eval(fn, v.X)
			if a.k == "bool" {
				return c19Val{k: "bool", b: !a.b}
			}
			return c19Val{}
		}
	case *ast.BinaryExpr:
		switch v.Op {
		case token.LAND, token.LOR:
			a, b := e.eval(fn, v.X), e.eval(fn, v.Y)
			short := v.Op == token.LOR // the absorbing value
			if (a.k == "bool" && a.b == short) || (b.k == "bool" && b.b == short) {
				return c19Val{k: "bool", b: short}
			}
			if a.k == "bool" && b.k == "bool" {
				return c19Val{k: "bool", b: !short}
			}
			return c19Val{}
		case token.EQL, token.NEQ:
			a, b := e.eval(fn, v.X), e.eval(fn, v.Y)
			eq, known := false, false
			switch {
			case a.k == "int" && b.k == "int":
				eq, known = a.n == b.n, true
			case a.k == "bool" && b.k == "bool":
				eq, known = a.b == b.b, true
			case (a.k == "nil" && b.k == "nonnil") || (a.k == "nonnil" && b.k == "nil"):
				eq, known = false, true
			case a.k == "nil" && b.k == "nil":
				eq, known = true, true
			}
			if known {
				return c19Val{k: "bool", b: eq == (v.Op == token.EQL)}
			}
			return c19Val{}
		}
	case *ast.SelectorExpr:
		if id, ok := an.Unparen(v.X).(*ast.Ident); ok && e.recv[objOf(info, id)] {
			switch {
			case an.FieldSel(info, v, "sessionController", "state"):
				return c19Val{k: "int", n: e.state}
			case an.FieldSel(info, v, "sessionController", "pskExtension"):
				return c19Val{k: "nonnil"}
			case an.FieldSel(info, v, "sessionController", "locked"):
				return c19Val{k: "bool", b: e.locked}
			}
		}
		return e.unknown("depends on %s", an.Str(v))
	case *ast.Ident:
		if d := inlineLocal(fn, v); d != ast.Expr(v) {
			return e.eval(fn, d)
		}
		return e.unknown("depends on %s", v.Name)
	case *ast.CallExpr:
		// a conversion
		if tv, ok := info.Types[v.Fun]; ok && tv.IsType() && len(v.Args) == 1 {
			return e.eval(fn, v.Args[0])
		}
		// a controller method called on the controller: evaluate its body under the same valuation
		if se, ok := v.Fun.(*ast.SelectorExpr); ok && len(v.Args) == 0 && e.depth < 3 {
			if id, ok := an.Unparen(se.X).(*ast.Ident); ok && e.recv[objOf(info, id)] {
				if callee, _ := an.Callee(info, v).(*types.Func); callee != nil {
					if fd := declOf(e.c.P.TLS, callee); fd != nil && fd.Body != nil && load.RecvName(fd) == "sessionController" &&
						len(fd.Recv.List) == 1 && len(fd.Recv.List[0].Names) == 1 {
						sub := &c19Eval{c: e.c, state: e.state, locked: e.locked, depth: e.depth + 1,
							recv: map[types.Object]bool{info.Defs[fd.Recv.List[0].Names[0]]: true}}
						res, _ := sub.run(an.NewFn(e.c.P.TLS, fd))
						if res.k != "" {
							return res
						}
						e.why = append(e.why, sub.why...)
						return c19Val{}
					}
				}
			}
		}
		return e.unknown("depends on the call %s", an.Str(v))
	}
	return e.unknown("depends on %s", an.Str(x))
}

// ---- C19.9 (seeded C19-4): the name on the wire is the name the session is cached under --------

// c19SNIFeedsCacheKey decides the clause "a cached session is never offered for a different
// server name". The cache key is Config.ServerName (C19.2); the name on the wire is
// SNIExtension.ServerName. Necessary condition: in SNIExtension.writeToUConn, every path on which
// no test has established that an ECH config list is set (there the extension carries the outer
// public name) stores the extension's name into Config.ServerName before returning; otherwise a
// spec that names a host explicitly has its session stored, and later offered, under another name.
func c19SNIFeedsCacheKey(c *Ctx) {
	r := c.R
	info := c.Info()
	defer r.Floor("C19.9", 1)
	fn := c.Fn("C19.9", "SNIExtension", "writeToUConn")
	if fn == nil {
		return
	}
	cons := "SNIExtension.writeToUConn:config-name-follows-wire"
	var stores []an.Point
	for _, h := range fn.FindNodes(func(n ast.Node) bool {
		as, ok := n.(*ast.AssignStmt)
		if !ok || len(as.Lhs) != len(as.Rhs) {
			return false
		}
		for i, l := range as.Lhs {
			if an.FieldSel(info, an.Unparen(l), "Config", "ServerName") {
				fromExt := an.MentionsField(info, as.Rhs[i], "SNIExtension", "ServerName")
				if !fromExt {
					if d := inlineLocal(fn, as.Rhs[i]); d != as.Rhs[i] {
						fromExt = an.MentionsField(info, d, "SNIExtension", "ServerName")
					}
				}
				return fromExt
			}
		}
		return false
	}) {
		stores = append(stores, h.P)
	}
	if len(stores) == 0 {
		r.Bad("C19.9", cons, c.Pos(fn.Decl), "SNIExtension.writeToUConn never stores the extension's ServerName into Config.ServerName: the session cache key (Config.ServerName) and the name on the wire can differ, so a session is cached and offered under another server's name")
		return
	}
	isECH := func(e ast.Expr) bool { return an.MentionsField(info, e, "Config", "EncryptedClientHelloConfigList") }
	unrecognised := ""
	echSet, _, _ := condEdges(fn, func(cond ast.Expr) (bool, bool) {
		be, ok := an.Unparen(cond).(*ast.BinaryExpr)
		if !ok || !isECH(be) {
			return false, false
		}
		x, y, op := be.X, be.Y, be.Op
		if !isECH(x) {
			x, y, op = y, x, flipTok(op)
		}
		if an.IsNilIdent(info, y) {
			switch op {
			case token.NEQ:
				return true, true
			case token.EQL:
				return true, false
			}
		}
		if v, isC := an.ConstInt(info, y); isC && v == 0 {
			if call, isCall := an.Unparen(x).(*ast.CallExpr); isCall {
				if id, isID := call.Fun.(*ast.Ident); isID && id.Name == "len" {
					switch op {
					case token.NEQ, token.GTR:
						return true, true
					case token.EQL, token.LEQ:
						return true, false
					}
				}
			}
		}
		unrecognised = an.Str(cond)
		return false, false
	})
	blockedE := map[an.Edge]bool{}
	for _, e := range echSet {
		blockedE[e] = true
	}
	blockedP := map[an.Point]bool{}
	for _, p := range stores {
		blockedP[p] = true
	}
	escaped := false
	for p := range fn.ReachFromEntry(blockedP, blockedE) {
		if blockedP[p] || p.I < 0 {
			continue
		}
		if _, isRet := p.Node().(*ast.ReturnStmt); isRet {
			escaped = true
		}
	}
	// a function falling off its end without return cannot occur here (it returns error)
	switch {
	case !escaped:
		r.Ok("C19.9", cons, c.PosP(stores[0]), "without an ECH config list every path stores the extension's name into Config.ServerName")
	case unrecognised != "":
		r.Unknown("C19.9", cons, c.PosP(stores[0]), "a test of the ECH config list has a form that is not recognised: %s", unrecognised)
	default:
		r.Bad("C19.9", cons, c.PosP(stores[0]), "without an ECH config list SNIExtension.writeToUConn can return without storing the extension's ServerName into Config.ServerName: the session cache key (Config.ServerName) then differs from the name sent in the ClientHello, so the session is cached under, and later offered to, another server name")
	}
}

// ---- C20.9 (seeded C20-3): SetSessionState always hands over an initialised extension ----------

// c20SetSessionStateInitialized decides the clause "a session supplied through the setters
// appears on the wire as given" for the documented nil form of SetSessionState ("the body of the
// session ticket extension will be unset"). The controller only adopts an overriding extension
// as the connection's session when IsInitialized() holds (overrideExtension); an extension that
// is not initialised is an empty placeholder which loadSession fills from the cache. Necessary
// condition: every SessionTicketExtension SetSessionState passes to SetSessionTicketExtension has
// Initialized == true on every path to the call.
func c20SetSessionStateInitialized(c *Ctx) {
	r := c.R
	info := c.Info()
	defer r.Floor("C20.9", 1)
	fn := c.Fn("C20.9", "UConn", "SetSessionState")
	if fn == nil {
		return
	}
	isTrue := func(e ast.Expr) bool {
		tv, ok := info.Types[e]
		return ok && tv.Value != nil && tv.Value.Kind() == constant.Bool && constant.BoolVal(tv.Value)
	}
	litOf := func(e ast.Expr) *ast.CompositeLit {
		e = an.Unparen(e)
		if u, ok := e.(*ast.UnaryExpr); ok && u.Op == token.AND {
			e = an.Unparen(u.X)
		}
		cl, _ := e.(*ast.CompositeLit)
		if cl != nil && an.TypeName(info.TypeOf(cl)) == "SessionTicketExtension" {
			return cl
		}
		return nil
	}
	litInit := func(cl *ast.CompositeLit) bool {
		for i, el := range cl.Elts {
			if kv, ok := el.(*ast.KeyValueExpr); ok {
				if k, ok := kv.Key.(*ast.Ident); ok && k.Name == "Initialized" {
					return isTrue(kv.Value)
				}
			} else if i == 2 {
				return isTrue(el)
			}
		}
		return false
	}
	calls := fn.FindNodes(func(n ast.Node) bool {
		return an.IsCallTo(info, n, Mod, "UConn", "SetSessionTicketExtension") || an.IsCallTo(info, n, Mod, "sessionController", "overrideSessionTicketExt")
	})
	if len(calls) == 0 {
		r.Unknown("C20.9", "SetSessionState:extension-initialized", c.Pos(fn.Decl), "no call handing the extension to the session controller found")
		return
	}
	for _, h := range calls {
		call := h.N.(*ast.CallExpr)
		cons := "SetSessionState:extension-initialized"
		bad := "SetSessionState can hand over a SessionTicketExtension with Initialized == false (for a nil session): the controller then treats it as an empty placeholder and loadSession fills it from the cache, so the connection resumes a cached session although the caller asked for none"
		if len(call.Args) != 1 {
			r.Unknown("C20.9", cons, c.Pos(call), "unexpected argument count")
			continue
		}
		arg := an.Unparen(call.Args[0])
		if cl := litOf(arg); cl != nil {
			r.Check(litInit(cl), "C20.9", cons, c.Pos(call), "the extension literal sets Initialized", bad)
			continue
		}
		id, ok := arg.(*ast.Ident)
		if !ok {
			r.Unknown("C20.9", cons, c.Pos(call), "argument %s is neither a literal nor a local", an.Str(arg))
			continue
		}
		obj := objOf(info, id)
		isInitField := func(e ast.Expr) bool {
			se, ok := an.Unparen(e).(*ast.SelectorExpr)
			if !ok || !an.FieldSel(info, se, "SessionTicketExtension", "Initialized") {
				return false
			}
			x, ok := an.Unparen(se.X).(*ast.Ident)
			return ok && objOf(info, x) == obj
		}
		var sets, unsets []an.Point
		undecided := ""
		for _, a := range fn.FindNodes(func(n ast.Node) bool {
			switch s := n.(type) {
			case *ast.AssignStmt:
				for _, l := range s.Lhs {
					if isInitField(l) {
						return true
					}
					if x, ok := an.Unparen(l).(*ast.Ident); ok && objOf(info, x) == obj {
						return true
					}
				}
			case *ast.ValueSpec:
				for _, nm := range s.Names {
					if objOf(info, nm) == obj {
						return true
					}
				}
			}
			return false
		}) {
			switch s := a.N.(type) {
			case *ast.AssignStmt:
				if len(s.Lhs) != len(s.Rhs) {
					undecided = "multi-value assignment"
					continue
				}
				for i, l := range s.Lhs {
					switch {
					case isInitField(l):
						if isTrue(s.Rhs[i]) {
							sets = append(sets, a.P)
						} else {
							unsets = append(unsets, a.P)
						}
					default:
						if x, ok := an.Unparen(l).(*ast.Ident); ok && objOf(info, x) == obj {
							if cl := litOf(s.Rhs[i]); cl != nil {
								if litInit(cl) {
									sets = append(sets, a.P)
								} else {
									unsets = append(unsets, a.P)
								}
							} else {
								undecided = "the extension is bound to " + an.Str(s.Rhs[i])
							}
						}
					}
				}
			case *ast.ValueSpec:
				for i, nm := range s.Names {
					if objOf(info, nm) != obj {
						continue
					}
					if i < len(s.Values) {
						if cl := litOf(s.Values[i]); cl != nil && litInit(cl) {
							sets = append(sets, a.P)
							continue
						}
					}
					unsets = append(unsets, a.P)
				}
			}
		}
		if undecided != "" {
			r.Unknown("C20.9", cons, c.Pos(call), "%s", undecided)
			continue
		}
		// every path to the call passes a point that makes Initialized true, and no point that
		// leaves it false lies between the last such point and the call
		ok = len(sets) > 0 && fn.MustPass(h.P, sets, nil)
		if ok {
			for _, u := range unsets {
				if !fn.MustPassFrom(u, h.P, sets, nil) {
					ok = false
				}
			}
		}
		r.Check(ok, "C20.9", cons, c.Pos(call), "Initialized is true on every path to the hand-over", bad)
	}
}

// ---- C20.10 (seeded C20-4): the setters refuse a session when sessions are disabled ------------

// c20SettersRefuseDisabledSessions decides the clause "usages the documentation forbids fail with
// an error (never silently proceed, never an undocumented panic)". Injecting a ticket or PSK into
// a connection whose Config disables sessions must fail: with SessionTicketsDisabled the hello
// would resume on a connection configured not to; with a nil ClientSessionCache the eviction
// `defer` of clientHandshake calls Put on the nil cache when the injected session is rejected
// (nil dereference). Necessary condition: in SetSessionTicketExtension and SetPskExtension every
// exit that is not a constructed error, and every hand-over to the session controller, lies
// behind the outcome "SessionTicketsDisabled is false" and behind "ClientSessionCache != nil" —
// each test on its own (`||` of the refusals; an `&&` refuses only when both hold).
func c20SettersRefuseDisabledSessions(c *Ctx) {
	r := c.R
	info := c.Info()
	defer r.Floor("C20.10", 4)
	for _, name := range []string{"SetSessionTicketExtension", "SetPskExtension"} {
		fn := c.Fn("C20.10", "UConn", name)
		if fn == nil {
			continue
		}
		tests := []struct {
			what  string
			edges []an.Edge
		}{{what: "SessionTicketsDisabled"}, {what: "ClientSessionCache"}}
		tests[0].edges, _, _ = condEdges(fn, func(cond ast.Expr) (bool, bool) {
			x, _ := negated(cond)
			if an.FieldSel(info, x, "Config", "SessionTicketsDisabled") {
				return true, false
			}
			if be, ok := x.(*ast.BinaryExpr); ok && (be.Op == token.EQL || be.Op == token.NEQ) {
				for _, pr := range [][2]ast.Expr{{be.X, be.Y}, {be.Y, be.X}} {
					if an.FieldSel(info, an.Unparen(pr[0]), "Config", "SessionTicketsDisabled") {
						if tv, ok := info.Types[pr[1]]; ok && tv.Value != nil && tv.Value.Kind() == constant.Bool {
							return true, constant.BoolVal(tv.Value) != (be.Op == token.EQL)
						}
					}
				}
			}
			return false, false
		})
		tests[1].edges, _, _ = condEdges(fn, func(cond ast.Expr) (bool, bool) {
			op, ok := an.BinaryWith(an.Unparen(cond), func(e ast.Expr) bool { return an.FieldSel(info, an.Unparen(e), "Config", "ClientSessionCache") }, func(e ast.Expr) bool { return an.IsNilIdent(info, e) })
			if !ok {
				return false, false
			}
			return true, op == token.NEQ
		})
		definiteErr := func(e ast.Expr) bool {
			call, ok := an.Unparen(inlineLocal(fn, e)).(*ast.CallExpr)
			if !ok {
				return false
			}
			f, _ := an.Callee(info, call).(*types.Func)
			return f != nil && f.Pkg() != nil && ((f.Pkg().Path() == "fmt" && f.Name() == "Errorf") || (f.Pkg().Path() == "errors" && f.Name() == "New"))
		}
		var targets []an.Point
		for _, p := range fn.Returns() {
			rs := p.Node().(*ast.ReturnStmt)
			if len(rs.Results) == 1 && definiteErr(rs.Results[0]) {
				continue
			}
			targets = append(targets, p)
		}
		targets = append(targets, fn.Find(func(n ast.Node) bool {
			return an.IsCallTo(info, n, Mod, "sessionController", "overrideSessionTicketExt") || an.IsCallTo(info, n, Mod, "sessionController", "overridePskExt")
		})...)
		if len(targets) == 0 {
			r.Unknown("C20.10", name+":exits", c.Pos(fn.Decl), "no exit found")
			continue
		}
		for _, t := range tests {
			ok := len(t.edges) > 0
			for _, p := range targets {
				if !fn.MustPass(p, nil, t.edges) {
					ok = false
				}
			}
			why := "a nil cache makes the failed-handshake eviction (ClientSessionCache.Put) dereference nil"
			if t.what == "SessionTicketsDisabled" {
				why = "the injected session is offered on a connection configured not to resume"
			}
			r.Check(ok, "C20.10", name+":refuses:"+t.what, c.Pos(fn.Decl), "every non-error exit and the hand-over to the controller lie behind the "+t.what+" test",
				name+" can accept an extension without having passed the "+t.what+" test on its own (the two refusals must be alternatives, not a conjunction): it no longer returns \"session is disabled\" and "+why)
		}
	}
}

// ---- C21.8 (seeded C21-3): a CompressedCertificate is only taken while the extension is offered -

// The clause "never accepts a compressed certificate message it did not ask for" has the same
// necessary condition as C12.2's owner rule: utlsReadServerCertificate reaches decompressCert only
// when a UtlsCompressCertExtension is (still) among uconn.Extensions; certCompressionAlgs alone
// is stale state from an earlier build of the hello.
func c21ExtensionStillOffered(c *Ctx) {
	c.R.BorrowIf(map[string]string{"C12.2": "C21.8"}, func(o report.Obligation) bool {
		return strings.HasPrefix(o.Construct, "UConn.certCompressionAlgs")
	}, func() { runC12(c) })
	c.R.Floor("C21.8", 1)
}

// ---- C21.9 (seeded C21-4): the length bound admits a message of exactly the handshake limit -----

// c21BoundAdmitsLimit decides the clause "every certificate message up to the handshake size
// limit is recovered". The record layer accepts a Certificate message of up to
// maxHandshakeCertificateMsg bytes (n > limit is refused), so decompressCert must do the same
// for the decompressed message. Necessary condition: a comparison of uncompressed_length with a
// constant, evaluated at uncompressed_length == maxHandshakeCertificateMsg, does not force an
// outcome from which every exit is an error (`>=` against the limit, or `>` against a smaller
// constant, refuses a valid message).
func c21BoundAdmitsLimit(c *Ctx) {
	r := c.R
	info := c.Info()
	defer r.Floor("C21.9", 1)
	fn := c.Fn("C21.9", "clientHandshakeStateTLS13", "decompressCert")
	if fn == nil {
		return
	}
	limit, ok := constOf(c, "maxHandshakeCertificateMsg")
	if !ok {
		r.Unknown("C21.9", "decompressCert:limit", c.Pos(fn.Decl), "constant maxHandshakeCertificateMsg not found")
		return
	}
	if len(fn.Decl.Type.Params.List) == 0 || len(fn.Decl.Type.Params.List[0].Names) == 0 {
		r.Unknown("C21.9", "decompressCert:param", c.Pos(fn.Decl), "message parameter not found")
		return
	}
	msgParam := info.Defs[fn.Decl.Type.Params.List[0].Names[0]]
	isLen := func(e ast.Expr) bool {
		se, ok := stripConv(info, inlineLocal(fn, stripConv(info, e))).(*ast.SelectorExpr)
		if !ok || se.Sel.Name != "uncompressedLength" {
			return false
		}
		id, ok := an.Unparen(se.X).(*ast.Ident)
		return ok && info.Uses[id] == msgParam
	}
	cmp := func(op token.Token, a, b int64) (bool, bool) {
		switch op {
		case token.GTR:
			return a > b, true
		case token.GEQ:
			return a >= b, true
		case token.LSS:
			return a < b, true
		case token.LEQ:
			return a <= b, true
		case token.EQL:
			return a == b, true
		case token.NEQ:
			return a != b, true
		}
		return false, false
	}
	n := 0
	for _, b := range fn.G.Blocks {
		if !b.Live {
			continue
		}
		t, f, isCond := an.CondEdges(b)
		if !isCond {
			continue
		}
		whole := b.Nodes[len(b.Nodes)-1].(ast.Expr)
		for _, atom := range condAtoms(whole) {
			be, ok := an.Unparen(inlineLocal(fn, atom)).(*ast.BinaryExpr)
			if !ok {
				continue
			}
			x, y, op := be.X, be.Y, be.Op
			if !isLen(x) {
				x, y, op = y, x, flipTok(op)
			}
			if !isLen(x) {
				continue
			}
			k, isC := an.ConstInt(info, y)
			if !isC {
				continue
			}
			val, okOp := cmp(op, limit, k)
			if !okOp {
				continue
			}
			n++
			cons := "decompressCert:bound-admits-limit"
			outcome, forced := forcedOutcome(whole, atom, val)
			if !forced {
				r.Ok("C21.9", cons, c.Pos(atom), "the comparison does not decide the branch on its own at the limit")
				continue
			}
			edge := f
			if outcome {
				edge = t
			}
			rejects, _ := failEdgeExits(fn, edge, nil)
			r.Check(!rejects, "C21.9", cons, c.Pos(atom), fmt.Sprintf("a message of exactly %d bytes passes the bound", limit),
				fmt.Sprintf("%s refuses uncompressed_length == %d (maxHandshakeCertificateMsg): the largest Certificate message the record layer accepts uncompressed is rejected when it arrives compressed (the bound must be a strict `>` against the limit)", an.Str(atom), limit))
		}
	}
	if n == 0 {
		r.Unknown("C21.9", "decompressCert:bound-admits-limit", c.Pos(fn.Decl), "no comparison of uncompressed_length with a constant found")
	}
}

// ---- C32.7 (seeded C32-4): JSON fields feed the extension field of the same role -------------

// c32JSONRoleAgreement decides, for the JSON decoders, the clause "a ClientHello described in
// JSON yields the same extension parameters as the raw-bytes import". Two fields of the same Go
// type can be exchanged without the compiler noticing. In a JSON decoder the only thing that
// ties a JSON field to an extension field is its role, which both names spell out (major ->
// MajorVersion, minor -> MinorVersion; min_vers -> TLSVersMin). Necessary condition: whenever a
// decoder copies two same-typed source fields G1, G2 into two same-typed destination fields F1,
// F2, the wiring as written agrees with the names at least as well as the exchanged wiring
// (name agreement = longest common substring of the normalised names, JSON tag included).
func c32JSONRoleAgreement(c *Ctx) {
	r := c.R
	tls := c.P.TLS
	info := tls.TypesInfo
	defer r.Floor("C32.7", 2)
	type wire struct {
		dst, src *types.Var
		srcTag   string
		pos      token.Pos
	}
	norm := func(s string) string {
		var sb strings.Builder
		for _, ch := range strings.ToLower(s) {
			if (ch >= 'a' && ch <= 'z') || (ch >= '0' && ch <= '9') {
				sb.WriteRune(ch)
			}
		}
		return sb.String()
	}
	lcs := func(a, b string) int {
		a, b = norm(a), norm(b)
		best := 0
		for i := range a {
			for j := range b {
				k := 0
				for i+k < len(a) && j+k < len(b) && a[i+k] == b[j+k] {
					k++
				}
				if k > best {
					best = k
				}
			}
		}
		return best
	}
	fieldOf := func(e ast.Expr) *types.Var {
		se, ok := an.Unparen(e).(*ast.SelectorExpr)
		if !ok {
			return nil
		}
		sel := info.Selections[se]
		if sel == nil || sel.Kind() != types.FieldVal {
			return nil
		}
		v, _ := sel.Obj().(*types.Var)
		return v
	}
	// JSON tag of a field, looked up in the struct type that declares it
	tagOf := func(e ast.Expr) string {
		se, ok := an.Unparen(e).(*ast.SelectorExpr)
		if !ok {
			return ""
		}
		sel := info.Selections[se]
		if sel == nil {
			return ""
		}
		t := sel.Recv()
		idx := sel.Index()
		for i, k := range idx {
			st, _ := structOf(t)
			if st == nil {
				return ""
			}
			if i == len(idx)-1 {
				tag := reflect.StructTag(st.Tag(k)).Get("json")
				if j := strings.IndexByte(tag, ','); j >= 0 {
					tag = tag[:j]
				}
				return tag
			}
			t = st.Field(k).Type()
		}
		return ""
	}
	nPairs := 0
	for _, fd := range load.AllFuncDecls(tls) {
		if fd.Recv == nil || fd.Body == nil {
			continue
		}
		recv := load.RecvName(fd)
		if fd.Name.Name != "UnmarshalJSON" && !strings.HasSuffix(recv, "JSONUnmarshaler") {
			continue
		}
		if strings.HasSuffix(c.P.Fset.Position(fd.Pos()).Filename, "_test.go") {
			continue
		}
		fn := an.NewFn(tls, fd)
		var wires []wire
		add := func(dst *types.Var, val ast.Expr, pos token.Pos) {
			if dst == nil {
				return
			}
			src := stripConv(info, inlineLocal(fn, stripConv(info, val)))
			sv := fieldOf(src)
			if sv == nil || sv == dst {
				return
			}
			tag := tagOf(src)
			// the source must be a JSON-described field: it carries a tag or lives in a *JSONUnmarshaler
			if tag == "" {
				se := an.Unparen(src).(*ast.SelectorExpr)
				if !strings.HasSuffix(an.TypeName(info.TypeOf(se.X)), "JSONUnmarshaler") {
					return
				}
			}
			wires = append(wires, wire{dst, sv, tag, pos})
		}
		ast.Inspect(fd.Body, func(x ast.Node) bool {
			switch s := x.(type) {
			case *ast.AssignStmt:
				if len(s.Lhs) != len(s.Rhs) {
					return true
				}
				for i, l := range s.Lhs {
					add(fieldOf(l), s.Rhs[i], l.Pos())
				}
			case *ast.CompositeLit:
				st, _ := structOf(info.TypeOf(s))
				if st == nil {
					return true
				}
				for i, el := range s.Elts {
					if kv, ok := el.(*ast.KeyValueExpr); ok {
						if k, ok := kv.Key.(*ast.Ident); ok {
							if v, _ := info.Uses[k].(*types.Var); v != nil && v.IsField() {
								add(v, kv.Value, kv.Pos())
							}
						}
					} else if i < st.NumFields() {
						add(st.Field(i), el, el.Pos())
					}
				}
			}
			return true
		})
		who := recv + "." + fd.Name.Name
		for i := 0; i < len(wires); i++ {
			for j := i + 1; j < len(wires); j++ {
				a, b := wires[i], wires[j]
				if a.dst == b.dst || a.src == b.src || !types.Identical(a.dst.Type(), b.dst.Type()) || !types.Identical(a.src.Type(), b.src.Type()) {
					continue
				}
				aff := func(d *types.Var, s wire) int {
					v := lcs(d.Name(), s.src.Name())
					if t := lcs(d.Name(), s.srcTag); t > v {
						v = t
					}
					return v
				}
				straight := aff(a.dst, a) + aff(b.dst, b)
				crossed := aff(a.dst, b) + aff(b.dst, a)
				nPairs++
				cons := who + ":" + a.dst.Name() + "/" + b.dst.Name()
				r.Check(crossed <= straight, "C32.7", cons, c.P.Pos(a.pos),
					fmt.Sprintf("%s <- %s and %s <- %s agree with the field names", a.dst.Name(), a.src.Name(), b.dst.Name(), b.src.Name()),
					fmt.Sprintf("%s is filled from the JSON field %s and %s from %s: the two same-typed fields are cross-wired, so a JSON hello yields other extension bytes than the raw-bytes import of the same ClientHello whenever the two values differ", a.dst.Name(), a.src.Name(), b.dst.Name(), b.src.Name()))
			}
		}
	}
	r.Count("C32.7_pairs", nPairs)
}
