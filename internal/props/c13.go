package props

func init() { register(&Prop{ID: "C13", Run: runC13}) }

// c13Extra is set by c13cfg.go (control-flow rules C13.2/C13.3) when present.
var c13Extra func(*Ctx)

func runC13(c *Ctx) {
	r := c.R
	r.Technique = "constant evaluation of all parrot spec literals (go/constant) against a model of SetTLSVers; CFG rules on SetTLSVers / pickTLSVersion / downgrade check"
	r.Explanation = "C13.1 for each of the parrot tables of utlsIdToSpec (evaluated from the composite literals on every run) the set of versions the client will accept (what SetTLSVers copies into Config.Min/MaxVersion) is a subset of the set its ClientHello advertises (non-GREASE supported_versions entries when that extension is in the spec, otherwise [TLSVersMin, min(TLSVersMax, TLS1.2)]). " +
		"C13.4 the version-range derivation inside SetTLSVers has the shape the table rule assumes (min/max over non-GREASE entries; default [1.0,1.2] without the extension; both stored to Config)."
	r.NotDecided = "what a concrete server does with the offer; randomized specs are covered by C09"
	ps := loadParrots(c)
	if len(ps) == 0 {
		r.Unknown("C13.1", "utlsIdToSpec", "", "parrot table not found")
		return
	}
	r.Count("parrot_tables", len(ps))
	ids := 0
	for _, p := range ps {
		ids += len(p.IDs)
	}
	r.Count("parrot_ids", ids)
	parrotVersionRule(c, "C13.1", ps)
	r.Floor("C13.1", 34)
	c13SetTLSVersModel(c)
	if c13Extra != nil {
		c13Extra(c)
	}
}
