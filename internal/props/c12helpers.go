package props

// Helpers shared by the C12 and C13 (control-flow part) rule sets: error-test edges of a
// call, success returns, membership recognisers, alias sets, a concrete evaluator that
// prunes CFG edges under an assumed scenario, and a small intra-package call graph.

import (
	"go/ast"
	"go/constant"
	"go/token"
	"go/types"
	"os"
	"sort"

	"verif/internal/an"
	"verif/internal/load"

	"golang.org/x/tools/go/cfg"
)

// ---------------------------------------------------------------- lvalues and aliases

// lvalObj gives an lvalue an identity: the variable object of an identifier, or the field
// object of a selector (the base expression is ignored).
func lvalObj(info *types.Info, e ast.Expr) types.Object {
	switch x := an.Unparen(e).(type) {
	case *ast.Ident:
		return objOf(info, x)
	case *ast.SelectorExpr:
		if sel := info.Selections[x]; sel != nil && sel.Kind() == types.FieldVal {
			return sel.Obj()
		}
	}
	return nil
}

// assignedExprs returns, for every local variable of fn, the right-hand sides assigned to
// it by plain `=`/`:=` statements with matching arity (multi-value calls are recorded as the
// call itself for every left-hand side).
func assignedExprs(fn *an.Fn) map[types.Object][]ast.Expr {
	out := map[types.Object][]ast.Expr{}
	ast.Inspect(fn.Body, func(n ast.Node) bool {
		switch s := n.(type) {
		case *ast.AssignStmt:
			for i, l := range s.Lhs {
				id, ok := an.Unparen(l).(*ast.Ident)
				if !ok || id.Name == "_" {
					continue
				}
				o := objOf(fn.Info, id)
				if o == nil {
					continue
				}
				switch {
				case s.Tok != token.ASSIGN && s.Tok != token.DEFINE:
					out[o] = append(out[o], s.Rhs[0]) // op=: value depends on rhs and itself
				case len(s.Lhs) == len(s.Rhs):
					out[o] = append(out[o], s.Rhs[i])
				case len(s.Rhs) == 1:
					out[o] = append(out[o], s.Rhs[0])
				}
			}
		case *ast.ValueSpec:
			for i, id := range s.Names {
				if o := fn.Info.Defs[id]; o != nil && i < len(s.Values) {
					out[o] = append(out[o], s.Values[i])
				}
			}
		}
		return true
	})
	return out
}

// aliasSet returns the locals all of whose assigned values satisfy base (at least one
// assignment). It is closed one level: a local assigned only from members is a member.
func aliasSet(fn *an.Fn, base func(ast.Expr) bool) map[types.Object]bool {
	defs := assignedExprs(fn)
	set := map[types.Object]bool{}
	for round := 0; round < 2; round++ {
		for o, rhss := range defs {
			if set[o] {
				continue
			}
			all := len(rhss) > 0
			for _, r := range rhss {
				if base(r) {
					continue
				}
				if id, ok := an.Unparen(r).(*ast.Ident); ok && set[objOf(fn.Info, id)] {
					continue
				}
				all = false
			}
			if all {
				set[o] = true
			}
		}
	}
	return set
}

// mentionsAny: e contains an identifier of set.
func mentionsAny(info *types.Info, e ast.Node, set map[types.Object]bool) bool {
	return an.Contains(e, func(n ast.Node) bool {
		id, ok := n.(*ast.Ident)
		return ok && set[info.Uses[id]]
	})
}

// ---------------------------------------------------------------- conditions

// go/cfg keeps a whole boolean expression as one condition node. condEdgesL classifies its
// atoms: an outcome of the condition is a pass edge when it guarantees the passing value of
// a matched atom (E true guarantees every conjunct; E false guarantees the falsity of every
// disjunct; negation swaps). The opposite outcome is the fail edge: it is the one taken
// whenever the atom has its failing value.
func condEdgesL(fn *an.Fn, classify func(atom ast.Expr) (bool, bool)) (pass, fail []an.Edge, at []an.Point) {
	var guaranteed func(e ast.Expr, val bool, out *[]atomVal)
	guaranteed = func(e ast.Expr, val bool, out *[]atomVal) {
		e = an.Unparen(e)
		switch x := e.(type) {
		case *ast.UnaryExpr:
			if x.Op == token.NOT {
				guaranteed(x.X, !val, out)
				return
			}
		case *ast.BinaryExpr:
			if (x.Op == token.LAND && val) || (x.Op == token.LOR && !val) {
				guaranteed(x.X, val, out)
				guaranteed(x.Y, val, out)
				return
			}
			if x.Op == token.LAND || x.Op == token.LOR {
				return
			}
		}
		*out = append(*out, atomVal{e, val})
	}
	for _, b := range fn.G.Blocks {
		if !b.Live {
			continue
		}
		t, f, ok := an.CondEdges(b)
		if !ok {
			continue
		}
		cond := b.Nodes[len(b.Nodes)-1].(ast.Expr)
		anyHit := false
		for _, val := range []bool{true, false} {
			var g []atomVal
			guaranteed(cond, val, &g)
			hit := false
			for _, av := range g {
				m, onTrue := classify(av.e)
				if !m {
					// a boolean local with a single definition reads as the expression defining it
					if d := inlineLocal(fn, av.e); d != av.e {
						m, onTrue = classify(an.Unparen(d))
					}
				}
				if m && onTrue == av.val {
					hit = true
				}
			}
			if !hit {
				continue
			}
			anyHit = true
			at = append(at, an.Point{B: b, I: len(b.Nodes) - 1})
			if val {
				pass, fail = append(pass, t), append(fail, f)
			} else {
				pass, fail = append(pass, f), append(fail, t)
			}
		}
		if !anyHit {
			// the atom occurs, but no outcome of the whole condition implies its passing value
			var leaves func(e ast.Expr)
			leaves = func(e ast.Expr) {
				e = an.Unparen(e)
				switch x := e.(type) {
				case *ast.UnaryExpr:
					if x.Op == token.NOT {
						leaves(x.X)
						return
					}
				case *ast.BinaryExpr:
					if x.Op == token.LAND || x.Op == token.LOR {
						leaves(x.X)
						leaves(x.Y)
						return
					}
				}
				if m, _ := classify(e); m {
					condWeakLog = append(condWeakLog, an.Point{B: b, I: len(b.Nodes) - 1})
				}
			}
			leaves(cond)
		}
	}
	return
}

// condWeakLog collects conditions in which a recognised atom occurs without any outcome
// implying its passing value (a weakened check such as `len(l) > 0 && !contains(l, x)`).
var condWeakLog []an.Point

func takeWeak() []an.Point {
	w := condWeakLog
	condWeakLog = nil
	return w
}

type atomVal struct {
	e   ast.Expr
	val bool
}

// ---------------------------------------------------------------- returns

// successReturns lists the return points whose last result is the nil identifier (or, for
// functions whose last result is bool, the true identifier).
func successReturns(fn *an.Fn) []an.Point {
	var out []an.Point
	for _, p := range fn.Returns() {
		rs := p.Node().(*ast.ReturnStmt)
		if len(rs.Results) == 0 {
			continue
		}
		if !returnsError(fn, rs) {
			out = append(out, p)
		}
	}
	return out
}

// ---------------------------------------------------------------- error test of a call

// errTest describes how the error result of one call is tested.
type errTest struct {
	at     an.Point
	call   *ast.CallExpr
	errObj types.Object
	pass   []an.Edge // err == nil outcome
	fail   []an.Edge
	why    string // set when the test could not be established
}

// callErrTest finds the comparison(s) of the error variable bound by the statement at h
// with nil that observe this call's result (no other assignment to the variable can reach
// the comparison without passing the call again).
func callErrTest(fn *an.Fn, h an.Hit) errTest {
	info := fn.Info
	call := h.N.(*ast.CallExpr)
	t := errTest{at: h.P, call: call}
	as, ok := h.P.Node().(*ast.AssignStmt)
	if !ok || len(as.Rhs) != 1 || an.Unparen(as.Rhs[0]) != ast.Expr(call) {
		t.why = "the call's error result is not bound to a variable"
		return t
	}
	last := as.Lhs[len(as.Lhs)-1]
	id, ok := an.Unparen(last).(*ast.Ident)
	if !ok || id.Name == "_" {
		t.why = "the call's error result is discarded"
		return t
	}
	t.errObj = objOf(info, id)
	if t.errObj == nil || !types.Identical(t.errObj.Type(), types.Universe.Lookup("error").Type()) {
		t.why = "the call's last result is not bound to an error variable"
		return t
	}
	isErr := func(e ast.Expr) bool {
		x, ok := an.Unparen(e).(*ast.Ident)
		return ok && objOf(info, x) == t.errObj
	}
	isNil := func(e ast.Expr) bool { return an.IsNilIdent(info, e) }
	pass, fail, at := condEdgesL(fn, func(cond ast.Expr) (bool, bool) {
		op, ok := an.BinaryWith(cond, isErr, isNil)
		if !ok {
			return false, false
		}
		switch op {
		case token.NEQ:
			return true, false
		case token.EQL:
			return true, true
		}
		return false, false
	})
	others := map[an.Point]bool{}
	for _, p := range fn.Find(an.AssignsTo(isErr)) {
		if p != h.P {
			others[p] = true
		}
	}
	fromCall := fn.Reach(h.P, others, nil)
	for i, cp := range at {
		if !fromCall[cp] || others[cp] {
			continue
		}
		clobbered := false
		for q := range others {
			if fn.Reach(q, map[an.Point]bool{h.P: true}, nil)[cp] {
				clobbered = true
			}
		}
		if clobbered {
			continue
		}
		t.pass, t.fail = append(t.pass, pass[i]), append(t.fail, fail[i])
	}
	if len(t.pass) == 0 {
		t.why = "the call's error result is never compared with nil before being overwritten"
	}
	return t
}

// ---------------------------------------------------------------- membership recognisers

// memberSpec describes "elem is one of list".
type memberSpec struct {
	isList func(ast.Expr) bool // the expression denotes (contains) the offered list
	isElem func(ast.Expr) bool // the expression denotes (contains) the peer's choice
}

// funcLitEq: fl is `func(x T) bool { return x[.f] == <elem> }` (either operand order).
func funcLitEq(info *types.Info, fl *ast.FuncLit, isElem func(ast.Expr) bool) bool {
	if fl.Type.Params == nil || len(fl.Type.Params.List) != 1 || len(fl.Type.Params.List[0].Names) != 1 {
		return false
	}
	param := info.Defs[fl.Type.Params.List[0].Names[0]]
	if param == nil || len(fl.Body.List) != 1 {
		return false
	}
	rs, ok := fl.Body.List[0].(*ast.ReturnStmt)
	if !ok || len(rs.Results) != 1 {
		return false
	}
	be, ok := an.Unparen(rs.Results[0]).(*ast.BinaryExpr)
	if !ok || be.Op != token.EQL {
		return false
	}
	isParam := func(e ast.Expr) bool { return rootedAt(info, e, map[types.Object]bool{param: true}) }
	return (isParam(be.X) && isElem(be.Y) && !isParam(be.Y)) || (isParam(be.Y) && isElem(be.X) && !isParam(be.X))
}

// rootedAt: e is an identifier of roots, or a field selection chain / conversion on one.
func rootedAt(info *types.Info, e ast.Expr, roots map[types.Object]bool) bool {
	for {
		switch x := an.Unparen(e).(type) {
		case *ast.Ident:
			return roots[info.Uses[x]]
		case *ast.SelectorExpr:
			if sel := info.Selections[x]; sel == nil || sel.Kind() != types.FieldVal {
				return false
			}
			e = x.X
		case *ast.CallExpr: // conversion T(x)
			if tv, ok := info.Types[x.Fun]; ok && tv.IsType() && len(x.Args) == 1 {
				e = x.Args[0]
				continue
			}
			return false
		case *ast.StarExpr:
			e = x.X
		default:
			return false
		}
	}
}

func slicesFunc(info *types.Info, call *ast.CallExpr) string {
	fo, _ := an.Callee(info, call).(*types.Func)
	if fo == nil || fo.Pkg() == nil || fo.Pkg().Path() != "slices" {
		return ""
	}
	return fo.Name()
}

// containsCall: call is slices.Contains(list, elem) or slices.ContainsFunc(list, x == elem).
func (m memberSpec) containsCall(info *types.Info, call *ast.CallExpr) bool {
	if len(call.Args) != 2 || !m.isList(call.Args[0]) {
		return false
	}
	switch slicesFunc(info, call) {
	case "Contains":
		return m.isElem(call.Args[1]) && !m.isList(call.Args[1])
	case "ContainsFunc":
		fl, ok := an.Unparen(call.Args[1]).(*ast.FuncLit)
		return ok && funcLitEq(info, fl, m.isElem)
	}
	return false
}

func (m memberSpec) indexCall(info *types.Info, call *ast.CallExpr) bool {
	if len(call.Args) != 2 || !m.isList(call.Args[0]) {
		return false
	}
	switch slicesFunc(info, call) {
	case "Index":
		return m.isElem(call.Args[1]) && !m.isList(call.Args[1])
	case "IndexFunc":
		fl, ok := an.Unparen(call.Args[1]).(*ast.FuncLit)
		return ok && funcLitEq(info, fl, m.isElem)
	}
	return false
}

// edges returns the pass/fail edges of every recognised membership test in fn:
// slices.Contains/ContainsFunc, slices.Index/IndexFunc compared with 0 or -1, and the flag
// idiom (flag := false; for _, x := range list { if x[.f] == elem { flag = true } }; if !flag).
func (m memberSpec) edges(fn *an.Fn) (pass, fail []an.Edge, at []an.Point) {
	info := fn.Info
	add := func(p, f []an.Edge, a []an.Point) {
		pass, fail, at = append(pass, p...), append(fail, f...), append(at, a...)
	}
	add(condEdgesL(fn, func(cond ast.Expr) (bool, bool) {
		x, neg := negated(cond)
		if call, ok := x.(*ast.CallExpr); ok && m.containsCall(info, call) {
			return true, !neg
		}
		if be, ok := x.(*ast.BinaryExpr); ok && !neg {
			for _, flipd := range []bool{false, true} {
				l, r, op := be.X, be.Y, be.Op
				if flipd {
					l, r, op = be.Y, be.X, flipTok(be.Op)
				}
				call, ok := an.Unparen(l).(*ast.CallExpr)
				if !ok || !m.indexCall(info, call) {
					continue
				}
				v, isConst := an.ConstInt(info, r)
				if !isConst {
					continue
				}
				switch {
				case v == 0 && op == token.GEQ, v == -1 && op == token.NEQ, v == -1 && op == token.GTR:
					return true, true
				case v == 0 && op == token.LSS, v == -1 && op == token.EQL, v == -1 && op == token.LEQ:
					return true, false
				}
			}
		}
		return false, false
	}))
	// flag idiom
	rangeVars := map[types.Object]bool{}
	ast.Inspect(fn.Body, func(n ast.Node) bool {
		rs, ok := n.(*ast.RangeStmt)
		if !ok || !m.isList(rs.X) {
			return true
		}
		if v, ok := rs.Value.(*ast.Ident); ok && info.Defs[v] != nil {
			rangeVars[info.Defs[v]] = true
		}
		return true
	})
	if len(rangeVars) == 0 {
		return
	}
	isRV := func(e ast.Expr) bool { return rootedAt(info, e, rangeVars) }
	eqPass, _, _ := condEdgesL(fn, func(cond ast.Expr) (bool, bool) {
		be, ok := cond.(*ast.BinaryExpr)
		if !ok || be.Op != token.EQL {
			return false, false
		}
		if (isRV(be.X) && m.isElem(be.Y) && !isRV(be.Y)) || (isRV(be.Y) && m.isElem(be.X) && !isRV(be.X)) {
			return true, true
		}
		return false, false
	})
	if len(eqPass) == 0 {
		return
	}
	defs := assignedExprs(fn)
	isBoolLit := func(e ast.Expr, name string) bool {
		id, ok := an.Unparen(e).(*ast.Ident)
		if !ok || id.Name != name {
			return false
		}
		_, isConst := info.Uses[id].(*types.Const)
		return isConst
	}
	goodFlag := map[types.Object]bool{}
	for o, rhss := range defs {
		if b, ok := o.Type().Underlying().(*types.Basic); !ok || b.Kind() != types.Bool {
			continue
		}
		sawTrue, ok := false, true
		for _, r := range rhss {
			switch {
			case isBoolLit(r, "false"):
			case isBoolLit(r, "true"):
				sawTrue = true
			default:
				ok = false
			}
		}
		if !ok || !sawTrue {
			continue
		}
		// every `flag = true` lies behind an equality with a ranged element
		for _, h := range fn.FindNodes(func(n ast.Node) bool {
			as, isAs := n.(*ast.AssignStmt)
			if !isAs || len(as.Lhs) != 1 || len(as.Rhs) != 1 || !isBoolLit(as.Rhs[0], "true") {
				return false
			}
			id, isID := an.Unparen(as.Lhs[0]).(*ast.Ident)
			return isID && objOf(info, id) == o
		}) {
			if !fn.MustPass(h.P, nil, eqPass) {
				ok = false
			}
		}
		if ok {
			goodFlag[o] = true
		}
	}
	add(condEdgesL(fn, func(cond ast.Expr) (bool, bool) {
		x, neg := negated(cond)
		id, ok := x.(*ast.Ident)
		if !ok || !goodFlag[objOf(info, id)] {
			return false, false
		}
		return true, !neg
	}))
	return
}

// ---------------------------------------------------------------- scenario evaluation

// scenario is a partial concrete state (fixed inputs) under which a function's CFG is
// pruned: a forward constant propagation carries the values of locals along the edges that
// remain possible; a condition whose value is determined keeps only the edge of that
// outcome. Byte slices with known content are represented as string constants.
type scenario struct {
	info   *types.Info
	objs   map[types.Object]constant.Value // fixed inputs (parameters, range variables, designated locals)
	fields map[*types.Var]constant.Value   // fixed field values
	nonNil map[types.Object]bool
	// fieldNil decides nil tests of pointer/slice fields: true = nil
	fieldNil map[*types.Var]bool
	cur      map[types.Object]constant.Value // flow state while pruning
	depth    int
}

func isBytesOrString(t types.Type) bool {
	if t == nil {
		return false
	}
	switch u := t.Underlying().(type) {
	case *types.Basic:
		return u.Info()&types.IsString != 0
	case *types.Slice:
		b, ok := u.Elem().Underlying().(*types.Basic)
		return ok && b.Kind() == types.Byte
	}
	return false
}

func (s *scenario) eval(e ast.Expr) (constant.Value, bool) {
	if s.depth > 16 {
		return nil, false
	}
	s.depth++
	defer func() { s.depth-- }()
	e = an.Unparen(e)
	if tv, ok := s.info.Types[e]; ok && tv.Value != nil {
		return tv.Value, true
	}
	switch x := e.(type) {
	case *ast.Ident:
		o := objOf(s.info, x)
		if v, ok := s.objs[o]; ok {
			return v, true
		}
		if v, ok := s.cur[o]; ok {
			return v, true
		}
	case *ast.SelectorExpr:
		if sel := s.info.Selections[x]; sel != nil && sel.Kind() == types.FieldVal {
			if v, ok := s.fields[sel.Obj().(*types.Var)]; ok {
				return v, true
			}
		}
	case *ast.UnaryExpr:
		if x.Op == token.NOT {
			if v, ok := s.eval(x.X); ok && v.Kind() == constant.Bool {
				return constant.MakeBool(!constant.BoolVal(v)), true
			}
		}
	case *ast.SliceExpr:
		base, ok := s.eval(x.X)
		if !ok || base.Kind() != constant.String || x.Slice3 {
			return nil, false
		}
		str := constant.StringVal(base)
		lo, hi := int64(0), int64(len(str))
		if x.Low != nil {
			v, ok := s.eval(x.Low)
			if !ok || v.Kind() != constant.Int {
				return nil, false
			}
			lo, _ = constant.Int64Val(v)
		}
		if x.High != nil {
			v, ok := s.eval(x.High)
			if !ok || v.Kind() != constant.Int {
				return nil, false
			}
			hi, _ = constant.Int64Val(v)
		}
		if lo < 0 || hi > int64(len(str)) || lo > hi {
			return nil, false
		}
		return constant.MakeString(str[lo:hi]), true
	case *ast.CallExpr:
		// conversions
		if tv, ok := s.info.Types[x.Fun]; ok && tv.IsType() && len(x.Args) == 1 {
			v, ok := s.eval(x.Args[0])
			if !ok {
				return nil, false
			}
			switch {
			case v.Kind() == constant.Int && !isBytesOrString(tv.Type):
				return v, true
			case v.Kind() == constant.String && isBytesOrString(tv.Type) && isBytesOrString(s.info.TypeOf(x.Args[0])):
				return v, true
			}
			return nil, false
		}
		if a, isLen := lenArg(s.info, x); isLen {
			if v, ok := s.eval(a); ok && v.Kind() == constant.String {
				return constant.MakeInt64(int64(len(constant.StringVal(v)))), true
			}
			return nil, false
		}
		if fo, ok := an.Callee(s.info, x).(*types.Func); ok && fo.Pkg() != nil && (fo.Pkg().Path() == "bytes" || fo.Pkg().Path() == "strings") && len(x.Args) == 2 {
			av, okA := s.eval(x.Args[0])
			bv, okB := s.eval(x.Args[1])
			if okA && okB && av.Kind() == constant.String && bv.Kind() == constant.String {
				a, b := constant.StringVal(av), constant.StringVal(bv)
				switch fo.Name() {
				case "Equal":
					return constant.MakeBool(a == b), true
				case "HasSuffix":
					return constant.MakeBool(len(a) >= len(b) && a[len(a)-len(b):] == b), true
				case "HasPrefix":
					return constant.MakeBool(len(a) >= len(b) && a[:len(b)] == b), true
				}
			}
		}
	case *ast.BinaryExpr:
		switch x.Op {
		case token.LAND, token.LOR:
			l, lok := s.eval(x.X)
			r, rok := s.eval(x.Y)
			isB := func(v constant.Value, ok bool, want bool) bool {
				return ok && v.Kind() == constant.Bool && constant.BoolVal(v) == want
			}
			if x.Op == token.LAND {
				if isB(l, lok, false) || isB(r, rok, false) {
					return constant.MakeBool(false), true
				}
				if isB(l, lok, true) && isB(r, rok, true) {
					return constant.MakeBool(true), true
				}
			} else {
				if isB(l, lok, true) || isB(r, rok, true) {
					return constant.MakeBool(true), true
				}
				if isB(l, lok, false) && isB(r, rok, false) {
					return constant.MakeBool(false), true
				}
			}
			return nil, false
		case token.ADD, token.SUB:
			l, lok := s.eval(x.X)
			r, rok := s.eval(x.Y)
			if lok && rok && l.Kind() == constant.Int && r.Kind() == constant.Int {
				return constant.BinaryOp(l, x.Op, r), true
			}
			return nil, false
		case token.EQL, token.NEQ, token.LSS, token.LEQ, token.GTR, token.GEQ:
			// nil tests on known non-nil pointers / fields of known nil-ness
			for _, pr := range [][2]ast.Expr{{x.X, x.Y}, {x.Y, x.X}} {
				if an.IsNilIdent(s.info, pr[1]) && (x.Op == token.EQL || x.Op == token.NEQ) {
					if id, ok := an.Unparen(pr[0]).(*ast.Ident); ok && s.nonNil[objOf(s.info, id)] {
						return constant.MakeBool(x.Op == token.NEQ), true
					}
					if se, ok := an.Unparen(pr[0]).(*ast.SelectorExpr); ok {
						if sel := s.info.Selections[se]; sel != nil && sel.Kind() == types.FieldVal {
							if isNil, known := s.fieldNil[sel.Obj().(*types.Var)]; known {
								return constant.MakeBool(isNil == (x.Op == token.EQL)), true
							}
						}
					}
					return nil, false
				}
			}
			// len(field) compared with 0 for fields of known nil-ness
			for _, pr := range [][3]any{{x.X, x.Y, x.Op}, {x.Y, x.X, flipTok(x.Op)}} {
				a, isLen := lenArg(s.info, an.Unparen(pr[0].(ast.Expr)))
				if !isLen {
					continue
				}
				se, ok := an.Unparen(a).(*ast.SelectorExpr)
				if !ok {
					continue
				}
				sel := s.info.Selections[se]
				if sel == nil || sel.Kind() != types.FieldVal {
					continue
				}
				isNil, known := s.fieldNil[sel.Obj().(*types.Var)]
				if !known {
					continue
				}
				if z, ok := an.ConstInt(s.info, pr[1].(ast.Expr)); ok && z == 0 {
					switch pr[2].(token.Token) { // len(f) OP 0 ; a non-nil list is taken to be non-empty
					case token.EQL, token.LEQ:
						return constant.MakeBool(isNil), true
					case token.NEQ, token.GTR:
						return constant.MakeBool(!isNil), true
					}
				}
			}
			l, lok := s.eval(x.X)
			r, rok := s.eval(x.Y)
			if !lok || !rok {
				return nil, false
			}
			if l.Kind() != r.Kind() || (l.Kind() != constant.Int && l.Kind() != constant.String && l.Kind() != constant.Bool) {
				return nil, false
			}
			if l.Kind() == constant.Bool && x.Op != token.EQL && x.Op != token.NEQ {
				return nil, false
			}
			return constant.MakeBool(constant.Compare(l, x.Op, r)), true
		}
	}
	return nil, false
}

var debugPrune = os.Getenv("VERIF_DEBUG_PRUNE") != ""

// transfer updates the flow state for one CFG node.
func (s *scenario) transfer(n ast.Node) {
	kill := func(e ast.Expr) {
		if id, ok := an.Unparen(e).(*ast.Ident); ok {
			if o := objOf(s.info, id); o != nil {
				delete(s.cur, o)
			}
		}
	}
	// closures and address-taking make a local's value unknown
	ast.Inspect(n, func(x ast.Node) bool {
		switch v := x.(type) {
		case *ast.FuncLit:
			ast.Inspect(v.Body, func(y ast.Node) bool {
				switch w := y.(type) {
				case *ast.AssignStmt:
					for _, l := range w.Lhs {
						kill(l)
					}
				case *ast.IncDecStmt:
					kill(w.X)
				}
				return true
			})
			return false
		case *ast.UnaryExpr:
			if v.Op == token.AND {
				kill(v.X)
			}
		}
		return true
	})
	switch st := n.(type) {
	case *ast.AssignStmt:
		vals := make([]constant.Value, len(st.Lhs))
		if (st.Tok == token.ASSIGN || st.Tok == token.DEFINE) && len(st.Lhs) == len(st.Rhs) {
			for i, r := range st.Rhs {
				if v, ok := s.eval(r); ok {
					vals[i] = v
				}
			}
		}
		for i, l := range st.Lhs {
			id, ok := an.Unparen(l).(*ast.Ident)
			if !ok || id.Name == "_" {
				continue
			}
			o := objOf(s.info, id)
			if o == nil {
				continue
			}
			if vals[i] != nil {
				s.cur[o] = vals[i]
			} else {
				delete(s.cur, o)
			}
		}
	case *ast.IncDecStmt:
		kill(st.X)
	case *ast.DeclStmt:
		gd, ok := st.Decl.(*ast.GenDecl)
		if !ok {
			return
		}
		for _, sp := range gd.Specs {
			vs, ok := sp.(*ast.ValueSpec)
			if !ok {
				continue
			}
			for i, nm := range vs.Names {
				o := s.info.Defs[nm]
				if o == nil {
					continue
				}
				delete(s.cur, o)
				if i < len(vs.Values) {
					if v, ok := s.eval(vs.Values[i]); ok {
						s.cur[o] = v
					}
					continue
				}
				if len(vs.Values) == 0 {
					if b, ok := o.Type().Underlying().(*types.Basic); ok {
						switch {
						case b.Info()&types.IsBoolean != 0:
							s.cur[o] = constant.MakeBool(false)
						case b.Info()&types.IsInteger != 0:
							s.cur[o] = constant.MakeInt64(0)
						case b.Info()&types.IsString != 0:
							s.cur[o] = constant.MakeString("")
						}
					}
				}
			}
		}
	case *ast.Ident: // range key/value definitions appear as bare identifiers
		if o := s.info.Defs[st]; o != nil {
			delete(s.cur, o)
		}
	}
}

// prune returns the CFG edges that cannot be taken under the scenario, and the number of
// conditions it decided.
func (s *scenario) prune(fn *an.Fn) (blocked map[an.Edge]bool, decided int) {
	blocked = map[an.Edge]bool{}
	type state = map[types.Object]constant.Value
	in := map[*cfg.Block]state{}
	copyState := func(m state) state {
		out := state{}
		for k, v := range m {
			out[k] = v
		}
		return out
	}
	// meet returns whether dst changed
	meet := func(b *cfg.Block, src state) bool {
		old, seen := in[b]
		if !seen {
			in[b] = copyState(src)
			return true
		}
		changed := false
		for k, v := range old {
			w, ok := src[k]
			if !ok || w.Kind() != v.Kind() || !constant.Compare(v, token.EQL, w) {
				delete(old, k)
				changed = true
			}
		}
		return changed
	}
	flow := func(b *cfg.Block) (out state, condVal constant.Value, isCond, known bool) {
		s.cur = copyState(in[b])
		_, _, isCond = an.CondEdges(b)
		last := len(b.Nodes)
		if isCond {
			last--
		}
		for _, n := range b.Nodes[:last] {
			s.transfer(n)
		}
		if isCond {
			condVal, known = s.eval(b.Nodes[last].(ast.Expr))
			if known && condVal.Kind() != constant.Bool {
				known = false
			}
		}
		return s.cur, condVal, isCond, known
	}
	entry := fn.Entry()
	in[entry] = state{}
	work := []*cfg.Block{entry}
	for steps := 0; len(work) > 0 && steps < 100000; steps++ {
		b := work[len(work)-1]
		work = work[:len(work)-1]
		out, v, isCond, known := flow(b)
		for k, succ := range b.Succs {
			if isCond && known && (constant.BoolVal(v) != (k == 0)) {
				continue
			}
			if meet(succ, out) {
				work = append(work, succ)
			}
		}
	}
	for _, b := range fn.G.Blocks {
		if !b.Live {
			continue
		}
		if _, reached := in[b]; !reached {
			for k := range b.Succs {
				blocked[an.Edge{B: b, K: k}] = true
			}
			continue
		}
		_, v, isCond, known := flow(b)
		if !isCond || !known {
			continue
		}
		decided++
		if debugPrune {
			println("DECIDED", an.Str(b.Nodes[len(b.Nodes)-1]), constant.BoolVal(v))
		}
		if constant.BoolVal(v) {
			blocked[an.Edge{B: b, K: 1}] = true
		} else {
			blocked[an.Edge{B: b, K: 0}] = true
		}
	}
	s.cur = nil
	return
}

// ---------------------------------------------------------------- call graph (package tls)

type callGraph struct {
	decl    map[*types.Func]*ast.FuncDecl
	callees map[*types.Func]map[*types.Func]bool
}

// buildCallGraph resolves static calls and calls through interfaces declared in the module
// (to every module type implementing them). Function values are not followed.
func (c *Ctx) buildCallGraph() *callGraph {
	pkg := c.P.TLS
	info := pkg.TypesInfo
	g := &callGraph{decl: map[*types.Func]*ast.FuncDecl{}, callees: map[*types.Func]map[*types.Func]bool{}}
	for _, fd := range load.AllFuncDecls(pkg) {
		if fo, ok := info.Defs[fd.Name].(*types.Func); ok {
			g.decl[fo] = fd
		}
	}
	var named []*types.Named
	scope := pkg.Types.Scope()
	for _, n := range scope.Names() {
		if tn, ok := scope.Lookup(n).(*types.TypeName); ok && !tn.IsAlias() {
			if nm, ok := tn.Type().(*types.Named); ok {
				named = append(named, nm)
			}
		}
	}
	impls := func(m *types.Func) []*types.Func {
		sig := m.Type().(*types.Signature)
		if sig.Recv() == nil {
			return nil
		}
		it, ok := sig.Recv().Type().Underlying().(*types.Interface)
		if !ok || m.Pkg() != pkg.Types {
			return nil
		}
		var out []*types.Func
		for _, nm := range named {
			if _, isI := nm.Underlying().(*types.Interface); isI {
				continue
			}
			for _, t := range []types.Type{nm, types.NewPointer(nm)} {
				if types.Implements(t, it) {
					o, _, _ := types.LookupFieldOrMethod(t, true, pkg.Types, m.Name())
					if f, ok := o.(*types.Func); ok {
						out = append(out, f)
					}
					break
				}
			}
		}
		return out
	}
	for fo, fd := range g.decl {
		set := map[*types.Func]bool{}
		ast.Inspect(fd.Body, func(n ast.Node) bool {
			call, ok := n.(*ast.CallExpr)
			if !ok {
				return true
			}
			cal, ok := an.Callee(info, call).(*types.Func)
			if !ok {
				return true
			}
			if _, has := g.decl[cal]; has {
				set[cal] = true
				return true
			}
			for _, im := range impls(cal) {
				if _, has := g.decl[im]; has {
					set[im] = true
				}
			}
			return true
		})
		g.callees[fo] = set
	}
	return g
}

func (g *callGraph) reach(roots ...*types.Func) map[*types.Func]bool {
	seen := map[*types.Func]bool{}
	work := append([]*types.Func{}, roots...)
	for len(work) > 0 {
		f := work[len(work)-1]
		work = work[:len(work)-1]
		if f == nil || seen[f] {
			continue
		}
		seen[f] = true
		for cal := range g.callees[f] {
			work = append(work, cal)
		}
	}
	return seen
}

// funcName renders recv.name.
func funcName(f *types.Func) string {
	sig := f.Type().(*types.Signature)
	if r := sig.Recv(); r != nil {
		return an.TypeName(r.Type()) + "." + f.Name()
	}
	return f.Name()
}

func sortedFuncs(m map[*types.Func]bool) []*types.Func {
	var out []*types.Func
	for f := range m {
		out = append(out, f)
	}
	sort.Slice(out, func(i, j int) bool { return funcName(out[i]) < funcName(out[j]) })
	return out
}

// fieldVar looks up field `name` of the named struct `owner` in the root package.
func (c *Ctx) fieldVar(owner, name string) *types.Var {
	nm := load.Named(c.P.TLS, owner)
	if nm == nil {
		return nil
	}
	st, ok := nm.Underlying().(*types.Struct)
	if !ok {
		return nil
	}
	for i := 0; i < st.NumFields(); i++ {
		if st.Field(i).Name() == name {
			return st.Field(i)
		}
	}
	return nil
}

// methodObj resolves recv.name to its *types.Func.
func (c *Ctx) methodObj(recv, name string) *types.Func {
	fd := load.FuncDecl(c.P.TLS, recv, name)
	if fd == nil {
		return nil
	}
	f, _ := c.Info().Defs[fd.Name].(*types.Func)
	return f
}
