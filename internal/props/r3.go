package props

// Rules added after the third round of independently written changes (seeded/).

import (
	"go/ast"
	"go/types"
	"strings"

	"verif/internal/an"
	"verif/internal/report"
)

func init() {
	// C08.10 (seeded C08-6): the GREASE ECH decoder/encoder pair keeps the KDF/AEAD pair apart.
	// GREASEEncryptedClientHelloExtension.init picks the suite that Read encodes; if it fills both
	// slots from the KDF id, the AEAD id of a decoded body is lost on re-encoding ("decoding a body
	// produced by Read() and encoding again reproduces the same bytes"). The slot-role rule is C16.8.
	registerExtra("C08", func(c *Ctx) {
		c.R.BorrowIf(map[string]string{"C16.8": "C08.10"}, func(o report.Obligation) bool {
			return strings.Contains(o.Construct, "GREASEEncryptedClientHelloExtension")
		}, func() { c16SuiteSlots(c) })
		c.R.Floor("C08.10", 2)
	})
	registerExtra("C35", c35ExpiryPerKey)
}

// c35ExpiryPerKey, C35.8 (seeded C35-5): "a ticket sealed with a key that is no longer configured
// yields no state" includes keys that auto-rotation has expired. In Config.ticketKeys the loop
// that carries keys over into the new list must decide for each key on that key: the condition
// under which the loop variable is appended has to mention the loop variable. A condition that
// does not (for instance one on the newest key) keeps every key or none, so expired keys go on
// decrypting tickets.
func c35ExpiryPerKey(c *Ctx) {
	r := c.R
	info := c.Info()
	fn := c.Fn("C35.8", "Config", "ticketKeys")
	if fn == nil {
		return
	}
	n := 0
	ast.Inspect(fn.Body, func(x ast.Node) bool {
		rs, ok := x.(*ast.RangeStmt)
		if !ok {
			return true
		}
		v, ok := rs.Value.(*ast.Ident)
		if !ok || info.Defs[v] == nil {
			return true
		}
		vo := info.Defs[v]
		// appends of the loop variable inside the loop
		for _, h := range fn.FindNodes(func(y ast.Node) bool {
			call, ok := y.(*ast.CallExpr)
			if !ok || !isAppend(info, call) || len(call.Args) < 2 {
				return false
			}
			if call.Pos() < rs.Body.Pos() || call.End() > rs.Body.End() {
				return false
			}
			for _, a := range call.Args[1:] {
				if id, ok := an.Unparen(a).(*ast.Ident); ok && objOf(info, id) == vo {
					return true
				}
			}
			return false
		}) {
			n++
			cons := "ticketKeys:carry-over#" + c15Itoa(n)
			var guards []ast.Expr
			for _, cc := range controllingConds(fn, h.P) {
				if cc.cond.Pos() >= rs.Body.Pos() && cc.cond.End() <= rs.Body.End() {
					guards = append(guards, cc.cond)
				}
			}
			if len(guards) == 0 {
				r.Bad("C35.8", cons, c.Pos(h.N), "every key is carried over unconditionally: expired ticket keys are never dropped")
				continue
			}
			mentions := false
			for _, g := range guards {
				if mentionsThroughLocals(fn, g, vo, 0) {
					mentions = true
				}
			}
			r.Check(mentions, "C35.8", cons, c.Pos(h.N), "the key is kept under a condition on that key",
				"the condition under which a key is carried over ("+an.Str(guards[0])+") does not depend on the key being examined: expiry is decided once for all keys, so an expired key keeps decrypting tickets")
		}
		return true
	})
	if n == 0 {
		r.Unknown("C35.8", "ticketKeys:carry-over", c.Pos(fn.Decl), "no loop carrying existing keys over found")
	}
	r.Floor("C35.8", 1)
}

func init() {
	// C10.3-convert (seeded C10-5): the retained keys reach the handshake through
	// KeySharePrivateKeys.ToPrivate; a field it drops is a key share the client offered and cannot
	// complete (the conversion rule is C31.1, also borrowed by C18.6).
	registerExtra("C10", func(c *Ctx) {
		c.R.BorrowIf(map[string]string{"C31.1": "C10.3-convert"}, func(o report.Obligation) bool {
			return strings.HasPrefix(o.Construct, "KeySharePrivateKeys<->")
		}, func() { runC31(c) })
		c.R.Floor("C10.3-convert", 3)
	})
	// C02.10 (seeded C02-5): the quic_transport_parameters body is a sequence of varints; a value
	// encoded at a width its prefix does not announce does not parse (varint rules of C24).
	registerExtra("C02", func(c *Ctx) {
		c.R.BorrowIf(map[string]string{"C24.1": "C02.10", "C24.2": "C02.10", "C24.3": "C02.10", "C24.4": "C02.10"}, nil, func() { runC24(c) })
		c.R.Floor("C02.10", 4)
	})
	// C02.11 (seeded C02-6): "no extension type repeats" includes the two GREASE extensions, whose
	// code points are derived from two seeds: the de-duplication step must compare the derived
	// values (rule C04.4).
	registerExtra("C02", func(c *Ctx) {
		c.R.BorrowIf(map[string]string{"C04.4": "C02.11"}, func(o report.Obligation) bool {
			return strings.Contains(o.Construct, "dedup")
		}, func() { runC04(c) })
		c.R.Floor("C02.11", 1)
	})
	// C20.11 (seeded C20-5): "a session supplied through the setters appears on the wire as given":
	// the session_ticket encoder's lengths cover the ticket for every ticket size (encoder-layout
	// obligations, the engine behind C02.2/C08.1, instantiated for the two session extensions).
	registerExtra("C20", func(c *Ctx) {
		n := 0
		for _, e := range tlsExtensions(c) {
			if e.Name == "SessionTicketExtension" || e.Name == "UtlsPreSharedKeyExtension" {
				checkEncoder(c, "C20.11", e)
				n++
			}
		}
		if n == 0 {
			c.R.Unknown("C20.11", "session extensions", "", "SessionTicketExtension / UtlsPreSharedKeyExtension not found")
		}
		c.R.Floor("C20.11", 4)
	})
	registerExtra("C19", c19PlaceholderBinderSize)
}

// c19PlaceholderBinderSize, C19.10 (seeded C19-5): "inserting the real binder leaves the hello
// length unchanged" requires the placeholder binders that InitializeByUtls puts into the extension
// to have the size of the real binder, which is the hash size of the session's cipher suite. A
// constant size is right for one hash only (SHA-256) and makes every session negotiated with a
// SHA-384 suite fail when the binder is patched in. Decided on every make() whose result becomes an
// element of the extension's Binders: its length must be derived from the suite's hash.
func c19PlaceholderBinderSize(c *Ctx) {
	r := c.R
	info := c.Info()
	fn := c.Fn("C19.10", "UtlsPreSharedKeyExtension", "InitializeByUtls")
	if fn == nil {
		return
	}
	n := 0
	ast.Inspect(fn.Body, func(x ast.Node) bool {
		call, ok := x.(*ast.CallExpr)
		if !ok || !isAppend(info, call) || len(call.Args) < 2 || !an.MentionsField(info, call.Args[0], "PreSharedKeyCommon", "Binders") {
			return true
		}
		for _, a := range call.Args[1:] {
			mk, ok := an.Unparen(inlineLocal(fn, a)).(*ast.CallExpr)
			if !ok || len(mk.Args) < 2 {
				continue
			}
			if id, ok := mk.Fun.(*ast.Ident); !ok || id.Name != "make" {
				continue
			}
			n++
			size := inlineLocal(fn, mk.Args[1])
			fromHash := an.Contains(size, func(y ast.Node) bool {
				se, ok := y.(*ast.SelectorExpr)
				return ok && se.Sel.Name == "hash" && an.TypeName(info.TypeOf(se.X)) == "cipherSuiteTLS13"
			})
			_, isConst := an.ConstInt(info, size)
			switch {
			case fromHash:
				r.Ok("C19.10", "InitializeByUtls:placeholder-binder-size", c.Pos(mk), "placeholder binder sized by the session suite's hash")
			case isConst:
				r.Bad("C19.10", "InitializeByUtls:placeholder-binder-size", c.Pos(mk), "the placeholder binder has the constant size %s: the real binder has the hash size of the session's cipher suite, so a session negotiated with a SHA-384 suite cannot be offered (binder length mismatch)", an.Str(mk.Args[1]))
			default:
				r.Unknown("C19.10", "InitializeByUtls:placeholder-binder-size", c.Pos(mk), "placeholder binder size %s is neither a constant nor derived from the suite's hash", an.Str(mk.Args[1]))
			}
		}
		return true
	})
	if n == 0 {
		r.Unknown("C19.10", "InitializeByUtls:placeholder-binder-size", c.Pos(fn.Decl), "no placeholder binder allocation found")
	}
	r.Floor("C19.10", 1)
}

func init() { registerExtra("C30", c30SaltedSeedReturned) }

// c30SaltedSeedReturned, C30.6 (seeded C30-5): a salted PRNG is seeded from HKDF(seed, salt);
// newSaltedPRNGSeed must hand back the buffer it filled from that stream. Returning the input
// seed makes every salt yield the unsalted stream (streams that must be independent coincide).
func c30SaltedSeedReturned(c *Ctx) {
	r := c.R
	info := c.Info()
	fn := c.Fn("C30.6", "", "newSaltedPRNGSeed")
	if fn == nil {
		return
	}
	// destination objects of reads from a derived stream
	filled := map[types.Object]bool{}
	for _, h := range fn.FindNodes(func(x ast.Node) bool {
		call, ok := x.(*ast.CallExpr)
		if !ok {
			return false
		}
		f, _ := an.Callee(info, call).(*types.Func)
		return f != nil && ((f.Pkg() != nil && f.Pkg().Path() == "io" && f.Name() == "ReadFull" && len(call.Args) == 2) || (f.Name() == "Read" && len(call.Args) == 1))
	}) {
		call := h.N.(*ast.CallExpr)
		dst := call.Args[len(call.Args)-1]
		ast.Inspect(dst, func(y ast.Node) bool {
			if id, ok := y.(*ast.Ident); ok {
				if o := objOf(info, id); o != nil {
					filled[o] = true
				}
			}
			return true
		})
	}
	var params []types.Object
	for _, fl := range fn.Decl.Type.Params.List {
		for _, nm := range fl.Names {
			params = append(params, info.Defs[nm])
		}
	}
	n := 0
	for _, p := range fn.Returns() {
		rs, ok := p.Node().(*ast.ReturnStmt)
		if !ok || len(rs.Results) != 2 || !an.IsNilIdent(info, rs.Results[1]) {
			continue
		}
		n++
		res := rs.Results[0]
		okRet := false
		for o := range filled {
			if mentionsThroughLocals(fn, res, o, 0) {
				okRet = true
			}
		}
		for _, po := range params {
			if id, isID := an.Unparen(rs.Results[0]).(*ast.Ident); isID && objOf(info, id) == po {
				okRet = false
			}
		}
		r.Check(okRet, "C30.6", "newSaltedPRNGSeed:returns-derived-seed", c.Pos(rs), "the successful return is the buffer filled from HKDF(seed, salt)",
			"newSaltedPRNGSeed returns "+an.Str(rs.Results[0])+", not the buffer it filled from the salted stream: every salt yields the same (unsalted) PRNG stream")
	}
	if n == 0 {
		r.Unknown("C30.6", "newSaltedPRNGSeed:returns-derived-seed", c.Pos(fn.Decl), "no successful return found")
	}
	r.Floor("C30.6", 1)
}

func init() {
	// C07.9 (seeded C07-5): the padding policies installed by the importers never return a negative
	// or overlong body (the range rules of C05.1 for AlwaysPadToLen / BoringPaddingStyle): a policy
	// that under-runs makes UtlsPaddingExtension.Read index past the marshal buffer.
	registerExtra("C07", func(c *Ctx) {
		c.R.BorrowIf(map[string]string{"C05.1": "C07.9"}, nil, func() { runC05(c) })
		c.R.Floor("C07.9", 4)
	})
	registerExtra("C07", func(c *Ctx) { pskRecognisedByInterface(c, "C07.10") })
	registerExtra("C02", func(c *Ctx) { pskRecognisedByInterface(c, "C02.12") })
}

// pskRecognisedByInterface (seeded C07-6): AlwaysAddPadding must put the padding extension before
// *any* pre_shared_key extension. The test that recognises one has to cover every type that
// implements PreSharedKeyExtension: an assertion to the interface, or assertions to all of its
// implementers (computed from the package on every run). With a narrower test the padding is
// appended after a PSK extension, and ApplyPreset's "PSK must be last" assertion panics.
func pskRecognisedByInterface(c *Ctx, rule string) {
	r := c.R
	info := c.Info()
	fn := c.Fn(rule, "ClientHelloSpec", "AlwaysAddPadding")
	if fn == nil {
		return
	}
	tn, _ := c.P.TLS.Types.Scope().Lookup("PreSharedKeyExtension").(*types.TypeName)
	if tn == nil {
		r.Unknown(rule, "AlwaysAddPadding:psk-recognised", c.Pos(fn.Decl), "interface PreSharedKeyExtension not found")
		return
	}
	iface, _ := tn.Type().Underlying().(*types.Interface)
	var impls []string
	scope := c.P.TLS.Types.Scope()
	for _, name := range scope.Names() {
		o, ok := scope.Lookup(name).(*types.TypeName)
		if !ok || o.IsAlias() {
			continue
		}
		if _, isIface := o.Type().Underlying().(*types.Interface); isIface {
			continue
		}
		if strings.HasPrefix(name, "Unimplemented") {
			continue
		}
		if iface != nil && types.Implements(types.NewPointer(o.Type()), iface) {
			impls = append(impls, name)
		}
	}
	covered := map[string]bool{}
	viaIface := false
	ast.Inspect(fn.Body, func(x ast.Node) bool {
		var ts []ast.Expr
		switch v := x.(type) {
		case *ast.TypeAssertExpr:
			if v.Type != nil {
				ts = append(ts, v.Type)
			}
		case *ast.CaseClause:
			ts = append(ts, v.List...)
		}
		for _, t := range ts {
			tv, ok := info.Types[t]
			if !ok || !tv.IsType() {
				continue
			}
			if types.Identical(tv.Type, tn.Type()) {
				viaIface = true
			}
			covered[an.TypeName(tv.Type)] = true
		}
		return true
	})
	var missing []string
	for _, n := range impls {
		if !covered[n] {
			missing = append(missing, n)
		}
	}
	r.Check(viaIface || (len(impls) > 0 && len(missing) == 0), rule, "AlwaysAddPadding:psk-recognised", c.Pos(fn.Decl),
		"every pre_shared_key extension type is recognised (padding goes before it)",
		"AlwaysAddPadding does not recognise "+strings.Join(missing, ", ")+" as a pre_shared_key extension: padding is appended after it, and ApplyPreset panics because pre_shared_key is no longer last")
	r.Floor(rule, 1)
}

func init() {
	// C06.7 (seeded C06-5): a fingerprinted GREASE ECH extension regenerates the KDF/AEAD pair of the
	// capture: the decoder must put each id into its own slot (slot-role rule C16.8).
	registerExtra("C06", func(c *Ctx) {
		c.R.BorrowIf(map[string]string{"C16.8": "C06.7"}, func(o report.Obligation) bool {
			return strings.Contains(o.Construct, "GREASEEncryptedClientHelloExtension")
		}, func() { c16SuiteSlots(c) })
		c.R.Floor("C06.7", 2)
	})
}

func init() { registerExtra("C22", c22ALPSSentWhenNegotiated) }

// c22ALPSSentWhenNegotiated, C22.8 (seeded C22-6): once ALPS was negotiated the client
// EncryptedExtensions must carry the extension, also with empty settings (what Chrome sends for
// h2); a server that negotiated ALPS fails the handshake when it is missing. In
// utlsClientEncryptedExtensionsMsg.marshal the write of the ALPS code point may therefore depend on
// the code point being set, but on no condition over the settings bytes.
func c22ALPSSentWhenNegotiated(c *Ctx) {
	r := c.R
	info := c.Info()
	fn := c.Fn("C22.8", "utlsClientEncryptedExtensionsMsg", "marshal")
	if fn == nil {
		return
	}
	n := 0
	var stack []ast.Node
	ast.Inspect(fn.Body, func(x ast.Node) bool {
		if x == nil {
			stack = stack[:len(stack)-1]
			return false
		}
		stack = append(stack, x)
		call, ok := x.(*ast.CallExpr)
		if !ok || len(call.Args) != 1 || !an.FieldSel(info, an.Unparen(call.Args[0]), "utlsClientEncryptedExtensionsMsg", "applicationSettingsCodepoint") {
			return true
		}
		n++
		var bad ast.Expr
		for i := len(stack) - 2; i >= 0; i-- {
			is, ok := stack[i].(*ast.IfStmt)
			if !ok {
				continue
			}
			inBody := is.Body.Pos() <= call.Pos() && call.End() <= is.Body.End()
			inElse := is.Else != nil && is.Else.Pos() <= call.Pos() && call.End() <= is.Else.End()
			if (inBody || inElse) && an.MentionsField(info, is.Cond, "utlsClientEncryptedExtensionsMsg", "applicationSettings") {
				bad = is.Cond
			}
		}
		r.Check(bad == nil, "C22.8", "utlsClientEncryptedExtensionsMsg.marshal:alps-written-when-negotiated", c.Pos(call),
			"the ALPS extension is written whenever its code point is set, whatever the settings",
			"the ALPS extension is written only under a condition on the settings bytes ("+an.Str(bad)+"): with empty settings, which is what browsers send, the client EncryptedExtensions lacks the extension the server negotiated")
		return true
	})
	if n == 0 {
		r.Unknown("C22.8", "utlsClientEncryptedExtensionsMsg.marshal:alps-written-when-negotiated", c.Pos(fn.Decl), "no write of the ALPS code point found")
	}
	r.Floor("C22.8", 1)
}

func init() {
	registerExtra("C09", c09RemovalKeepsOrder)
	registerExtra("C09", c09DefaultWeightsOnlyForNil)
	registerExtra("C15", c15SuiteFullySupported)
	registerExtra("C15", c15RetryListSkipsOnly)
}

// c09RemovalKeepsOrder, C09.9 (seeded C09-5): the suites reach removeRandomCiphers ordered TLS 1.3
// first, then TLS 1.2-only, then older; removal must keep the survivors in that order. Deleting by
// shifting the tail (append(s[:i], s[i+1:]...), copy, slices.Delete) does; overwriting s[i] with
// another element of the slice moves a suite of a later block into an earlier one.
func c09RemovalKeepsOrder(c *Ctx) {
	r := c.R
	info := c.Info()
	fn := c.Fn("C09.9", "", "removeRandomCiphers")
	if fn == nil {
		return
	}
	var sObj types.Object
	for _, fl := range fn.Decl.Type.Params.List {
		for _, nm := range fl.Names {
			if _, isSlice := info.TypeOf(nm).Underlying().(*types.Slice); isSlice {
				sObj = info.Defs[nm]
			}
		}
	}
	isS := func(e ast.Expr) bool {
		id, ok := an.Unparen(e).(*ast.Ident)
		return ok && sObj != nil && objOf(info, id) == sObj
	}
	bad := ""
	ast.Inspect(fn.Body, func(x ast.Node) bool {
		as, ok := x.(*ast.AssignStmt)
		if !ok {
			return true
		}
		for i, l := range as.Lhs {
			ix, ok := an.Unparen(l).(*ast.IndexExpr)
			if !ok || !isS(ix.X) || i >= len(as.Rhs) {
				continue
			}
			if rix, ok := an.Unparen(inlineLocal(fn, as.Rhs[i])).(*ast.IndexExpr); ok && isS(rix.X) && an.Str(rix.Index) != an.Str(ix.Index) {
				bad = an.Str(l) + " = " + an.Str(as.Rhs[i])
			}
		}
		return true
	})
	r.Check(bad == "", "C09.9", "removeRandomCiphers:order-preserved", c.Pos(fn.Decl), "elements are removed by shifting the tail; no element is moved over another",
		"removeRandomCiphers moves an element into the place of a removed one ("+bad+"): a suite of a later block (older suites) lands among the TLS 1.3 / TLS 1.2 suites")
	r.Floor("C09.9", 1)
}

// c09DefaultWeightsOnlyForNil, C09.10 (seeded C09-6): "weights of 0 make the corresponding optional
// feature absent" holds only if a Weights value the caller supplied is used as it is; the default
// set may replace a nil pointer, nothing else (an all-zero Weights is a legitimate request).
func c09DefaultWeightsOnlyForNil(c *Ctx) {
	r := c.R
	info := c.Info()
	fn := c.Fn("C09.10", "", "generateRandomizedSpec")
	if fn == nil {
		return
	}
	n := 0
	for _, h := range fn.FindNodes(an.AssignsTo(func(e ast.Expr) bool { return an.FieldSel(info, an.Unparen(e), "ClientHelloID", "Weights") })) {
		n++
		ok, off := exactGuard(fn, h.P, func(atom ast.Expr) bool {
			be, isBin := an.Unparen(atom).(*ast.BinaryExpr)
			if !isBin {
				return !an.MentionsField(info, atom, "ClientHelloID", "Weights")
			}
			if !an.MentionsField(info, be, "ClientHelloID", "Weights") {
				return true
			}
			return (an.IsNilIdent(info, be.X) || an.IsNilIdent(info, be.Y)) && (an.FieldSel(info, an.Unparen(be.X), "ClientHelloID", "Weights") || an.FieldSel(info, an.Unparen(be.Y), "ClientHelloID", "Weights"))
		})
		r.Check(ok, "C09.10", "generateRandomizedSpec:default-weights-only-for-nil", c.Pos(h.N), "the defaults replace only a nil Weights pointer",
			"the caller's Weights are replaced under the condition "+off+": a Weights value with zero entries (features switched off) is overridden by the defaults")
	}
	if n == 0 {
		r.Ok("C09.10", "generateRandomizedSpec:default-weights-only-for-nil", c.Pos(fn.Decl), "Weights are never replaced")
	}
	r.Floor("C09.10", 1)
}

// c15SuiteFullySupported, C15.11 (seeded C15-5): pickECHCipherSuite returns a suite of the config
// only after both its AEAD and its KDF were found among the supported ones; a suite with one
// unsupported half makes the HPKE setup fail ("unsupported KDF id") although a later suite of the
// config would have worked.
func c15SuiteFullySupported(c *Ctx) {
	r := c.R
	info := c.Info()
	fn := c.Fn("C15.11", "", "pickECHCipherSuite")
	if fn == nil {
		return
	}
	okVars := map[string]map[types.Object]bool{"SupportedAEADs": {}, "SupportedKDFs": {}}
	ast.Inspect(fn.Body, func(x ast.Node) bool {
		as, ok := x.(*ast.AssignStmt)
		if !ok || len(as.Lhs) != 2 || len(as.Rhs) != 1 {
			return true
		}
		ix, ok := an.Unparen(as.Rhs[0]).(*ast.IndexExpr)
		if !ok {
			return true
		}
		for name := range okVars {
			if se, ok := an.Unparen(ix.X).(*ast.SelectorExpr); ok && se.Sel.Name == name {
				if id, ok := as.Lhs[1].(*ast.Ident); ok {
					okVars[name][objOf(info, id)] = true
				}
			}
		}
		return true
	})
	for _, p := range fn.Returns() {
		rs, ok := p.Node().(*ast.ReturnStmt)
		if !ok || len(rs.Results) != 2 || !an.IsNilIdent(info, rs.Results[1]) {
			continue
		}
		for _, name := range []string{"SupportedAEADs", "SupportedKDFs"} {
			pass, _, _ := condEdges(fn, func(cond ast.Expr) (bool, bool) {
				id, ok := an.Unparen(cond).(*ast.Ident)
				return ok && okVars[name][objOf(info, id)], true
			})
			r.Check(len(pass) > 0 && fn.MustPass(p, nil, pass), "C15.11", "pickECHCipherSuite:"+name, c.Pos(rs),
				"a suite is returned only after its id was found in hpke."+name,
				"a suite can be returned without its id having been found in hpke."+name+": the first suite of the config with one supported half is picked and the HPKE setup then fails, instead of moving on to a fully supported suite")
		}
	}
	r.Floor("C15.11", 2)
}

// c15RetryListSkipsOnly, C15.12 (seeded C15-6): "a rejecting server makes the client return
// ECHRejectionError carrying the server's retry configs": buildRetryConfigList must include every
// key marked SendAsRetry; a key that is not marked is skipped, it must not end the scan (after the
// skip outcome a later key can still be added).
func c15RetryListSkipsOnly(c *Ctx) {
	r := c.R
	info := c.Info()
	fd := c.Fn("C15.12", "", "buildRetryConfigList")
	if fd == nil {
		return
	}
	n := 0
	var fns []*an.Fn
	fns = append(fns, fd)
	ast.Inspect(fd.Body, func(x ast.Node) bool {
		if fl, ok := x.(*ast.FuncLit); ok {
			fns = append(fns, an.NewLit(c.P.TLS, "buildRetryConfigList$lit", fl))
		}
		return true
	})
	for _, fn := range fns {
		_, skip, _ := condEdges(fn, func(cond ast.Expr) (bool, bool) {
			return an.FieldSel(info, an.Unparen(cond), "EncryptedClientHelloKey", "SendAsRetry"), true
		})
		adds := fn.Find(func(x ast.Node) bool {
			call, ok := x.(*ast.CallExpr)
			return ok && len(call.Args) == 1 && an.FieldSel(info, an.Unparen(call.Args[0]), "EncryptedClientHelloKey", "Config")
		})
		if len(skip) == 0 || len(adds) == 0 {
			continue
		}
		for _, e := range skip {
			n++
			start := edgeStart(e)
			reach := fn.Reach(start, nil, nil)
			reach[start] = true
			later := false
			for _, a := range adds {
				if reach[a] {
					later = true
				}
			}
			r.Check(later, "C15.12", "buildRetryConfigList:skip-continues", c.PosP(edgePt(e)), "after skipping a key that is not a retry config the scan goes on",
				"a key without SendAsRetry ends the scan: retry configs listed after it are never sent, and a client rejected by this server gets an empty RetryConfigList")
		}
	}
	if n == 0 {
		r.Unknown("C15.12", "buildRetryConfigList:skip-continues", c.Pos(fd.Decl), "no SendAsRetry test next to an append of the key's Config found")
	}
	r.Floor("C15.12", 1)
}

func init() {
	// C06.8 (seeded C06-6): FromRaw installs AlwaysPadToLen so that a fingerprinted hello is
	// regenerated at the captured length; the policy must pad every hello shorter than the target
	// (range rules of C05.1 for AlwaysPadToLen).
	registerExtra("C06", func(c *Ctx) {
		c.R.BorrowIf(map[string]string{"C05.1": "C06.8"}, func(o report.Obligation) bool {
			return strings.HasPrefix(o.Construct, "AlwaysPadToLen")
		}, func() { runC05(c) })
		c.R.Floor("C06.8", 2)
	})
	// C18.9 (seeded C18-6): "QUIC connections carry an empty legacy session ID": no store of a
	// session id into the hello is reachable on a QUIC connection, in ApplyPreset (C18.4) and in the
	// function that makes the hello for it (rule C23.5).
	registerExtra("C18", func(c *Ctx) {
		c.R.BorrowIf(map[string]string{"C23.5": "C18.9"}, func(o report.Obligation) bool {
			return strings.Contains(o.Construct, "session-id")
		}, func() { runC23(c) })
		c.R.Floor("C18.9", 1)
	})
}
