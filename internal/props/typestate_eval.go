package props

// E9 typestate engine, part 2: expression evaluation (forking) and calls.

import (
	"go/ast"
	"go/constant"
	"go/token"
	"go/types"

	"golang.org/x/tools/go/types/typeutil"
)

// tsEv is one outcome of evaluating an expression.
type tsEv struct {
	cf  *tsConf
	val tsVal
	pn  *tsPanic
}

// tsCond is one outcome of evaluating a condition with path splitting.
type tsCond struct {
	cf     *tsConf
	b      bool
	nd, tr bool
	pn     *tsPanic
}

const tsIntCap = 3

func (e *tsEngine) tick(n ast.Node) bool {
	e.steps++
	if e.steps > e.maxSteps {
		e.unsupported(n, "step budget exhausted")
		return false
	}
	return true
}

// evalList evaluates expressions left to right.
func (e *tsEngine) evalList(xs []ast.Expr, cf *tsConf) (out []struct {
	cf   *tsConf
	vals []tsVal
	pn   *tsPanic
}) {
	type item = struct {
		cf   *tsConf
		vals []tsVal
		pn   *tsPanic
	}
	cur := []item{{cf: cf}}
	for _, x := range xs {
		var next []item
		for _, it := range cur {
			if it.pn != nil {
				next = append(next, it)
				continue
			}
			for _, ev := range e.eval(x, it.cf) {
				if ev.pn != nil {
					next = append(next, item{cf: ev.cf, pn: ev.pn})
					continue
				}
				vs := append(append([]tsVal(nil), it.vals...), ev.val)
				next = append(next, item{cf: ev.cf, vals: vs})
			}
		}
		cur = next
	}
	return cur
}

func one(cf *tsConf, v tsVal) []tsEv { return []tsEv{{cf: cf, val: v}} }

// constVal converts a constant expression value.
func constVal(tv types.TypeAndValue) (tsVal, bool) {
	if tv.Value == nil {
		return tsVal{}, false
	}
	switch tv.Value.Kind() {
	case constant.Bool:
		return tsBool(constant.BoolVal(tv.Value)), true
	case constant.Int:
		if n, ok := constant.Int64Val(tv.Value); ok {
			return tsInt(n), true
		}
	}
	return tsTop, true
}

func isInterface(t types.Type) bool {
	if t == nil {
		return false
	}
	_, ok := t.Underlying().(*types.Interface)
	return ok
}

func nilable(t types.Type) bool {
	if t == nil {
		return false
	}
	switch t.Underlying().(type) {
	case *types.Pointer, *types.Interface, *types.Slice, *types.Map, *types.Chan, *types.Signature:
		return true
	}
	return false
}

// zeroVal is the abstract zero value of a type.
func zeroVal(t types.Type) tsVal {
	if t == nil {
		return tsTop
	}
	switch u := t.Underlying().(type) {
	case *types.Basic:
		if u.Info()&types.IsBoolean != 0 {
			return tsBool(false)
		}
		if u.Info()&types.IsInteger != 0 {
			return tsInt(0)
		}
	case *types.Pointer, *types.Interface, *types.Slice, *types.Map, *types.Chan, *types.Signature:
		return tsVal{k: kNil}
	}
	return tsTop
}

// readVar reads tracked variable i, choosing a value (and fixing it) when it is still unknown.
func (e *tsEngine) readVar(i int, cf *tsConf) []tsEv {
	v := cf.get(i)
	if v.k != kTop {
		v.tr = true
		return one(cf, v)
	}
	var out []tsEv
	for _, d := range e.vars[i].vals {
		c2 := cf.withVar(i, d)
		d.tr = true
		out = append(out, tsEv{cf: c2, val: d})
	}
	return out
}

// normalise maps an arbitrary value into the domain of tracked variable i.
func (e *tsEngine) normalise(i int, v tsVal) tsVal {
	tv := e.vars[i]
	switch tv.dom {
	case domBool:
		if v.k == kBool {
			return v.plain()
		}
	case domEnum:
		if v.k == kInt {
			return v.plain()
		}
	case domNil:
		switch v.k {
		case kNil:
			return tsVal{k: kNil}
		case kNonNil, kFunc, kList, kRef:
			return tsVal{k: kNonNil}
		}
	case domSym:
		if v.k == kSym || v.k == kOther {
			return v.plain()
		}
	}
	return tsTop
}

func (e *tsEngine) eval(x ast.Expr, cf *tsConf) []tsEv {
	if !e.tick(x) {
		return nil
	}
	if tv, ok := e.info.Types[x]; ok && tv.Value != nil {
		v, _ := constVal(tv)
		return one(cf, v)
	}
	switch v := x.(type) {
	case *ast.ParenExpr:
		return e.eval(v.X, cf)
	case *ast.BasicLit:
		return one(cf, tsTop)
	case *ast.Ident:
		return e.evalIdent(v, cf)
	case *ast.SelectorExpr:
		if i := e.trackedSel(v); i >= 0 {
			return e.readVar(i, cf)
		}
		if f := e.funcValue(v); f != nil {
			return one(cf, tsVal{k: kFunc, cl: &tsClosure{fn: f, name: tsFuncName(f)}})
		}
		if sel := e.info.Selections[v]; sel != nil && sel.Kind() == types.FieldVal {
			if fv, ok := e.fieldFn[sel.Obj().(*types.Var)]; ok {
				return one(cf, fv)
			}
		}
		if id, ok := v.X.(*ast.Ident); ok {
			if _, isPkg := e.info.Uses[id].(*types.PkgName); isPkg {
				return one(cf, tsTop)
			}
		}
		return one(cf, tsTop)
	case *ast.StarExpr:
		var out []tsEv
		for _, ev := range e.eval(v.X, cf) {
			if ev.pn == nil && ev.val.k == kRef && len(ev.val.l) == 1 {
				ev.val = ev.val.l[0].flags(ev.val)
			} else if ev.pn == nil {
				ev.val = tsTop
			}
			out = append(out, ev)
		}
		return out
	case *ast.UnaryExpr:
		return e.evalUnary(v, cf)
	case *ast.BinaryExpr:
		return e.evalBinary(v, cf)
	case *ast.CallExpr:
		return e.evalCall(v, cf)
	case *ast.CompositeLit:
		return e.evalLit(v, cf, false)
	case *ast.FuncLit:
		return one(e.closure(v, cf))
	case *ast.IndexExpr:
		var out []tsEv
		for _, it := range e.evalList([]ast.Expr{v.X, v.Index}, cf) {
			if it.pn != nil {
				out = append(out, tsEv{cf: it.cf, pn: it.pn})
				continue
			}
			b, ix := it.vals[0], it.vals[1]
			r := tsTop
			if b.k == kList && ix.k == kInt && ix.n >= 0 && int(ix.n) < len(b.l) {
				r = b.l[ix.n].flags(ix)
			}
			out = append(out, tsEv{cf: it.cf, val: r})
		}
		return out
	case *ast.SliceExpr:
		return e.evalSkip([]ast.Expr{v.X}, cf, tsTop)
	case *ast.TypeAssertExpr:
		return e.evalSkip([]ast.Expr{v.X}, cf, tsTop)
	case *ast.KeyValueExpr:
		return e.eval(v.Value, cf)
	}
	return one(cf, tsTop)
}

// evalSkip evaluates sub-expressions for their effects and yields res.
func (e *tsEngine) evalSkip(xs []ast.Expr, cf *tsConf, res tsVal) []tsEv {
	var out []tsEv
	for _, it := range e.evalList(xs, cf) {
		if it.pn != nil {
			out = append(out, tsEv{cf: it.cf, pn: it.pn})
		} else {
			out = append(out, tsEv{cf: it.cf, val: res})
		}
	}
	return out
}

func (e *tsEngine) evalIdent(id *ast.Ident, cf *tsConf) []tsEv {
	obj := e.info.Uses[id]
	if obj == nil {
		obj = e.info.Defs[id]
	}
	switch o := obj.(type) {
	case *types.Nil:
		return one(cf, tsVal{k: kNil})
	case *types.Var:
		if v, ok := cf.env[o]; ok {
			return one(cf, v)
		}
		if e.symVars[o] {
			return one(cf, tsVal{k: kSym, o: o})
		}
		return one(cf, tsTop)
	case *types.Func:
		if o.Pkg() == e.pkg.Types {
			return one(cf, tsVal{k: kFunc, cl: &tsClosure{fn: o.Origin(), name: tsFuncName(o)}})
		}
		return one(cf, tsVal{k: kNonNil})
	}
	return one(cf, tsTop)
}

// closure builds a closure value; locals assigned inside the literal become unknown in the
// creating frame (the literal may run later and the snapshot would be stale).
func (e *tsEngine) closure(fl *ast.FuncLit, cf *tsConf) (*tsConf, tsVal) {
	out := cf
	ast.Inspect(fl.Body, func(n ast.Node) bool {
		var lhs []ast.Expr
		switch s := n.(type) {
		case *ast.AssignStmt:
			if s.Tok != token.DEFINE {
				lhs = s.Lhs
			}
		case *ast.IncDecStmt:
			lhs = []ast.Expr{s.X}
		}
		for _, l := range lhs {
			if id, ok := ast.Unparen(l).(*ast.Ident); ok {
				if o, ok := e.info.Uses[id].(*types.Var); ok {
					if !(o.Pos() >= fl.Pos() && o.Pos() < fl.End()) {
						out = out.withEnv(o, tsTop)
					}
				}
			}
		}
		return true
	})
	env := make(map[types.Object]tsVal, len(out.env))
	for k, v := range out.env {
		env[k] = v
	}
	return out, tsVal{k: kFunc, cl: &tsClosure{lit: fl, env: env, name: e.fnName() + ".func"}}
}

func (e *tsEngine) evalUnary(u *ast.UnaryExpr, cf *tsConf) []tsEv {
	switch u.Op {
	case token.NOT:
		return e.condAsVals(u, cf)
	case token.AND:
		if cl, ok := ast.Unparen(u.X).(*ast.CompositeLit); ok {
			return e.evalLit(cl, cf, true)
		}
		if ix, ok := ast.Unparen(u.X).(*ast.IndexExpr); ok {
			var out []tsEv
			for _, ev := range e.eval(ix, cf) {
				if ev.pn == nil {
					ev.val = tsVal{k: kRef, l: []tsVal{ev.val}}
				}
				out = append(out, ev)
			}
			return out
		}
		if i := e.trackedSel(u.X); i >= 0 {
			// a symbolic struct value that is already "none of the named ones" stays so under
			// mutation through the pointer (the named values are never mutated into)
			if e.vars[i].dom != domSym {
				e.unsupported(u, "address of a tracked field taken")
			} else if cf.get(i).k != kOther {
				cf = cf.withVar(i, tsTop)
			}
		}
		return e.evalSkip(nil, cf, tsVal{k: kNonNil})
	case token.SUB:
		var out []tsEv
		for _, ev := range e.eval(u.X, cf) {
			if ev.pn == nil {
				if ev.val.k == kInt {
					ev.val.n = -ev.val.n
				} else {
					ev.val = tsTop
				}
			}
			out = append(out, ev)
		}
		return out
	}
	return e.evalSkip([]ast.Expr{u.X}, cf, tsTop)
}

// condAsVals evaluates a boolean expression by path splitting and returns definite booleans.
func (e *tsEngine) condAsVals(x ast.Expr, cf *tsConf) []tsEv {
	var out []tsEv
	for _, c := range e.cond(x, cf) {
		if c.pn != nil {
			out = append(out, tsEv{cf: c.cf, pn: c.pn})
			continue
		}
		v := tsBool(c.b)
		v.nd, v.tr = c.nd, c.tr
		out = append(out, tsEv{cf: c.cf, val: v})
	}
	return out
}

func cmpVals(op token.Token, a, b tsVal) tsVal {
	res := tsTop
	eq := func(known, v bool) {
		if known {
			if op == token.NEQ {
				v = !v
			}
			res = tsBool(v)
		}
	}
	switch op {
	case token.EQL, token.NEQ:
		switch {
		case a.k == kInt && b.k == kInt, a.k == kBool && b.k == kBool:
			eq(true, a.n == b.n)
		case a.k == kNil && b.k == kNil:
			eq(true, true)
		case (a.k == kNil && isSet(b)) || (b.k == kNil && isSet(a)):
			eq(true, false)
		case a.k == kSym && b.k == kSym:
			eq(true, a.o == b.o)
		case (a.k == kSym && b.k == kOther) || (a.k == kOther && b.k == kSym):
			eq(true, false)
		}
	case token.LSS, token.GTR, token.LEQ, token.GEQ:
		if a.k == kInt && b.k == kInt {
			switch op {
			case token.LSS:
				res = tsBool(a.n < b.n)
			case token.GTR:
				res = tsBool(a.n > b.n)
			case token.LEQ:
				res = tsBool(a.n <= b.n)
			case token.GEQ:
				res = tsBool(a.n >= b.n)
			}
		}
	case token.ADD, token.SUB:
		if a.k == kInt && b.k == kInt {
			n := a.n + b.n
			if op == token.SUB {
				n = a.n - b.n
			}
			if n >= -tsIntCap && n <= tsIntCap {
				res = tsInt(n)
			}
		}
	}
	return res.flags(a).flags(b)
}

func isSet(v tsVal) bool {
	return v.k == kNonNil || v.k == kFunc || v.k == kList || v.k == kRef
}

func (e *tsEngine) evalBinary(b *ast.BinaryExpr, cf *tsConf) []tsEv {
	if b.Op == token.LAND || b.Op == token.LOR {
		return e.condAsVals(b, cf)
	}
	var out []tsEv
	for _, it := range e.evalList([]ast.Expr{b.X, b.Y}, cf) {
		if it.pn != nil {
			out = append(out, tsEv{cf: it.cf, pn: it.pn})
			continue
		}
		out = append(out, tsEv{cf: it.cf, val: cmpVals(b.Op, it.vals[0], it.vals[1])})
	}
	return out
}

// cond evaluates a condition; every outcome has a definite truth value. Unknown atoms fork,
// refining locals where the atom is a nil test or a boolean local.
func (e *tsEngine) cond(x ast.Expr, cf *tsConf) []tsCond {
	switch v := ast.Unparen(x).(type) {
	case *ast.UnaryExpr:
		if v.Op == token.NOT {
			out := e.cond(v.X, cf)
			for i := range out {
				out[i].b = !out[i].b
			}
			return out
		}
	case *ast.BinaryExpr:
		if v.Op == token.LAND || v.Op == token.LOR {
			var out []tsCond
			for _, l := range e.cond(v.X, cf) {
				if l.pn != nil || l.b == (v.Op == token.LOR) {
					out = append(out, l)
					continue
				}
				for _, r := range e.cond(v.Y, l.cf) {
					r.nd = r.nd || l.nd
					r.tr = r.tr || l.tr
					out = append(out, r)
				}
			}
			return out
		}
	}
	var out []tsCond
	for _, ev := range e.eval(x, cf) {
		if ev.pn != nil {
			out = append(out, tsCond{cf: ev.cf, pn: ev.pn})
			continue
		}
		if ev.val.k == kBool {
			out = append(out, tsCond{cf: ev.cf, b: ev.val.n != 0, nd: ev.val.nd, tr: ev.val.tr})
			continue
		}
		for _, truth := range []bool{true, false} {
			c2 := e.refine(ev.cf, x, truth)
			lbl := "false"
			if truth {
				lbl = "true"
			}
			c2 = c2.withTrace(types.ExprString(x) + "=" + lbl)
			out = append(out, tsCond{cf: c2, b: truth, nd: true, tr: ev.val.tr})
		}
	}
	return out
}

// refine records what an unknown atom's chosen truth value implies for locals.
func (e *tsEngine) refine(cf *tsConf, x ast.Expr, truth bool) *tsConf {
	switch v := ast.Unparen(x).(type) {
	case *ast.Ident:
		if o, ok := e.info.Uses[v].(*types.Var); ok && e.isLocal(o) {
			b := tsBool(truth)
			b.nd = true
			return cf.withEnv(o, b)
		}
	case *ast.BinaryExpr:
		if v.Op != token.EQL && v.Op != token.NEQ {
			return cf
		}
		for _, pr := range [][2]ast.Expr{{v.X, v.Y}, {v.Y, v.X}} {
			id, ok := ast.Unparen(pr[0]).(*ast.Ident)
			if !ok {
				continue
			}
			nid, ok := ast.Unparen(pr[1]).(*ast.Ident)
			if !ok {
				continue
			}
			if _, isNil := e.info.Uses[nid].(*types.Nil); !isNil {
				continue
			}
			o, ok := e.info.Uses[id].(*types.Var)
			if !ok || !e.isLocal(o) {
				continue
			}
			isNilNow := truth == (v.Op == token.EQL)
			nv := tsVal{k: kNonNil, nd: true}
			if isNilNow {
				nv = tsVal{k: kNil, nd: true}
			}
			return cf.withEnv(o, nv)
		}
	}
	return cf
}

// evalLit evaluates a composite literal. While the constructor is being interpreted, literals
// of structs with tracked fields initialise those fields (keyed value or zero value).
func (e *tsEngine) evalLit(cl *ast.CompositeLit, cf *tsConf, addr bool) []tsEv {
	var vals []ast.Expr
	for _, el := range cl.Elts {
		if kv, ok := el.(*ast.KeyValueExpr); ok {
			vals = append(vals, kv.Value)
		} else {
			vals = append(vals, el)
		}
	}
	res := tsTop
	if addr {
		res = tsVal{k: kNonNil, fresh: true}
	}
	t := e.info.TypeOf(cl)
	var sname string
	if nt, ok := types.Unalias(t).(*types.Named); ok {
		sname = nt.Obj().Name()
	}
	idxs := e.structVars[sname]
	var out []tsEv
	for _, it := range e.evalList(vals, cf) {
		if it.pn != nil {
			out = append(out, tsEv{cf: it.cf, pn: it.pn})
			continue
		}
		c2 := it.cf
		if e.ctorPhase && sname != "" {
			keyed := map[string]tsVal{}
			for i, el := range cl.Elts {
				if kv, ok := el.(*ast.KeyValueExpr); ok {
					if k, ok := kv.Key.(*ast.Ident); ok {
						keyed[k.Name] = it.vals[i]
					}
				}
			}
			for _, vi := range idxs {
				tv := e.vars[vi]
				if v, ok := keyed[tv.field]; ok {
					c2 = c2.withVar(vi, e.normalise(vi, v))
				} else {
					z := zeroVal(tv.obj.Type())
					if tv.dom == domSym {
						z = tsVal{k: kOther}
					}
					c2 = c2.withVar(vi, e.normalise(vi, z))
				}
			}
			// nested struct-valued fields left at their zero value
			if st, ok := t.Underlying().(*types.Struct); ok {
				for i := 0; i < st.NumFields(); i++ {
					f := st.Field(i)
					if _, isKeyed := keyed[f.Name()]; isKeyed {
						continue
					}
					if nt, ok := types.Unalias(f.Type()).(*types.Named); ok {
						for _, vi := range e.structVars[nt.Obj().Name()] {
							c2 = c2.withVar(vi, e.normalise(vi, zeroVal(e.vars[vi].obj.Type())))
						}
					}
				}
			}
		}
		out = append(out, tsEv{cf: c2, val: res})
	}
	return out
}

// ---------------------------------------------------------------- calls

func (e *tsEngine) nResults(call *ast.CallExpr) int {
	if t, ok := e.info.TypeOf(call).(*types.Tuple); ok {
		return t.Len()
	}
	return 1
}

func (e *tsEngine) topResult(call *ast.CallExpr) tsVal {
	n := e.nResults(call)
	if n == 1 {
		return tsTop
	}
	return tsVal{k: kTuple, l: make([]tsVal, n)}
}

func (e *tsEngine) evalCall(call *ast.CallExpr, cf *tsConf) []tsEv {
	fun := ast.Unparen(call.Fun)
	// conversion
	if tv, ok := e.info.Types[fun]; ok && tv.IsType() {
		if len(call.Args) == 1 {
			var out []tsEv
			for _, ev := range e.eval(call.Args[0], cf) {
				if ev.pn == nil && isInterface(tv.Type) && !isInterface(e.info.TypeOf(call.Args[0])) && ev.val.k != kNil {
					ev.val = tsVal{k: kNonNil}.flags(ev.val)
				}
				out = append(out, ev)
			}
			return out
		}
		return one(cf, tsTop)
	}
	// builtins
	if id, ok := fun.(*ast.Ident); ok {
		if _, isB := e.info.Uses[id].(*types.Builtin); isB {
			return e.evalBuiltin(id.Name, call, cf)
		}
	}
	// immediately invoked literal
	if fl, ok := fun.(*ast.FuncLit); ok {
		c2, v := e.closure(fl, cf)
		return e.callWithArgs(call, v, c2)
	}
	callee := typeutil.Callee(e.info, call)
	if f, ok := callee.(*types.Func); ok {
		f = f.Origin()
		if r := f.Type().(*types.Signature).Recv(); r != nil && isInterface(r.Type()) {
			return e.skipCall(call, cf, "dynamic")
		}
		if e.shouldInline(f) || (e.pure[f] && e.hasFuncArg(call)) {
			return e.callWithArgs(call, tsVal{k: kFunc, cl: &tsClosure{fn: f, name: tsFuncName(f)}}, cf)
		}
		return e.skipCall(call, cf, "")
	}
	// function-typed value: local, parameter or field
	var out []tsEv
	for _, ev := range e.eval(fun, cf) {
		if ev.pn != nil {
			out = append(out, ev)
			continue
		}
		if ev.val.k == kFunc && ev.val.cl != nil {
			out = append(out, e.callWithArgs(call, ev.val, ev.cf)...)
		} else {
			out = append(out, e.skipCall(call, ev.cf, "")...)
		}
	}
	return out
}

// skipCall evaluates the arguments and yields unknown results. Closures handed to code that
// is not interpreted must not touch tracked state.
func (e *tsEngine) skipCall(call *ast.CallExpr, cf *tsConf, why string) []tsEv {
	if why == "dynamic" {
		for _, t := range e.dynamicTargets(call) {
			if e.ancBase[t] {
				e.unsupported(call, "dynamic call may reach "+tsFuncName(t)+" which changes or asserts tracked state")
			}
		}
	}
	for _, a := range call.Args {
		if fl, ok := ast.Unparen(a).(*ast.FuncLit); ok {
			bad := false
			ast.Inspect(fl, func(n ast.Node) bool {
				if x, ok := n.(ast.Expr); ok && e.trackedSel(x) >= 0 {
					bad = true
				}
				return !bad
			})
			if bad {
				e.unsupported(call, "closure touching tracked state passed to uninterpreted code")
			}
		}
	}
	var args []ast.Expr
	for _, a := range call.Args {
		if _, ok := ast.Unparen(a).(*ast.FuncLit); !ok {
			args = append(args, a)
		}
	}
	return e.evalSkip(args, cf, e.topResult(call))
}

func (e *tsEngine) evalBuiltin(name string, call *ast.CallExpr, cf *tsConf) []tsEv {
	switch name {
	case "panic":
		var out []tsEv
		for _, ev := range e.evalSkip(call.Args, cf, tsTop) {
			if ev.pn == nil {
				e.sites[call.Pos()] = true
				ev.pn = &tsPanic{pos: call.Pos(), stack: append([]tsFrame(nil), e.stack...), determined: ev.cf.nd == 0}
			}
			out = append(out, ev)
		}
		return out
	case "len":
		var out []tsEv
		for _, ev := range e.eval(call.Args[0], cf) {
			if ev.pn == nil {
				if ev.val.k == kList {
					ev.val = tsInt(int64(len(ev.val.l))).flags(ev.val)
				} else if ev.val.k == kNil {
					ev.val = tsInt(0).flags(ev.val)
				} else {
					ev.val = tsTop
				}
			}
			out = append(out, ev)
		}
		return out
	case "make", "new", "append":
		return e.evalSkip(call.Args[min(1, len(call.Args)):], cf, tsVal{k: kNonNil})
	}
	return e.evalSkip(call.Args, cf, tsTop)
}

// callWithArgs evaluates the arguments and interprets the callee.
func (e *tsEngine) callWithArgs(call *ast.CallExpr, fv tsVal, cf *tsConf) []tsEv {
	if fv.cl.fn != nil && !e.shouldInline(fv.cl.fn) && !(e.pure[fv.cl.fn] && e.hasFuncArg(call)) {
		return e.skipCall(call, cf, "")
	}
	var sig *types.Signature
	if fv.cl.fn != nil {
		sig = fv.cl.fn.Type().(*types.Signature)
	} else {
		sig, _ = e.info.TypeOf(fv.cl.lit).(*types.Signature)
	}
	var out []tsEv
	for _, it := range e.evalList(call.Args, cf) {
		if it.pn != nil {
			out = append(out, tsEv{cf: it.cf, pn: it.pn})
			continue
		}
		args := it.vals
		// interface conversion at the call boundary: a non-interface value is never a nil interface
		if sig != nil {
			ps := sig.Params()
			for i := range args {
				var pt types.Type
				if sig.Variadic() && i >= ps.Len()-1 {
					if !call.Ellipsis.IsValid() {
						pt = ps.At(ps.Len() - 1).Type().(*types.Slice).Elem()
					}
				} else if i < ps.Len() {
					pt = ps.At(i).Type()
				}
				if pt != nil && isInterface(pt) && !isInterface(e.info.TypeOf(call.Args[i])) {
					if _, isNilT := e.info.TypeOf(call.Args[i]).(*types.Basic); !isNilT || args[i].k != kNil {
						args[i] = tsVal{k: kNonNil}.flags(args[i])
					}
				}
			}
			if sig.Variadic() && !call.Ellipsis.IsValid() {
				n := ps.Len() - 1
				if len(args) >= n {
					rest := append([]tsVal(nil), args[n:]...)
					args = append(append([]tsVal(nil), args[:n]...), tsVal{k: kList, l: rest})
				}
			}
		}
		out = append(out, e.invoke(fv.cl, args, it.cf, call.Pos())...)
	}
	return out
}

// dynamicTargets lists the module methods an interface method call may dispatch to.
func (e *tsEngine) dynamicTargets(call *ast.CallExpr) []*types.Func {
	f, ok := typeutil.Callee(e.info, call).(*types.Func)
	if !ok {
		return nil
	}
	r := f.Type().(*types.Signature).Recv()
	if r == nil {
		return nil
	}
	if nt, ok := types.Unalias(r.Type()).(*types.Named); ok {
		if m := e.ifaceOf[nt.Obj()]; m != nil {
			return m[f.Name()]
		}
		return nil
	}
	return e.dynTargets[f.Name()]
}

// isLocal: a variable of some function (parameter, result or local), not a field or global.
func (e *tsEngine) isLocal(o *types.Var) bool {
	return !o.IsField() && o.Parent() != e.pkg.Types.Scope() && o.Parent() != types.Universe
}

func (e *tsEngine) hasFuncArg(call *ast.CallExpr) bool {
	for _, a := range call.Args {
		if t := e.info.TypeOf(a); t != nil {
			if _, isSig := t.Underlying().(*types.Signature); isSig {
				return true
			}
		}
	}
	return false
}
