package props

import (
	"go/ast"
	"go/token"
	"go/types"
	"strings"

	"verif/internal/an"
	"verif/internal/load"
)

// c35Touched computes which fields of the struct behind root are read and written in body
// (closures included) — the fieldsTouched idea of fieldmap.go for an arbitrary root object.
func c35Touched(info *types.Info, body ast.Node, root types.Object) (reads, writes map[string]token.Pos) {
	reads, writes = map[string]token.Pos{}, map[string]token.Pos{}
	roots := map[types.Object]bool{root: true}
	written := map[ast.Node]bool{}
	first := func(p string) string {
		if i := strings.IndexByte(p, '.'); i >= 0 {
			return p[:i]
		}
		return p
	}
	mark := func(e ast.Expr) {
		e = an.Unparen(e)
		for {
			switch x := e.(type) {
			case *ast.IndexExpr:
				e = an.Unparen(x.X)
				continue
			case *ast.SliceExpr:
				e = an.Unparen(x.X)
				continue
			}
			break
		}
		if p, ok := fieldPath(info, e, roots); ok && p != "" {
			if _, dup := writes[first(p)]; !dup {
				writes[first(p)] = e.Pos()
			}
			written[e] = true
		}
	}
	ast.Inspect(body, func(n ast.Node) bool {
		switch s := n.(type) {
		case *ast.AssignStmt:
			for _, l := range s.Lhs {
				mark(l)
			}
			// x.f = append(x.f, ...) also reads f, but only to extend it: not a read of content
			if len(s.Lhs) == 1 && len(s.Rhs) == 1 {
				if call, ok := an.Unparen(s.Rhs[0]).(*ast.CallExpr); ok && an.Str(call.Fun) == "append" && len(call.Args) > 0 {
					if an.Str(call.Args[0]) == an.Str(s.Lhs[0]) {
						written[an.Unparen(call.Args[0])] = true
					}
				}
			}
		case *ast.IncDecStmt:
			mark(s.X)
		case *ast.UnaryExpr:
			if s.Op == token.AND {
				mark(s.X)
			}
		}
		return true
	})
	ast.Inspect(body, func(n ast.Node) bool {
		se, ok := n.(*ast.SelectorExpr)
		if !ok {
			return true
		}
		if p, ok := fieldPath(info, se, roots); ok && p != "" {
			if !written[se] {
				if _, dup := reads[first(p)]; !dup {
					reads[first(p)] = se.Pos()
				}
			}
			return false
		}
		return true
	})
	return
}

type c35Op struct {
	kind   string
	fields []string
	pos    token.Pos
}

func c35OpsString(ops []c35Op) string {
	var s []string
	for _, o := range ops {
		s = append(s, o.kind)
	}
	return strings.Join(s, " ")
}

var c35WriteKinds = map[string]string{
	"AddUint8": "u8", "AddUint16": "u16", "AddUint24": "u24", "AddUint32": "u32", "AddUint64": "u64", "addUint64": "u64",
	"AddUint8LengthPrefixed": "lp8", "AddUint16LengthPrefixed": "lp16", "AddUint24LengthPrefixed": "lp24",
	"marshalCertificate": "cert",
}
var c35ReadKinds = map[string]string{
	"ReadUint8": "u8", "ReadUint16": "u16", "ReadUint24": "u24", "ReadUint32": "u32", "ReadUint64": "u64", "readUint64": "u64",
	"ReadUint8LengthPrefixed": "lp8", "readUint8LengthPrefixed": "lp8", "ReadUint16LengthPrefixed": "lp16", "readUint16LengthPrefixed": "lp16",
	"ReadUint24LengthPrefixed": "lp24", "readUint24LengthPrefixed": "lp24",
	"unmarshalCertificate": "cert",
}

// c35OpOn: is call a wire primitive applied to obj (method on obj, or helper taking &obj first)?
func c35OpOn(info *types.Info, call *ast.CallExpr, obj types.Object, kinds map[string]string) string {
	switch f := call.Fun.(type) {
	case *ast.SelectorExpr:
		if identObj(info, f.X) == obj {
			return kinds[f.Sel.Name]
		}
	case *ast.Ident:
		if len(call.Args) > 0 {
			if u, ok := an.Unparen(call.Args[0]).(*ast.UnaryExpr); ok && u.Op == token.AND && identObj(info, u.X) == obj {
				return kinds[f.Name]
			}
		}
	}
	return ""
}

func c35FieldsIn(info *types.Info, n ast.Node, root types.Object) []string {
	var out []string
	roots := map[types.Object]bool{root: true}
	ast.Inspect(n, func(x ast.Node) bool {
		if se, ok := x.(*ast.SelectorExpr); ok {
			if p, ok := fieldPath(info, se, roots); ok && p != "" {
				f := p
				if i := strings.IndexByte(p, '.'); i >= 0 {
					f = p[:i]
				}
				if !contains(out, f) {
					out = append(out, f)
				}
				return false
			}
		}
		return true
	})
	return out
}

// c35WriterOps walks stmts in order; an if/else whose two arms emit the same single-op
// sequence counts once (the field is the one tested by the condition).
func c35WriterOps(c *Ctx, info *types.Info, stmts []ast.Stmt, b, root types.Object, odd *[]ast.Node) []c35Op {
	var ops []c35Op
	var fromNode func(n ast.Node) []c35Op
	fromNode = func(n ast.Node) []c35Op {
		var out []c35Op
		ast.Inspect(n, func(x ast.Node) bool {
			switch s := x.(type) {
			case *ast.FuncLit:
				return false
			case *ast.IfStmt:
				th := c35WriterOps(c, info, s.Body.List, b, root, odd)
				if s.Else == nil {
					out = append(out, th...)
					return false
				}
				var el []c35Op
				switch e := s.Else.(type) {
				case *ast.BlockStmt:
					el = c35WriterOps(c, info, e.List, b, root, odd)
				default:
					el = fromNode(e)
				}
				if c35OpsString(th) != c35OpsString(el) {
					*odd = append(*odd, s)
				}
				cf := c35FieldsIn(info, s.Cond, root)
				for i := range th {
					if len(th[i].fields) == 0 {
						th[i].fields = cf
					}
				}
				out = append(out, th...)
				return false
			case *ast.CallExpr:
				if k := c35OpOn(info, s, b, c35WriteKinds); k != "" {
					var fl []string
					for _, a := range s.Args {
						for _, f := range c35FieldsIn(info, a, root) {
							if !contains(fl, f) {
								fl = append(fl, f)
							}
						}
					}
					out = append(out, c35Op{k, fl, s.Pos()})
					return false
				}
			}
			return true
		})
		return out
	}
	for _, st := range stmts {
		ops = append(ops, fromNode(st)...)
	}
	return ops
}

func c35Symmetry(c *Ctx) {
	r := c.R
	tls := c.P.TLS
	info := c.Info()
	bd := load.FuncDecl(tls, "SessionState", "Bytes")
	pd := load.FuncDecl(tls, "", "ParseSessionState")
	if bd == nil || pd == nil || bd.Body == nil || pd.Body == nil {
		r.Unknown("C35.6", "SessionState", "", "Bytes / ParseSessionState not found")
		return
	}
	recv := info.Defs[bd.Recv.List[0].Names[0]]
	// the parsed state: the local returned on success
	var ss types.Object
	ast.Inspect(pd.Body, func(n ast.Node) bool {
		if rs, ok := n.(*ast.ReturnStmt); ok && len(rs.Results) == 2 && an.IsNilIdent(info, rs.Results[1]) {
			if o := identObj(info, rs.Results[0]); o != nil {
				ss = o
			}
		}
		return true
	})
	if ss == nil {
		r.Unknown("C35.6", "ParseSessionState:result", c.Pos(pd), "the returned state variable was not identified")
		return
	}
	br, _ := c35Touched(info, bd.Body, recv)
	_, pw := c35Touched(info, pd.Body, ss)
	exempt := map[string]string{
		"activeCertHandles": "cache handles rebuilt from the certificate bytes by ParseSessionState",
		"ticket":            "carried next to the state (ResumptionState/NewResumptionState), not inside it",
	}
	fields, _ := structFields(tls, "SessionState")
	for _, f := range fields {
		cons := "SessionState." + f
		_, rd := br[f]
		_, w := pw[f]
		switch {
		case exempt[f] != "":
			if rd {
				r.Bad("C35.6", cons, c.P.Pos(br[f]), "Bytes serialises %s, which is listed as not part of the encoding (%s)", f, exempt[f])
			} else {
				r.Ok("C35.6", cons, "", "not part of the encoding: %s", exempt[f])
			}
		case rd && w:
			r.Ok("C35.6", cons, c.P.Pos(pw[f]), "serialised by Bytes and restored by ParseSessionState")
		case rd && !w:
			r.Bad("C35.6", cons, c.P.Pos(br[f]), "Bytes serialises %s but ParseSessionState never restores it: the decrypted state differs from the original", f)
		case !rd && w:
			r.Bad("C35.6", cons, c.P.Pos(pw[f]), "ParseSessionState fills %s but Bytes never serialises it", f)
		default:
			r.Bad("C35.6", cons, "", "%s is neither serialised nor restored: it is lost in a ticket round trip", f)
		}
	}
	// wire-op sequences
	var bObj, sObj types.Object
	ast.Inspect(bd.Body, func(n ast.Node) bool {
		if vs, ok := n.(*ast.ValueSpec); ok && len(vs.Names) == 1 && an.TypeName(info.TypeOf(vs.Names[0])) == "Builder" && bObj == nil {
			bObj = info.Defs[vs.Names[0]]
		}
		return true
	})
	ast.Inspect(pd.Body, func(n ast.Node) bool {
		if as, ok := n.(*ast.AssignStmt); ok && as.Tok == token.DEFINE && len(as.Lhs) == 1 && len(as.Rhs) == 1 && sObj == nil {
			if call, ok := an.Unparen(as.Rhs[0]).(*ast.CallExpr); ok && len(call.Args) == 1 && an.TypeName(info.TypeOf(as.Lhs[0])) == "String" {
				if identObj(info, call.Args[0]) == info.Defs[pd.Type.Params.List[0].Names[0]] {
					sObj = identObj(info, as.Lhs[0])
				}
			}
		}
		return true
	})
	if bObj == nil || sObj == nil {
		r.Unknown("C35.6", "SessionState:wire-sequence", c.Pos(bd), "builder / reader variables not identified")
		return
	}
	var odd []ast.Node
	wops := c35WriterOps(c, info, bd.Body.List, bObj, recv, &odd)
	if len(odd) > 0 {
		r.Unknown("C35.6", "SessionState:wire-sequence", c.Pos(odd[0]), "the two arms of an if/else in Bytes emit different wire primitives")
		return
	}
	// reader: calls on s in source order; the field is the &ss.f argument, or, for a local,
	// the ss fields assigned in a switch over that local
	localFields := map[types.Object][]string{}
	ast.Inspect(pd.Body, func(n ast.Node) bool {
		sw, ok := n.(*ast.SwitchStmt)
		if !ok || sw.Tag == nil {
			return true
		}
		if o := identObj(info, sw.Tag); o != nil {
			_, w := c35Touched(info, sw.Body, ss)
			for f := range w {
				localFields[o] = append(localFields[o], f)
			}
		}
		return true
	})
	var rops []c35Op
	ast.Inspect(pd.Body, func(n ast.Node) bool {
		call, ok := n.(*ast.CallExpr)
		if !ok {
			return true
		}
		if k := c35OpOn(info, call, sObj, c35ReadKinds); k != "" {
			var fl []string
			for _, a := range call.Args {
				u, ok := an.Unparen(a).(*ast.UnaryExpr)
				if !ok || u.Op != token.AND {
					continue
				}
				if o := identObj(info, u.X); o != nil && o != sObj {
					fl = append(fl, localFields[o]...)
				} else {
					fl = append(fl, c35FieldsIn(info, u.X, ss)...)
				}
			}
			rops = append(rops, c35Op{k, fl, call.Pos()})
		}
		return true
	})
	ws, rs := c35OpsString(wops), c35OpsString(rops)
	if !r.Check(ws == rs, "C35.6", "SessionState:wire-sequence", c.Pos(bd), "Bytes and ParseSessionState use the same primitive sequence: "+ws,
		"Bytes writes ["+ws+"] but ParseSessionState reads ["+rs+"]: a sealed state cannot be parsed back") {
		return
	}
	for i := range wops {
		wf, rf := wops[i].fields, rops[i].fields
		if len(wf) != 1 || len(rf) != 1 {
			continue
		}
		cons := "SessionState:wire-field:" + wf[0]
		r.Check(wf[0] == rf[0], "C35.6", cons, c.P.Pos(rops[i].pos), "position "+itoa(i)+" ("+wops[i].kind+") carries "+wf[0]+" on both sides",
			"position "+itoa(i)+" ("+wops[i].kind+") is written from "+wf[0]+" but parsed into "+rf[0])
	}
	r.Floor("C35.6", 26)
}

func itoa(i int) string {
	if i == 0 {
		return "0"
	}
	s := ""
	for i > 0 {
		s = string(rune('0'+i%10)) + s
		i /= 10
	}
	return s
}
