package props

import (
	"fmt"
	"go/ast"
	"go/token"
	"go/types"
	"sort"
	"strings"

	"verif/internal/an"
	"verif/internal/load"
)

func init() { register(&Prop{ID: "C17", Run: runC17}) }

// c17Ctx carries what the C17 and C15.3 rules share about processHelloRetryRequest.
type c17Ctx struct {
	fn       *an.Fn
	group    types.Object // the local bound to hs.serverHello.selectedGroup
	section  map[an.Point]bool
	secStart an.Point
	world    func(vs ...c22Val) c22Val // uconn != nil && ClientHelloID != HelloGolang plus extra valuations
	marshal  []an.Hit                  // MarshalClientHelloNoECH calls in the section
	fresh    []c22Init                 // stores of a fresh share list into clientHelloMsg.keyShares
	ksStores []c22Init                 // stores into KeyShareExtension.KeyShares in the section
}

// c17CallVal gives a fixed truth value to call atoms satisfying match.
func c17CallVal(match func(*ast.CallExpr) bool, v bool) c22Val {
	return func(e ast.Expr) (bool, bool) {
		call, ok := an.Unparen(e).(*ast.CallExpr)
		if !ok || !match(call) {
			return false, false
		}
		return v, true
	}
}

// c17EqVarVal: atoms `X == V` / `X != V` where X satisfies isX and V is the package-level
// object v get the value eq / !eq.
func c17EqVarVal(info *types.Info, isX func(ast.Expr) bool, v types.Object, eq bool) c22Val {
	isV := func(e ast.Expr) bool {
		id, ok := an.Unparen(e).(*ast.Ident)
		return ok && v != nil && info.Uses[id] == v
	}
	return func(e ast.Expr) (bool, bool) {
		be, ok := an.Unparen(e).(*ast.BinaryExpr)
		if !ok || (be.Op != token.EQL && be.Op != token.NEQ) {
			return false, false
		}
		if !(isX(be.X) && isV(be.Y)) && !(isX(be.Y) && isV(be.X)) {
			return false, false
		}
		if be.Op == token.EQL {
			return eq, true
		}
		return !eq, true
	}
}

func c17Setup(c *Ctx, rule string) *c17Ctx {
	info := c.Info()
	fn := c.Fn(rule, c22HS, "processHelloRetryRequest")
	if fn == nil {
		return nil
	}
	x := &c17Ctx{fn: fn}
	isUconn := func(e ast.Expr) bool { return an.FieldSel(info, an.Unparen(e), c22HS, "uconn") }
	isID := func(e ast.Expr) bool { return an.FieldSel(info, an.Unparen(e), "UConn", "ClientHelloID") }
	golang := c.P.TLS.Types.Scope().Lookup("HelloGolang")
	if golang == nil {
		c.R.Unknown(rule, "processHelloRetryRequest:HelloGolang", "", "package variable HelloGolang not found")
		return nil
	}
	x.world = func(vs ...c22Val) c22Val {
		all := append([]c22Val{c22ZeroVal(info, isUconn, true), c17EqVarVal(info, isID, golang, false)}, vs...)
		return c22Vals(all...)
	}
	// section = points reachable in general but not when ClientHelloID == HelloGolang, and not when uconn == nil
	all := fn.ReachFromEntry(nil, nil)
	beG, nG := c22Impossible(fn, c17EqVarVal(info, isID, golang, true))
	beN, nN := c22Impossible(fn, c22ZeroVal(info, isUconn, false))
	if nG == 0 || nN == 0 {
		c.R.Unknown(rule, "processHelloRetryRequest:uTLS-section", c.Pos(fn.Decl), "no branch on hs.uconn != nil / ClientHelloID != HelloGolang found: the uTLS re-marshal section was not located")
		return nil
	}
	rG := fn.ReachFromEntry(nil, beG)
	rN := fn.ReachFromEntry(nil, beN)
	x.section = map[an.Point]bool{}
	for p := range all {
		if p.I >= 0 && !rG[p] && !rN[p] {
			x.section[p] = true
		}
	}
	if len(x.section) == 0 {
		c.R.Unknown(rule, "processHelloRetryRequest:uTLS-section", c.Pos(fn.Decl), "the uTLS re-marshal section is empty")
		return nil
	}
	// group variable
	an.Inner(fn.Body, func(n ast.Node) bool {
		as, ok := n.(*ast.AssignStmt)
		if !ok || as.Tok != token.DEFINE || len(as.Lhs) != 1 || len(as.Rhs) != 1 {
			return true
		}
		if an.FieldSel(info, an.Unparen(as.Rhs[0]), "serverHelloMsg", "selectedGroup") {
			if id, ok := as.Lhs[0].(*ast.Ident); ok {
				x.group = info.Defs[id]
			}
		}
		return true
	})
	for _, h := range c.c22Calls(fn, "UConn", "MarshalClientHelloNoECH") {
		if x.section[h.P] {
			x.marshal = append(x.marshal, h)
		}
	}
	for _, in := range c22FieldInits(fn, "clientHelloMsg", "keyShares") {
		if in.Rhs == nil {
			continue
		}
		if _, ok := an.Unparen(in.Rhs).(*ast.CompositeLit); ok {
			x.fresh = append(x.fresh, in)
		}
	}
	for _, in := range c22FieldInits(fn, "KeyShareExtension", "KeyShares") {
		if x.section[in.P] {
			x.ksStores = append(x.ksStores, in)
		}
	}
	return x
}

func (x *c17Ctx) isGroup(info *types.Info) func(ast.Expr) bool {
	return func(e ast.Expr) bool {
		e = an.Unparen(e)
		if an.FieldSel(info, e, "serverHelloMsg", "selectedGroup") {
			return true
		}
		id, ok := e.(*ast.Ident)
		return ok && x.group != nil && objOf(info, id) == x.group
	}
}

func runC17(c *Ctx) {
	r := c.R
	info := c.Info()
	r.Technique = "effect analysis of the uTLS section of processHelloRetryRequest (section located by assumption-pruned reachability), one-level store summaries of its callees, assumption-pruned exit analysis for the HRR validity checks, def-use and flag-idiom rules on the CFG"
	r.Explanation = "C17.1 the section's stores are confined to KeyShareExtension.KeyShares, CookieExtension.Cookie, insertion of one CookieExtension into uconn.Extensions and hs.hello.original; its calls are the re-marshal and fresh-object helpers; PSK hellos never reach it. " +
		"C17.2 a HelloRetryRequest selecting an unoffered group, one a share was already sent for, or changing nothing, reaches only alerting error exits; a valid one reaches the fresh-share store. " +
		"C17.3 MarshalClientHelloNoECH writes only Hello.Raw and recomputes padding (Update writes PaddingLen/WillPad). " +
		"C17.4 the fresh key_share list has exactly one element: group = the selected group, data = public half of the key stored in hs.keyShareKeys. " +
		"C17.5 the KeyShareExtension among uconn.Extensions is refilled from clientHelloMsg.keyShares after the fresh share was stored, and the re-marshal is unreachable without that refill. " +
		"C17.6 with a cookie every path to the re-marshal stores serverHello.cookie into a CookieExtension (existing or inserted); without one no CookieExtension is touched. " +
		"C17.7 the insertion keeps every other extension in order, at an index drawn below len-1 from a guarded Intn. " +
		"C17.8 the re-marshal's error is propagated, hs.hello.original is taken from Hello.Raw after it, and the second ClientHello is written from hs.hello into hs.transcript only after that."
	r.NotDecided = "byte identity of the two hellos for every extension type (assumes TLSExtension.Len/Read do not change extension state: C08/C16); completion of the handshake; PSK and real ECH (excluded by the statement; ECH is C15.3)"
	x := c17Setup(c, "C17.1")
	if x == nil {
		return
	}
	fn := x.fn
	pos := c.Pos(fn.Decl)
	isGroup := x.isGroup(info)
	isCookie := c22WithAliases(fn, func(e ast.Expr) bool { return an.FieldSel(info, an.Unparen(e), "serverHelloMsg", "cookie") })
	isPSK := c22WithAliases(fn, func(e ast.Expr) bool { return an.FieldSel(info, an.Unparen(e), "clientHelloMsg", "pskIdentities") })
	member := func(call *ast.CallExpr) bool {
		f, _ := an.Callee(info, call).(*types.Func)
		return f != nil && f.Pkg() != nil && f.Pkg().Path() == "slices" && f.Name() == "Contains" && len(call.Args) == 2 &&
			an.FieldSel(info, an.Unparen(call.Args[0]), "clientHelloMsg", "supportedCurves") && isGroup(call.Args[1])
	}
	dup := func(call *ast.CallExpr) bool {
		f, _ := an.Callee(info, call).(*types.Func)
		if f == nil || f.Pkg() == nil || f.Pkg().Path() != "slices" || len(call.Args) != 2 || !an.FieldSel(info, an.Unparen(call.Args[0]), "clientHelloMsg", "keyShares") {
			return false
		}
		switch f.Name() {
		case "ContainsFunc", "IndexFunc":
			lit, ok := an.Unparen(call.Args[1]).(*ast.FuncLit)
			if !ok {
				return false
			}
			// the literal compares keyShare.group with the selected group
			return an.Contains(lit.Body, func(n ast.Node) bool {
				be, ok := n.(*ast.BinaryExpr)
				if !ok || be.Op != token.EQL {
					return false
				}
				g := func(e ast.Expr) bool { return an.FieldSel(info, an.Unparen(e), "keyShare", "group") }
				return (g(be.X) && isGroup(be.Y)) || (g(be.Y) && isGroup(be.X))
			})
		}
		return false
	}
	nMember := len(fn.FindNodes(func(n ast.Node) bool { cl, ok := n.(*ast.CallExpr); return ok && member(cl) }))
	nDup := len(fn.FindNodes(func(n ast.Node) bool { cl, ok := n.(*ast.CallExpr); return ok && dup(cl) }))
	alerts := c22PtsSet(fn.Find(c.isAlert("")))
	freshPts := func() []an.Point {
		var o []an.Point
		for _, in := range x.fresh {
			o = append(o, in.P)
		}
		return o
	}()

	// ------------------------------------------------------------ C17.2 validity checks
	rejects := func(cons, what string, val, contrast c22Val, found bool, missing string) {
		if !found {
			r.Bad("C17.2", cons, pos, "%s", missing)
			return
		}
		w := c22Explore(fn, fn.EntryPoint(), val, nil)
		wa := c22Explore(fn, fn.EntryPoint(), val, alerts)
		wc := c22Explore(fn, fn.EntryPoint(), contrast, nil)
		// error exits that a well-formed HelloRetryRequest can also reach (transcript / internal errors) are not the rejection
		common := c22PtsSet(wc.Err)
		var own, ownNoAlert []an.Point
		for _, e := range w.Err {
			if !common[e] {
				own = append(own, e)
			}
		}
		for _, e := range wa.Err {
			if !common[e] {
				ownNoAlert = append(ownNoAlert, e)
			}
		}
		reachSection := false
		for _, m := range x.marshal {
			if w.Reach[m.P] {
				reachSection = true
			}
		}
		switch {
		case len(w.Succ) > 0 || reachSection:
			r.Bad("C17.2", cons, pos, "a HelloRetryRequest %s still reaches %s: the client does not abort", what, map[bool]string{true: "the uTLS re-marshal", false: "a success exit"}[reachSection])
		case len(own) == 0:
			r.Unknown("C17.2", cons, pos, "no rejecting exit found under the assumption")
		case len(ownNoAlert) > 0:
			r.Bad("C17.2", cons, c.PosP(ownNoAlert[0]), "a HelloRetryRequest %s is rejected without sending an alert", what)
		default:
			r.Ok("C17.2", cons, c.PosP(own[0]), "a HelloRetryRequest %s reaches only error exits, the rejecting one(s) after an alert", what)
		}
	}
	gNZ := c22ZeroVal(info, isGroup, true)
	validVal := c22Vals(gNZ, c17CallVal(member, true), c17CallVal(dup, false))
	rejects("processHelloRetryRequest:unoffered-group", "selecting a group the client did not list",
		c22Vals(gNZ, c17CallVal(member, false)), validVal, nMember > 0 && x.group != nil,
		"no slices.Contains(hello.supportedCurves, selectedGroup) test: a HelloRetryRequest selecting a group the client never offered is accepted")
	rejects("processHelloRetryRequest:share-already-sent", "selecting a group a share was already sent for",
		c22Vals(gNZ, c17CallVal(member, true), c17CallVal(dup, true)), validVal, nDup > 0 && x.group != nil,
		"no test that the selected group is absent from the key shares already sent: the client answers an unnecessary HelloRetryRequest with a second share for the same group")
	rejects("processHelloRetryRequest:no-change", "carrying neither a group nor a cookie",
		c22Vals(c22ZeroVal(info, isGroup, false), c22ZeroVal(info, isCookie, false)), c22Vals(c22ZeroVal(info, isGroup, false), c22ZeroVal(info, isCookie, true)), true, "")
	// a valid HRR reaches the fresh-share store; a cookie-only HRR does not
	valid := c22Explore(fn, fn.EntryPoint(), validVal, nil)
	okValid := len(freshPts) > 0
	for _, p := range freshPts {
		if !valid.Reach[p] {
			okValid = false
		}
	}
	r.Check(okValid, "C17.2", "processHelloRetryRequest:valid-group-accepted", pos, "an offered group without a share reaches the fresh-share store", "an offered group without a share does not reach the store of a fresh share: valid HelloRetryRequests are rejected or answered without a new share")
	cookieOnly := c22Explore(fn, fn.EntryPoint(), c22Vals(c22ZeroVal(info, isGroup, false), c22ZeroVal(info, isCookie, true)), nil)
	okCO := true
	for _, p := range freshPts {
		if cookieOnly.Reach[p] {
			okCO = false
		}
	}
	r.Check(okCO, "C17.2", "processHelloRetryRequest:cookie-only-keeps-shares", pos, "without a selected group the key shares are left alone", "a fresh share is generated although the HelloRetryRequest selected no group")
	r.Floor("C17.2", 5)

	// ------------------------------------------------------------ C17.4 exactly one share
	if len(x.fresh) == 0 {
		r.Bad("C17.4", "processHelloRetryRequest:fresh-share", pos, "no store of a fresh key share list into hello.keyShares")
	}
	for _, in := range x.fresh {
		lit := an.Unparen(in.Rhs).(*ast.CompositeLit)
		cons := "processHelloRetryRequest:fresh-share"
		if len(lit.Elts) != 1 {
			r.Bad("C17.4", cons, c.Pos(lit), "the second ClientHello's key_share list is built with %d entries; RFC 8446 4.2.8 requires exactly one share, for the selected group", len(lit.Elts))
			continue
		}
		el, ok := an.Unparen(lit.Elts[0]).(*ast.CompositeLit)
		if !ok {
			r.Unknown("C17.4", cons, c.Pos(lit), "share element is not a composite literal")
			continue
		}
		var gExpr, dExpr ast.Expr
		for i, e := range el.Elts {
			if kv, ok := e.(*ast.KeyValueExpr); ok {
				switch kv.Key.(*ast.Ident).Name {
				case "group":
					gExpr = kv.Value
				case "data":
					dExpr = kv.Value
				}
			} else if i == 0 {
				gExpr = e
			} else if i == 1 {
				dExpr = e
			}
		}
		// the key: local defined from generateECDHEKey(…, group)
		var keyObj types.Object
		var genPt an.Point
		for _, h := range c.c22Calls(fn, "", "generateECDHEKey") {
			call := h.N.(*ast.CallExpr)
			if len(call.Args) == 2 && isGroup(call.Args[1]) {
				par := c22Parents(fn.Body)
				if as, ok := par[call].(*ast.AssignStmt); ok && len(as.Lhs) == 2 {
					if id, ok := as.Lhs[0].(*ast.Ident); ok {
						keyObj, genPt = objOf(info, id), h.P
					}
				}
				c.c22ErrRule("C17.4", fn, h, "generateECDHEKey")
			}
		}
		okG := gExpr != nil && isGroup(gExpr)
		okD := dExpr != nil && keyObj != nil && c22Mentions(info, dExpr, keyObj) && an.Contains(dExpr, func(n ast.Node) bool {
			cl, ok := n.(*ast.CallExpr)
			if !ok {
				return false
			}
			f, _ := an.Callee(info, cl).(*types.Func)
			return f != nil && f.Name() == "PublicKey"
		})
		r.Check(okG, "C17.4", cons+":group", c.Pos(el), "the single share is for the selected group", "the fresh share's group is "+an.Str(gExpr)+", not the group the server selected")
		r.Check(okD && fn.MustPass(in.P, []an.Point{genPt}, nil), "C17.4", cons+":data", c.Pos(el), "share data is the public half of a key generated for the selected group", "the fresh share's data is not the public key of a key freshly generated for the selected group")
		// private half stored for the same key
		okPriv := false
		for _, ks := range c22FieldInits(fn, c22HS, "keyShareKeys") {
			if ks.Rhs != nil && keyObj != nil && c22Mentions(info, ks.Rhs, keyObj) && an.Contains(ks.Rhs, func(n ast.Node) bool { e, ok := n.(ast.Expr); return ok && isGroup(e) }) {
				if _, on := c22PointOf(fn, ks.Node); on && valid.Reach[ks.P] {
					okPriv = true
				}
			}
		}
		r.Check(okPriv, "C17.4", cons+":private-key", c.Pos(el), "hs.keyShareKeys holds the same key and group", "hs.keyShareKeys is not updated with the key whose public half is sent: the handshake cannot complete")
	}
	r.Floor("C17.4", 4)

	// ------------------------------------------------------------ C17.1 effects of the section
	c17Effects(c, x)

	// ------------------------------------------------------------ C17.5 key_share refill
	if len(x.ksStores) == 0 {
		r.Bad("C17.5", "processHelloRetryRequest:KeyShareExtension-refill", pos, "the uTLS section never updates KeyShareExtension.KeyShares: the re-marshalled ClientHello repeats the first flight's key_share")
	}
	var ksPts []an.Point
	for _, in := range x.ksStores {
		ksPts = append(ksPts, in.P)
		cons := "processHelloRetryRequest:KeyShareExtension-refill"
		src := in.Rhs != nil && an.MentionsField(info, in.Rhs, "clientHelloMsg", "keyShares") && !an.MentionsField(info, in.Rhs, "KeyShareExtension", "KeyShares")
		r.Check(src, "C17.5", cons+":source", c.Pos(in.Node), "KeyShares is replaced by the hello's key share list", "KeyShareExtension.KeyShares is assigned "+an.Str(in.Rhs)+": it must be replaced by the hello's (updated) key share list, not keep the first flight's shares")
		r.Check(c17OverExtensions(fn, in.Base), "C17.5", cons+":target", c.Pos(in.Node), "the updated extension is an element of hs.uconn.Extensions", "the KeyShareExtension updated here is not obtained from hs.uconn.Extensions: the list that is re-marshalled keeps the old shares")
		after := true
		for _, p := range freshPts {
			if fn.Reachable(in.P, p) {
				after = false
			}
		}
		r.Check(after, "C17.5", cons+":after-fresh-share", c.Pos(in.Node), "the refill cannot run before the fresh share is stored", "the fresh share can be stored after the KeyShareExtension was refilled: the extension keeps the first flight's shares")
	}
	for _, m := range x.marshal {
		ok, why := c17NeedsStore(fn, x.secStartPoint(), m.P, ksPts, x.world())
		r.Check(ok, "C17.5", "processHelloRetryRequest:refill-before-marshal", c.Pos(m.N), "the re-marshal is unreachable without the refill (flag idiom accepted)", "the re-marshal is reachable without refilling the KeyShareExtension"+why)
	}
	r.Floor("C17.5", 4)

	// ------------------------------------------------------------ C17.6 / C17.7 cookie
	c17Cookie(c, x, isCookie)

	// ------------------------------------------------------------ C17.8 re-marshal, original, second hello
	var origPts []an.Point
	for _, in := range c22FieldInits(fn, "clientHelloMsg", "original") {
		if !x.section[in.P] {
			continue
		}
		origPts = append(origPts, in.P)
		okSrc := in.Rhs != nil && an.FieldSel(info, an.Unparen(in.Rhs), "PubClientHelloMsg", "Raw")
		okBase := in.Base != nil && an.FieldSel(info, an.Unparen(in.Base), c22HS, "hello")
		r.Check(okSrc && okBase, "C17.8", "processHelloRetryRequest:original<-Raw", c.Pos(in.Node), "hs.hello.original = uconn.HandshakeState.Hello.Raw", "hs.hello.original is assigned "+an.Str(in.Rhs)+" (target "+an.Str(in.Base)+"), not the re-marshalled Hello.Raw of hs.hello")
		okOrder := len(x.marshal) > 0 && fn.MustPass(in.P, c22HitPts(x.marshal), nil)
		for _, m := range x.marshal {
			if fn.Reachable(in.P, m.P) {
				okOrder = false
			}
		}
		r.Check(okOrder, "C17.8", "processHelloRetryRequest:marshal<original", c.Pos(in.Node), "original is taken after the re-marshal", "hs.hello.original is read from Hello.Raw before MarshalClientHelloNoECH ran (or a re-marshal follows it): the second ClientHello on the wire is stale")
	}
	if len(x.marshal) == 0 {
		r.Bad("C17.8", "processHelloRetryRequest:re-marshal", pos, "the uTLS section never calls MarshalClientHelloNoECH: the second ClientHello repeats the first")
	}
	for _, m := range x.marshal {
		c.c22ErrRule("C17.8", fn, m, "MarshalClientHelloNoECH")
	}
	writes := fn.FindNodes(func(n ast.Node) bool {
		call, ok := n.(*ast.CallExpr)
		return ok && c.c22CalleeIs(call, "Conn", "writeHandshakeRecord") && len(call.Args) == 2 && an.TypeName(info.TypeOf(call.Args[0])) == "clientHelloMsg"
	})
	if len(writes) == 0 {
		r.Bad("C17.8", "processHelloRetryRequest:second-hello", pos, "no writeHandshakeRecord of the second ClientHello")
	}
	for _, w := range writes {
		call := w.N.(*ast.CallExpr)
		r.Check(an.FieldSel(info, an.Unparen(call.Args[0]), c22HS, "hello") && an.FieldSel(info, an.Unparen(call.Args[1]), c22HS, "transcript"), "C17.8", "processHelloRetryRequest:second-hello", c.Pos(call),
			"the second ClientHello is hs.hello, hashed into hs.transcript", "the second ClientHello is written from "+an.Str(call.Args[0])+" with transcript "+an.Str(call.Args[1]))
		c.c22ErrRule("C17.8", fn, w, "writeHandshakeRecord")
		wd := c22Explore(fn, fn.EntryPoint(), x.world(), c22PtsSet(origPts))
		r.Check(len(origPts) > 0 && !wd.Reach[w.P], "C17.8", "processHelloRetryRequest:original<second-hello", c.Pos(call), "for a uTLS-marshalled hello the write is unreachable without refreshing hs.hello.original",
			"for a uTLS-marshalled hello the second ClientHello can be written without hs.hello.original = Hello.Raw: clientHelloMsg.marshal returns the stale first ClientHello")
	}
	r.Floor("C17.8", 6)

	// ------------------------------------------------------------ C17.3 the re-marshal's own effects
	c17MarshalEffects(c)

	// PSK precondition of the effect analysis
	psk := c22Explore(fn, fn.EntryPoint(), x.world(c22ZeroVal(info, isPSK, true)), nil)
	okPSK := psk.Decided > 0
	for _, m := range x.marshal {
		if psk.Reach[m.P] {
			okPSK = false
		}
	}
	r.Check(okPSK, "C17.1", "processHelloRetryRequest:psk-excluded", pos, "a hello with PSK identities never reaches the re-marshal (the section has no binder update)", "a hello carrying PSK identities reaches the uTLS re-marshal, which does not recompute binders")
}

// secStartPoint: a point from which the whole section is explored (function entry; the
// world valuation keeps exploration on the uTLS branch).
func (x *c17Ctx) secStartPoint() an.Point { return x.fn.EntryPoint() }

// c17OverExtensions: base is a local bound by a type assertion on the value variable of a
// range over UConn.Extensions (or an index into it).
func c17OverExtensions(fn *an.Fn, base ast.Expr) bool {
	info := fn.Info
	id, ok := an.Unparen(base).(*ast.Ident)
	if !ok {
		return false
	}
	obj := objOf(info, id)
	found := false
	an.Inner(fn.Body, func(n ast.Node) bool {
		as, ok := n.(*ast.AssignStmt)
		if !ok || len(as.Rhs) != 1 || len(as.Lhs) == 0 {
			return true
		}
		l, ok := as.Lhs[0].(*ast.Ident)
		if !ok || objOf(info, l) != obj {
			return true
		}
		ta, ok := an.Unparen(as.Rhs[0]).(*ast.TypeAssertExpr)
		if !ok {
			return true
		}
		switch v := an.Unparen(ta.X).(type) {
		case *ast.Ident:
			vo := objOf(info, v)
			an.Inner(fn.Body, func(m ast.Node) bool {
				rs, ok := m.(*ast.RangeStmt)
				if !ok || rs.Value == nil {
					return true
				}
				if vi, ok := rs.Value.(*ast.Ident); ok && objOf(info, vi) == vo && an.FieldSel(info, an.Unparen(rs.X), "UConn", "Extensions") {
					found = true
				}
				return true
			})
		case *ast.IndexExpr:
			if an.FieldSel(info, an.Unparen(v.X), "UConn", "Extensions") {
				found = true
			}
		}
		return true
	})
	return found
}

// c17NeedsStore: target is unreachable from `from` under the valuation unless one of the
// store points was passed. Boolean locals that are set to true only right after such a store
// are assumed false (flag idiom: found := false; for … { store; found = true }; if !found {…}).
func c17NeedsStore(fn *an.Fn, from, target an.Point, stores []an.Point, val c22Val) (bool, string) {
	info := fn.Info
	if len(stores) == 0 {
		return false, ""
	}
	flagSets := map[types.Object][]an.Point{}
	flagOK := map[types.Object]bool{}
	for _, h := range fn.FindNodes(func(n ast.Node) bool {
		as, ok := n.(*ast.AssignStmt)
		if !ok || as.Tok != token.ASSIGN || len(as.Lhs) != 1 || len(as.Rhs) != 1 {
			return false
		}
		id, ok := an.Unparen(as.Rhs[0]).(*ast.Ident)
		return ok && id.Name == "true" && c22IsBool(info, as.Rhs[0])
	}) {
		l, ok := h.N.(*ast.AssignStmt).Lhs[0].(*ast.Ident)
		if !ok {
			continue
		}
		o := objOf(info, l)
		if _, seen := flagOK[o]; !seen {
			flagOK[o] = true
		}
		flagSets[o] = append(flagSets[o], h.P)
		if !fn.MustPass(h.P, stores, nil) {
			flagOK[o] = false
		}
	}
	blocked := c22PtsSet(stores)
	var flags []types.Object
	for o, ok := range flagOK {
		if ok {
			flags = append(flags, o)
			for _, p := range flagSets[o] {
				blocked[p] = true
			}
		}
	}
	isFlag := func(e ast.Expr) bool {
		id, ok := an.Unparen(e).(*ast.Ident)
		if !ok {
			return false
		}
		o := objOf(info, id)
		for _, f := range flags {
			if f == o {
				return true
			}
		}
		return false
	}
	w := c22Explore(fn, from, c22Vals(val, c22ZeroVal(info, isFlag, false)), blocked)
	if w.Reach[target] && !blocked[target] {
		return false, ""
	}
	return true, ""
}

// c17Effects classifies every store and call in the section.
func c17Effects(c *Ctx, x *c17Ctx) {
	r := c.R
	info := c.Info()
	fn := x.fn
	// deterministic order
	var pts []an.Point
	for p := range x.section {
		pts = append(pts, p)
	}
	sort.Slice(pts, func(i, j int) bool { return pts[i].Node().Pos() < pts[j].Node().Pos() })
	// locals defined inside the section
	local := map[types.Object]bool{}
	for _, p := range pts {
		ast.Inspect(p.Node(), func(n ast.Node) bool {
			if id, ok := n.(*ast.Ident); ok {
				if o := info.Defs[id]; o != nil {
					local[o] = true
				}
			}
			return true
		})
	}
	// range/type-switch variables declared by statements enclosing section points
	an.Inner(fn.Body, func(n ast.Node) bool {
		if rs, ok := n.(*ast.RangeStmt); ok {
			if p, ok := c22PointOf(fn, rs.X); ok && x.section[p] {
				for _, e := range []ast.Expr{rs.Key, rs.Value} {
					if id, ok := e.(*ast.Ident); ok {
						if o := info.Defs[id]; o != nil {
							local[o] = true
						}
					}
				}
			}
		}
		return true
	})
	seen := map[string]bool{}
	nStores, nCalls := 0, 0
	store := func(lhs ast.Expr, rhs ast.Expr, at ast.Node) {
		lhs = an.Unparen(lhs)
		if id, ok := lhs.(*ast.Ident); ok {
			o := objOf(info, id)
			if id.Name == "_" || local[o] {
				return
			}
			if c22IsErrorType(o.Type()) || c22IsBool(info, id) {
				return
			}
			nStores++
			r.Unknown("C17.1", "processHelloRetryRequest:store "+id.Name, c.Pos(at), "the section assigns the outer variable %s; its later use was not analysed", id.Name)
			return
		}
		nStores++
		key := "processHelloRetryRequest:store " + c17FieldKey(info, lhs)
		switch {
		case c17IsField(info, lhs, "KeyShareExtension", "KeyShares"), c17IsField(info, lhs, "CookieExtension", "Cookie"),
			c17IsField(info, lhs, "UConn", "Extensions"), c17IsField(info, lhs, "clientHelloMsg", "original"):
			if !seen[key] {
				seen[key] = true
				r.Ok("C17.1", key, c.Pos(at), "store within the set a HelloRetryRequest may change")
			}
		default:
			r.Bad("C17.1", key, c.Pos(at), "the uTLS HelloRetryRequest section stores to %s; between the two ClientHellos only key_share, cookie and padding may change (RFC 8446 4.1.2)", an.Str(lhs))
		}
	}
	for _, p := range pts {
		n := p.Node()
		an.Inner(n, func(m ast.Node) bool {
			switch s := m.(type) {
			case *ast.AssignStmt:
				for i, l := range s.Lhs {
					var rhs ast.Expr
					if len(s.Rhs) == len(s.Lhs) {
						rhs = s.Rhs[i]
					}
					store(l, rhs, s)
				}
			case *ast.IncDecStmt:
				store(s.X, nil, s)
			case *ast.CallExpr:
				nCalls++
				c17Call(c, x, s, local)
			}
			return true
		})
	}
	r.Count("c17_section_points", len(pts))
	r.Count("c17_section_stores", nStores)
	r.Count("c17_section_calls", nCalls)
	r.Floor("C17.1", 8)
}

func c17IsField(info *types.Info, e ast.Expr, owner, field string) bool {
	return an.FieldSel(info, an.Unparen(e), owner, field)
}

func c17FieldKey(info *types.Info, e ast.Expr) string {
	e = an.Unparen(e)
	switch v := e.(type) {
	case *ast.SelectorExpr:
		if sel := info.Selections[v]; sel != nil {
			if f, ok := sel.Obj().(*types.Var); ok {
				return an.FieldOwner(info, sel, f) + "." + v.Sel.Name
			}
		}
		return an.Str(v)
	case *ast.IndexExpr:
		return c17FieldKey(info, v.X) + "[]"
	case *ast.StarExpr:
		return "*" + c17FieldKey(info, v.X)
	}
	return an.Str(e)
}

// c17Call classifies one call of the section.
func c17Call(c *Ctx, x *c17Ctx, call *ast.CallExpr, local map[types.Object]bool) {
	r := c.R
	info := c.Info()
	if tv, ok := info.Types[call.Fun]; ok && tv.IsType() {
		return // conversion
	}
	obj := an.Callee(info, call)
	switch f := obj.(type) {
	case *types.Builtin:
		switch f.Name() {
		case "len", "cap", "append", "make", "new", "min", "max":
			return
		}
		r.Unknown("C17.1", "processHelloRetryRequest:call "+f.Name(), c.Pos(call), "builtin %s in the section is not summarised", f.Name())
		return
	case *types.Func:
		name := f.Name()
		if recv := f.Type().(*types.Signature).Recv(); recv != nil {
			name = an.TypeName(recv.Type()) + "." + name
		}
		key := "processHelloRetryRequest:call " + name
		if f.Pkg() == nil || !strings.HasPrefix(f.Pkg().Path(), Mod) {
			p := ""
			if f.Pkg() != nil {
				p = f.Pkg().Path()
			}
			if (p == "errors" && f.Name() == "New") || (p == "fmt" && (f.Name() == "Errorf" || f.Name() == "Sprintf")) ||
				(p == "slices" && f.Name() == "Insert") { // like append: its effect is the store of its result
				return
			}
			r.Unknown("C17.1", key, c.Pos(call), "call to %s.%s in the section is not summarised", p, f.Name())
			return
		}
		// receiver rooted at a section-local variable holding a fresh object: effects stay local
		if se, ok := call.Fun.(*ast.SelectorExpr); ok {
			if id, ok := an.Unparen(se.X).(*ast.Ident); ok && local[objOf(info, id)] && c17FreshLocal(x.fn, objOf(info, id)) {
				r.Ok("C17.1", key, c.Pos(call), "method on a fresh local object")
				return
			}
		}
		if an.FuncIs(f, Mod, "UConn", "MarshalClientHelloNoECH") {
			r.Ok("C17.1", key, c.Pos(call), "the re-marshal (effects decided by C17.3)")
			return
		}
		fd := c17DeclOf(c, f)
		if fd == nil {
			r.Unknown("C17.1", key, c.Pos(call), "no body found for %s", name)
			return
		}
		st := c17Summary(c, fd, 2, map[*ast.FuncDecl]bool{})
		if len(st) == 0 {
			r.Ok("C17.1", key, c.Pos(call), "callee (two levels, interface methods resolved to their implementations) has no store to non-local state")
			return
		}
		if len(st) > 6 {
			st = append(st[:6], "…")
		}
		r.Bad("C17.1", key, c.Pos(call), "the section calls %s, which stores to %s: outside the set a HelloRetryRequest may change", name, strings.Join(st, ", "))
	default:
		r.Unknown("C17.1", "processHelloRetryRequest:call "+an.Str(call.Fun), c.Pos(call), "dynamic call in the section")
	}
}

// c17FreshLocal: every definition of obj in fn binds a call result, composite literal, new or make.
func c17FreshLocal(fn *an.Fn, obj types.Object) bool {
	info := fn.Info
	ok := false
	bad := false
	an.Inner(fn.Body, func(n ast.Node) bool {
		as, isAs := n.(*ast.AssignStmt)
		if !isAs {
			return true
		}
		for i, l := range as.Lhs {
			id, isID := l.(*ast.Ident)
			if !isID || objOf(info, id) != obj {
				continue
			}
			var rhs ast.Expr
			if len(as.Rhs) == len(as.Lhs) {
				rhs = as.Rhs[i]
			} else if len(as.Rhs) == 1 {
				rhs = as.Rhs[0]
			}
			if c17FreshExpr(info, rhs) {
				ok = true
			} else {
				bad = true
			}
		}
		return true
	})
	return ok && !bad
}

func c17FreshExpr(info *types.Info, e ast.Expr) bool {
	if e == nil {
		return false
	}
	switch v := an.Unparen(e).(type) {
	case *ast.CompositeLit:
		return true
	case *ast.UnaryExpr:
		if v.Op == token.AND {
			_, ok := an.Unparen(v.X).(*ast.CompositeLit)
			return ok
		}
	case *ast.CallExpr:
		if tv, ok := info.Types[v.Fun]; ok && tv.IsType() {
			return false
		}
		if _, isTA := an.Unparen(v.Fun).(*ast.TypeAssertExpr); isTA {
			return false
		}
		return true
	}
	return false
}

func c17DeclOf(c *Ctx, f *types.Func) *ast.FuncDecl {
	for _, pk := range c.P.Pkgs {
		if pk.Types != f.Pkg() {
			continue
		}
		for _, file := range pk.Syntax {
			for _, d := range file.Decls {
				if fd, ok := d.(*ast.FuncDecl); ok && fd.Body != nil && pk.TypesInfo.Defs[fd.Name] == f {
					return fd
				}
			}
		}
	}
	return nil
}

// c17Stores lists (sorted, unique) the non-local state a function body stores to directly:
// fields reached from the receiver, a parameter, a global, or a local pointer/slice/map
// variable that aliases one of them (not bound to a fresh object).
func c17Stores(c *Ctx, fd *ast.FuncDecl) []string {
	info := c.Info()
	set := map[string]bool{}
	declared := map[types.Object]bool{}
	ast.Inspect(fd.Body, func(n ast.Node) bool {
		if id, ok := n.(*ast.Ident); ok {
			if o := info.Defs[id]; o != nil {
				declared[o] = true
			}
		}
		return true
	})
	freshLocal := func(o types.Object) bool {
		if !declared[o] {
			return false
		}
		switch o.Type().Underlying().(type) {
		case *types.Pointer, *types.Slice, *types.Map, *types.Interface:
		default:
			return true // value copy
		}
		fresh, any := true, false
		ast.Inspect(fd.Body, func(n ast.Node) bool {
			switch s := n.(type) {
			case *ast.AssignStmt:
				for i, l := range s.Lhs {
					if id, ok := l.(*ast.Ident); ok && objOf(info, id) == o {
						var rhs ast.Expr
						if len(s.Rhs) == len(s.Lhs) {
							rhs = s.Rhs[i]
						} else if len(s.Rhs) == 1 {
							rhs = s.Rhs[0]
						}
						any = true
						if !c17FreshExpr(info, rhs) {
							fresh = false
						}
					}
				}
			case *ast.ValueSpec:
				for i, id := range s.Names {
					if info.Defs[id] == o {
						any = true
						if i < len(s.Values) && !c17FreshExpr(info, s.Values[i]) {
							fresh = false
						}
					}
				}
			case *ast.RangeStmt:
				for _, e := range []ast.Expr{s.Key, s.Value} {
					if id, ok := e.(*ast.Ident); ok && objOf(info, id) == o {
						any, fresh = true, false
					}
				}
			}
			return true
		})
		return any && fresh
	}
	var root func(e ast.Expr) (types.Object, bool)
	root = func(e ast.Expr) (types.Object, bool) {
		switch v := an.Unparen(e).(type) {
		case *ast.Ident:
			return objOf(info, v), true
		case *ast.SelectorExpr:
			if _, isPkg := info.Uses[idOf(v.X)].(*types.PkgName); isPkg {
				return info.Uses[v.Sel], true
			}
			return root(v.X)
		case *ast.IndexExpr:
			return root(v.X)
		case *ast.StarExpr:
			return root(v.X)
		case *ast.SliceExpr:
			return root(v.X)
		}
		return nil, false
	}
	ast.Inspect(fd.Body, func(n ast.Node) bool {
		var lhss []ast.Expr
		switch s := n.(type) {
		case *ast.AssignStmt:
			lhss = s.Lhs
		case *ast.IncDecStmt:
			lhss = []ast.Expr{s.X}
		}
		for _, l := range lhss {
			l = an.Unparen(l)
			if id, ok := l.(*ast.Ident); ok {
				o := objOf(info, id)
				if o != nil && o.Parent() == o.Pkg().Scope() {
					set["global "+id.Name] = true
				}
				continue
			}
			o, ok := root(l)
			if !ok || o == nil {
				set[an.Str(l)] = true
				continue
			}
			if freshLocal(o) {
				continue
			}
			set[c17FieldKey(info, l)] = true
		}
		return true
	})
	var out []string
	for k := range set {
		out = append(out, k)
	}
	sort.Strings(out)
	return out
}

func idOf(e ast.Expr) *ast.Ident {
	id, _ := an.Unparen(e).(*ast.Ident)
	return id
}

// c17MarshalEffects decides C17.3.
func c17MarshalEffects(c *Ctx) {
	r := c.R
	info := c.Info()
	fd := load.FuncDecl(c.P.TLS, "UConn", "MarshalClientHelloNoECH")
	if fd == nil {
		r.Unknown("C17.3", "MarshalClientHelloNoECH", "", "anchor not found")
		return
	}
	st := c17Stores(c, fd)
	for _, s := range st {
		r.Check(s == "PubClientHelloMsg.Raw", "C17.3", "MarshalClientHelloNoECH:store "+s, c.Pos(fd), "the marshaller's only direct store is Hello.Raw", "MarshalClientHelloNoECH stores to "+s+": re-marshalling after a HelloRetryRequest changes more than key_share, cookie and padding")
	}
	if len(st) == 0 {
		r.Bad("C17.3", "MarshalClientHelloNoECH:store PubClientHelloMsg.Raw", c.Pos(fd), "MarshalClientHelloNoECH never stores Hello.Raw")
	}
	// calls on module objects
	ast.Inspect(fd.Body, func(n ast.Node) bool {
		call, ok := n.(*ast.CallExpr)
		if !ok {
			return true
		}
		f, ok := an.Callee(info, call).(*types.Func)
		if !ok || f.Pkg() == nil || !strings.HasPrefix(f.Pkg().Path(), Mod) {
			return true
		}
		sig := f.Type().(*types.Signature)
		name := f.Name()
		if sig.Recv() != nil {
			name = an.TypeName(sig.Recv().Type()) + "." + name
		}
		key := "MarshalClientHelloNoECH:call " + name
		switch name {
		case "TLSExtension.Len", "UtlsPaddingExtension.Len":
			r.Ok("C17.3", key, c.Pos(call), "length query of an extension")
		case "UtlsPaddingExtension.Update":
			up := c17DeclOf(c, f)
			if up == nil {
				r.Unknown("C17.3", key, c.Pos(call), "no body")
				return true
			}
			var bad []string
			for _, s := range c17Stores(c, up) {
				if s != "UtlsPaddingExtension.PaddingLen" && s != "UtlsPaddingExtension.WillPad" {
					bad = append(bad, s)
				}
			}
			r.Check(len(bad) == 0, "C17.3", key, c.Pos(call), "padding Update writes only PaddingLen/WillPad", "UtlsPaddingExtension.Update stores to "+strings.Join(bad, ", "))
		default:
			fdc := c17DeclOf(c, f)
			if fdc == nil {
				r.Unknown("C17.3", key, c.Pos(call), "callee without body")
				return true
			}
			if s := c17Stores(c, fdc); len(s) > 0 {
				r.Bad("C17.3", key, c.Pos(call), "MarshalClientHelloNoECH calls %s, which stores to %s", name, strings.Join(s, ", "))
			} else {
				r.Ok("C17.3", key, c.Pos(call), "callee has no store to non-local state")
			}
		}
		return true
	})
	r.Floor("C17.3", 4)
}

// c17Cookie decides C17.6 and C17.7.
func c17Cookie(c *Ctx, x *c17Ctx, isCookie func(ast.Expr) bool) {
	r := c.R
	info := c.Info()
	fn := x.fn
	pos := c.Pos(fn.Decl)
	var storePts []an.Point
	nStores := 0
	for _, in := range c22FieldInits(fn, "CookieExtension", "Cookie") {
		if !x.section[in.P] {
			continue
		}
		nStores++
		ok := in.Rhs != nil && isCookie(in.Rhs)
		kind := "existing"
		if in.Base == nil {
			kind = "inserted"
		} else {
			r.Check(c17OverExtensions(fn, in.Base), "C17.6", "processHelloRetryRequest:cookie-target", c.Pos(in.Node), "the updated CookieExtension is an element of hs.uconn.Extensions", "the CookieExtension updated here is not obtained from hs.uconn.Extensions")
		}
		r.Check(ok, "C17.6", "processHelloRetryRequest:cookie-echo-"+kind, c.Pos(in.Node), "cookie = hs.serverHello.cookie", "the CookieExtension receives "+an.Str(in.Rhs)+" instead of the server's cookie (hs.serverHello.cookie): the HelloRetryRequest cookie is not echoed")
		if ok {
			storePts = append(storePts, in.P)
		}
	}
	if nStores == 0 {
		r.Bad("C17.6", "processHelloRetryRequest:cookie-echo", pos, "the uTLS section never stores the server's cookie into a CookieExtension")
	}
	// without a cookie nothing cookie-related happens
	none := c22Explore(fn, fn.EntryPoint(), x.world(c22ZeroVal(info, isCookie, false)), nil)
	touched := false
	for _, p := range storePts {
		if none.Reach[p] {
			touched = true
		}
	}
	var insertions []c22Init
	for _, in := range c22FieldInits(fn, "UConn", "Extensions") {
		if x.section[in.P] {
			insertions = append(insertions, in)
			if none.Reach[in.P] {
				touched = true
			}
		}
	}
	r.Check(none.Decided > 0 && !touched, "C17.6", "processHelloRetryRequest:no-cookie-no-change", pos, "without a cookie in the HelloRetryRequest no CookieExtension is stored or inserted", "a CookieExtension is stored/inserted although the HelloRetryRequest carried no cookie")
	// with a cookie the re-marshal needs a store
	for _, m := range x.marshal {
		ok, _ := c17NeedsStore(fn, fn.EntryPoint(), m.P, storePts, x.world(c22ZeroVal(info, isCookie, true)))
		r.Check(ok, "C17.6", "processHelloRetryRequest:cookie-before-marshal", c.Pos(m.N), "with a cookie the re-marshal is unreachable without storing it (flag idiom accepted)", "with a cookie in the HelloRetryRequest the re-marshal is reachable without any CookieExtension receiving it")
	}
	r.Floor("C17.6", 5)

	// C17.7 insertion shape and index
	for _, in := range insertions {
		cons := "processHelloRetryRequest:cookie-insertion"
		idx, okShape, why := c17InsertShapeFn(fn, info, in.Rhs)
		if !okShape {
			if why == "" {
				r.Unknown("C17.7", cons, c.Pos(in.Node), "store to uconn.Extensions is not a recognised single-element insertion: %s", an.Str(in.Rhs))
			} else {
				r.Bad("C17.7", cons, c.Pos(in.Node), "%s", why)
			}
			continue
		}
		r.Ok("C17.7", cons, c.Pos(in.Node), "Extensions[:i] + one CookieExtension + Extensions[i:]: every other extension keeps its place")
		// index provenance
		io := objOf(info, idOf(idx))
		var def *ast.CallExpr
		an.Inner(fn.Body, func(n ast.Node) bool {
			as, ok := n.(*ast.AssignStmt)
			if !ok || len(as.Lhs) != 1 || len(as.Rhs) != 1 {
				return true
			}
			if id, ok := as.Lhs[0].(*ast.Ident); ok && objOf(info, id) == io {
				if cl, ok := an.Unparen(as.Rhs[0]).(*ast.CallExpr); ok {
					def = cl
				}
			}
			return true
		})
		if def == nil || !c.c22CalleeIs(def, "prng", "Intn") || len(def.Args) != 1 {
			r.Unknown("C17.7", cons+":index", c.Pos(in.Node), "insertion index is not drawn from prng.Intn")
			continue
		}
		be, ok := an.Unparen(def.Args[0]).(*ast.BinaryExpr)
		k := int64(-1)
		if ok && be.Op == token.SUB {
			if cl, ok := an.Unparen(be.X).(*ast.CallExpr); ok && len(cl.Args) == 1 && an.FieldSel(info, an.Unparen(cl.Args[0]), "UConn", "Extensions") {
				if id, ok := cl.Fun.(*ast.Ident); ok && id.Name == "len" {
					if v, ok := an.ConstInt(info, be.Y); ok {
						k = v
					}
				}
			}
		}
		switch {
		case k < 0:
			r.Bad("C17.7", cons+":index", c.Pos(def), "insertion index is Intn(%s): not of the form len(uconn.Extensions)-k, so it is not bounded by the list length / may place the cookie after the last extension", an.Str(def.Args[0]))
		case k < 1:
			r.Bad("C17.7", cons+":index", c.Pos(def), "insertion index Intn(len-%d) can equal len-1+… : the cookie can be placed after the last extension (pre_shared_key / padding must stay last)", k)
		default:
			r.Ok("C17.7", cons+":index", c.Pos(def), "index in [0, max(0,len-%d-1)] <= len: in range and never after the last extension", k)
		}
		// Intn tolerates n <= 0
		if intn := c.Fn("C17.7", "prng", "Intn"); intn != nil && intn.Decl.Type.Params != nil && len(intn.Decl.Type.Params.List) == 1 && len(intn.Decl.Type.Params.List[0].Names) == 1 {
			pn := info.Defs[intn.Decl.Type.Params.List[0].Names[0]]
			okGuard := true
			for _, v := range []int64{0, -1, -2} {
				w := c22Explore(intn, intn.EntryPoint(), c22CmpVal(info, c22IsObj(info, pn), v), nil)
				if w.Decided == 0 {
					okGuard = false
				}
				for _, ex := range append(w.Succ, w.Err...) {
					rs, ok := ex.Node().(*ast.ReturnStmt)
					if !ok || len(rs.Results) != 1 {
						okGuard = false
						continue
					}
					if cv, ok := an.ConstInt(info, rs.Results[0]); !ok || cv != 0 {
						okGuard = false
					}
				}
			}
			r.Check(okGuard, "C17.7", "prng.Intn:non-positive-bound", c.Pos(intn.Decl), "Intn(n<=0) returns 0 (a list of up to k extensions cannot make math/rand panic)", "prng.Intn does not return 0 for n <= 0: with few extensions the cookie insertion panics in math/rand.Intn")
		}
	}
	if len(insertions) == 0 {
		r.Unknown("C17.7", "processHelloRetryRequest:cookie-insertion", pos, "no insertion of a CookieExtension into uconn.Extensions found (a spec without a cookie extension could not echo the cookie)")
	}
	r.Floor("C17.7", 3)
}

// c17InsertShape recognises append(E[:i], append([]TLSExtension{&CookieExtension{…}}, E[i:]...)...)
// and slices.Insert(E, i, &CookieExtension{…}) with E = UConn.Extensions.
func c17InsertShape(info *types.Info, rhs ast.Expr) (idx ast.Expr, ok bool, why string) {
	return c17InsertShapeFn(nil, info, rhs)
}

// c17InsertShapeFn: with fn given, a local holding the new element (v := &CookieExtension{…})
// is read through to its definition.
func c17InsertShapeFn(fn *an.Fn, info *types.Info, rhs ast.Expr) (idx ast.Expr, ok bool, why string) {
	call, isCall := an.Unparen(rhs).(*ast.CallExpr)
	if !isCall {
		return nil, false, ""
	}
	isE := func(e ast.Expr) bool { return an.FieldSel(info, an.Unparen(e), "UConn", "Extensions") }
	oneCookie := func(e ast.Expr) bool {
		e = an.Unparen(e)
		if cv, ok := e.(*ast.CallExpr); ok && len(cv.Args) == 1 { // TLSExtension(&CookieExtension{…})
			if tv, ok := info.Types[cv.Fun]; ok && tv.IsType() {
				e = cv.Args[0]
			}
		}
		if fn != nil {
			e = inlineLocal(fn, e)
		}
		u, ok := an.Unparen(e).(*ast.UnaryExpr)
		if !ok || u.Op != token.AND {
			return false
		}
		cl, ok := an.Unparen(u.X).(*ast.CompositeLit)
		return ok && an.TypeName(info.TypeOf(cl)) == "CookieExtension"
	}
	sameIdx := func(a, b ast.Expr) bool {
		ia, ib := idOf(a), idOf(b)
		return ia != nil && ib != nil && objOf(info, ia) == objOf(info, ib)
	}
	if f, _ := an.Callee(info, call).(*types.Func); f != nil && f.Pkg() != nil && f.Pkg().Path() == "slices" && f.Name() == "Insert" {
		if len(call.Args) == 3 && isE(call.Args[0]) && oneCookie(call.Args[2]) {
			return call.Args[1], true, ""
		}
		return nil, false, ""
	}
	id, isID := call.Fun.(*ast.Ident)
	if !isID || id.Name != "append" || len(call.Args) != 2 || !call.Ellipsis.IsValid() {
		return nil, false, ""
	}
	head, ok1 := an.Unparen(call.Args[0]).(*ast.SliceExpr)
	inner, ok2 := an.Unparen(call.Args[1]).(*ast.CallExpr)
	if !ok1 || !ok2 || !isE(head.X) || head.Low != nil || head.High == nil {
		return nil, false, ""
	}
	iid, isID2 := inner.Fun.(*ast.Ident)
	if !isID2 || iid.Name != "append" || len(inner.Args) != 2 || !inner.Ellipsis.IsValid() {
		return nil, false, ""
	}
	lit, ok3 := an.Unparen(inner.Args[0]).(*ast.CompositeLit)
	tail, ok4 := an.Unparen(inner.Args[1]).(*ast.SliceExpr)
	if !ok3 || !ok4 || !isE(tail.X) {
		return nil, false, ""
	}
	if len(lit.Elts) != 1 || !oneCookie(lit.Elts[0]) {
		return nil, false, fmt.Sprintf("the insertion adds %d element(s) that are not exactly one CookieExtension", len(lit.Elts))
	}
	if tail.High != nil || tail.Low == nil || !sameIdx(head.High, tail.Low) {
		return nil, false, "the insertion re-assembles uconn.Extensions from Extensions[:" + an.Str(head.High) + "] and Extensions[" + an.Str(tail.Low) + ":" + an.Str(tail.High) + "]: an extension is dropped or duplicated in the second ClientHello"
	}
	return head.High, true, ""
}

// c17Summary extends c17Stores through the callee's own calls: concrete module callees are
// followed depth levels deep; calls through an interface declared in the module are resolved
// to every implementation in the root package. TLSExtension.Len/Read (the encoders) are not
// followed: that they leave extension state alone is C08/C16's obligation.
func c17Summary(c *Ctx, fd *ast.FuncDecl, depth int, seen map[*ast.FuncDecl]bool) []string {
	info := c.Info()
	if seen[fd] {
		return nil
	}
	seen[fd] = true
	set := map[string]bool{}
	for _, s := range c17Stores(c, fd) {
		set[s] = true
	}
	if depth > 0 {
		ast.Inspect(fd.Body, func(n ast.Node) bool {
			call, ok := n.(*ast.CallExpr)
			if !ok {
				return true
			}
			f, ok := an.Callee(info, call).(*types.Func)
			if !ok || f.Pkg() == nil || !strings.HasPrefix(f.Pkg().Path(), Mod) {
				return true
			}
			sig := f.Type().(*types.Signature)
			if sig.Recv() != nil {
				if _, isIface := sig.Recv().Type().Underlying().(*types.Interface); isIface {
					if f.Name() == "Len" || f.Name() == "Read" {
						return true
					}
					for _, impl := range c17Implementations(c, f) {
						if d := c17DeclOf(c, impl); d != nil {
							for _, s := range c17Summary(c, d, depth-1, seen) {
								set[s] = true
							}
						}
					}
					return true
				}
			}
			if d := c17DeclOf(c, f); d != nil {
				for _, s := range c17Summary(c, d, depth-1, seen) {
					set[s] = true
				}
			}
			return true
		})
	}
	var out []string
	for k := range set {
		out = append(out, k)
	}
	sort.Strings(out)
	return out
}

// c17Implementations lists the concrete methods of root-package types named like the
// interface method m and belonging to a type that implements m's interface.
func c17Implementations(c *Ctx, m *types.Func) []*types.Func {
	iface, ok := m.Type().(*types.Signature).Recv().Type().Underlying().(*types.Interface)
	if !ok {
		return nil
	}
	var out []*types.Func
	sc := c.P.TLS.Types.Scope()
	for _, name := range sc.Names() {
		tn, ok := sc.Lookup(name).(*types.TypeName)
		if !ok {
			continue
		}
		named, ok := tn.Type().(*types.Named)
		if !ok {
			continue
		}
		if _, isI := named.Underlying().(*types.Interface); isI {
			continue
		}
		pt := types.NewPointer(named)
		if !types.Implements(pt, iface) && !types.Implements(named, iface) {
			continue
		}
		obj, _, _ := types.LookupFieldOrMethod(pt, true, c.P.TLS.Types, m.Name())
		if f, ok := obj.(*types.Func); ok {
			out = append(out, f)
		}
	}
	return out
}
