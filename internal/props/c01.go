package props

import (
	"go/ast"
	"go/token"
	"go/types"

	"verif/internal/an"
	"verif/internal/load"
)

func init() { register(&Prop{ID: "C01", Run: runC01}) }

func runC01(c *Ctx) {
	r := c.R
	tls := c.P.TLS
	info := tls.TypesInfo
	r.Technique = "CFG must-pass-through / ordering rules and def-use on the build→marshal→write chain (typed AST, go/cfg), converter field maps"
	r.Explanation = "C01.1 the hello is rebuilt at handshake start: BuildHandshakeState is passed on every client path to the handshake function, both in handshakeContext and in handleRenegotiation, and buildHandshakeState re-applies the extension config and re-marshals on every call (not only the first). " +
		"C01.2 clientHelloMsg.marshal returns the stored bytes when present; the public/private views map Raw<->original. " +
		"C01.3 MarshalClientHelloNoECH reads every editable hello field (Vers, Random, SessionId, CipherSuites, CompressionMethods) and the Extensions list while producing the bytes it stores in Raw (length-checked). " +
		"C01.4 clientHandshake writes the message obtained from HandshakeState.Hello.getPrivatePtr() as the first record, without storing to its original bytes in between, and copies the hello back to the public state on every exit. " +
		"C01.5 after a HelloRetryRequest the uTLS section re-marshals, refreshes original from Hello.Raw and only then writes the second hello."
	r.NotDecided = "byte equality on an actual socket; HelloGolang (excluded by the statement)"

	// ---- C01.1
	for _, site := range []struct{ recv, name, callee string }{
		{"UConn", "handshakeContext", "handshakeFn"},
		{"UConn", "handleRenegotiation", "clientHandshake"},
	} {
		fn := c.Fn("C01.1", site.recv, site.name)
		if fn == nil {
			continue
		}
		build := fn.Find(an.CallTo(info, Mod, "UConn", "BuildHandshakeState"))
		var hs []an.Point
		if site.callee == "handshakeFn" {
			hs = fn.Find(func(n ast.Node) bool {
				call, ok := n.(*ast.CallExpr)
				return ok && an.FieldSel(info, an.Unparen(call.Fun), "Conn", "handshakeFn")
			})
		} else {
			hs = fn.Find(an.CallTo(info, Mod, "UConn", "clientHandshake"))
		}
		cons := site.recv + "." + site.name + ":build-before-handshake"
		if len(hs) == 0 {
			r.Unknown("C01.1", cons, c.Pos(fn.Decl), "call of the handshake function not found")
			continue
		}
		ok := len(build) > 0
		for _, h := range hs {
			if site.callee == "handshakeFn" {
				// only the client path is required to rebuild: accept paths taking the !isClient edge
				passNotClient, _, _ := condEdges(fn, func(cond ast.Expr) (bool, bool) {
					return an.FieldSel(info, an.Unparen(cond), "Conn", "isClient"), false
				})
				if !fn.MustPass(h, build, passNotClient) {
					ok = false
				}
			} else if !fn.MustPass(h, build, nil) {
				ok = false
			}
		}
		r.Check(ok, "C01.1", cons, c.Pos(fn.Decl), "every client path to the handshake passes BuildHandshakeState", "the handshake can start on a client path without BuildHandshakeState having run: edits made after the last explicit build are not on the wire")
		// its error aborts
		for _, b := range build {
			_, fail, _ := condEdges(fn, func(cond ast.Expr) (bool, bool) {
				be, ok := cond.(*ast.BinaryExpr)
				if !ok || be.Op != token.NEQ || !an.IsNilIdent(info, be.Y) {
					return false, false
				}
				id, ok := an.Unparen(be.X).(*ast.Ident)
				return ok && id.Name == "err", false
			})
			okErr := false
			for _, fe := range fail {
				if fn.Reachable(b, an.Point{B: fe.B, I: len(fe.B.Nodes) - 1}) || b.B == fe.B {
					if ok2, _ := failEdgeExits(fn, fe, nil); ok2 {
						okErr = true
					}
				}
			}
			r.Check(okErr, "C01.1", site.recv+"."+site.name+":build-error-aborts", c.PosP(b), "a failed build aborts the handshake", "the handshake proceeds after BuildHandshakeState failed")
		}
	}
	// buildHandshakeState: ApplyConfig and MarshalClientHello are called on every non-HelloGolang call
	if fn := c.Fn("C01.1", "UConn", "buildHandshakeState"); fn != nil {
		for _, callee := range []string{"ApplyConfig", "MarshalClientHello"} {
			calls := fn.Find(an.CallTo(info, Mod, "UConn", callee))
			// not guarded by clientHelloBuildStatus == NotBuilt
			guard, _, _ := condEdges(fn, func(cond ast.Expr) (bool, bool) {
				be, ok := cond.(*ast.BinaryExpr)
				if !ok || be.Op != token.EQL || !an.FieldSel(info, an.Unparen(be.X), "UConn", "clientHelloBuildStatus") {
					return false, false
				}
				id, ok := an.Unparen(be.Y).(*ast.Ident)
				return ok && id.Name == "NotBuilt", true
			})
			ok := len(calls) > 0
			for _, p := range calls {
				if len(guard) > 0 && fn.MustPass(p, nil, guard) {
					ok = false
				}
			}
			// every successful return on the non-Golang branch passed the call
			for _, ret := range fn.Returns() {
				rs := ret.Node().(*ast.ReturnStmt)
				if returnsError(fn, rs) {
					continue
				}
				golang, _, _ := condEdges(fn, func(cond ast.Expr) (bool, bool) {
					be, ok := cond.(*ast.BinaryExpr)
					if !ok || be.Op != token.EQL || !an.FieldSel(info, an.Unparen(be.X), "UConn", "ClientHelloID") {
						return false, false
					}
					return true, true
				})
				if !fn.MustPass(ret, calls, golang) {
					ok = false
				}
			}
			r.Check(ok, "C01.1", "buildHandshakeState:"+callee+"-every-call", c.Pos(fn.Decl), callee+" runs on every successful non-HelloGolang build, not only the first", callee+" is skipped on some successful build (for instance on the second call): edits made between BuildHandshakeState and Handshake do not reach the bytes")
		}
	}
	r.Floor("C01.1", 6)

	// ---- C01.2 (shared with C31.2) + field map
	saved := len(r.Obls)
	c31Original(c)
	for i := saved; i < len(r.Obls); i++ {
		r.Obls[i].Rule = "C01.2"
	}
	r.Floor("C31.2", 0)
	for _, m := range []struct{ recv, name, dst, src string }{
		{"PubClientHelloMsg", "getPrivatePtr", "original", "Raw"},
		{"clientHelloMsg", "getPublicPtr", "Raw", "original"},
	} {
		fd := load.FuncDecl(tls, m.recv, m.name)
		ok := false
		if fd != nil {
			if fm := extractFieldMap(tls, fd); fm != nil {
				ok = contains(fm.m[m.dst], m.src)
			}
		}
		r.Check(ok, "C01.2", m.recv+"."+m.name+":"+m.dst, c.Pos(fd), m.dst+" <- "+m.src, m.recv+"."+m.name+" does not carry "+m.src+" into "+m.dst+": the inspected bytes and the written bytes are no longer the same object")
	}
	r.Floor("C01.2", 7)

	// ---- C01.3 MarshalClientHelloNoECH reads the editable fields
	if fn := c.Fn("C01.3", "UConn", "MarshalClientHelloNoECH"); fn != nil {
		stores := fn.Find(an.AssignsTo(func(e ast.Expr) bool { return an.FieldSel(info, an.Unparen(e), "PubClientHelloMsg", "Raw") }))
		for _, f := range []string{"Vers", "Random", "SessionId", "CipherSuites", "CompressionMethods"} {
			// a binary.Write whose data argument mentions hello.<f> precedes every Raw store
			w := fn.Find(func(n ast.Node) bool {
				call, ok := n.(*ast.CallExpr)
				if !ok || len(call.Args) != 3 {
					return false
				}
				fo, _ := an.Callee(info, call).(*types.Func)
				if fo == nil || fo.Pkg() == nil || fo.Pkg().Path() != "encoding/binary" || fo.Name() != "Write" {
					return false
				}
				data := an.Unparen(call.Args[2])
				if cv, ok := data.(*ast.CallExpr); ok && len(cv.Args) == 1 {
					if tv, ok := info.Types[cv.Fun]; ok && tv.IsType() {
						data = an.Unparen(cv.Args[0])
					}
				}
				if an.FieldSel(info, data, "PubClientHelloMsg", f) {
					return true // the field itself is the data written
				}
				// loop variable ranging over hello.<f>
				if id, ok := an.Unparen(call.Args[2]).(*ast.Ident); ok {
					found := false
					ast.Inspect(fn.Body, func(m ast.Node) bool {
						rs, ok := m.(*ast.RangeStmt)
						if ok && an.MentionsField(info, rs.X, "PubClientHelloMsg", f) {
							if v, ok := rs.Value.(*ast.Ident); ok && info.Defs[v] == info.Uses[id] {
								found = true
							}
						}
						return true
					})
					return found
				}
				return false
			})
			ok := len(w) > 0 && len(stores) > 0
			for _, s := range stores {
				if !fn.MustPass(s, w, nil) {
					// loop bodies are not must-pass (empty list): accept if the loop header is passed
					loopOK := false
					ast.Inspect(fn.Body, func(m ast.Node) bool {
						rs, isR := m.(*ast.RangeStmt)
						if isR && an.MentionsField(info, rs.X, "PubClientHelloMsg", f) {
							hd := fn.Find(func(x ast.Node) bool { return x == rs.X })
							if len(hd) > 0 && fn.MustPass(s, hd, nil) {
								loopOK = true
							}
						}
						return true
					})
					if !loopOK {
						ok = false
					}
				}
			}
			r.Check(ok, "C01.3", "MarshalClientHelloNoECH:emits:Hello."+f, c.Pos(fn.Decl), "the field's current value is written into the bytes stored in Raw", "Hello."+f+" is not emitted from its current value on every path to the Raw store: an edit of it would not be visible in the bytes")
		}
		saved := len(r.Obls)
		c02Marshal(c)
		for i := saved; i < len(r.Obls); i++ {
			r.Obls[i].Rule = "C01.3"
		}
		r.Floor("C02.3", 0)
	}
	r.Floor("C01.3", 10)

	// ---- C01.4 clientHandshake
	if fn := c.Fn("C01.4", "UConn", "clientHandshake"); fn != nil {
		// hello := c.HandshakeState.Hello.getPrivatePtr()
		var helloObj types.Object
		ast.Inspect(fn.Body, func(n ast.Node) bool {
			as, ok := n.(*ast.AssignStmt)
			if !ok || len(as.Lhs) != 1 || len(as.Rhs) != 1 || helloObj != nil {
				return true
			}
			call, ok := an.Unparen(as.Rhs[0]).(*ast.CallExpr)
			if ok && an.IsCallTo(info, call, Mod, "PubClientHelloMsg", "getPrivatePtr") {
				if se, ok := call.Fun.(*ast.SelectorExpr); ok && an.FieldSel(info, an.Unparen(se.X), "PubClientHandshakeState", "Hello") {
					if id, ok := as.Lhs[0].(*ast.Ident); ok {
						helloObj = objOf(info, id)
					}
				}
			}
			return true
		})
		writes := fn.FindNodes(an.CallTo(info, Mod, "Conn", "writeHandshakeRecord"))
		okFirst := helloObj != nil && len(writes) > 0
		if okFirst {
			first := writes[0]
			for _, w := range writes {
				if w.N.Pos() < first.N.Pos() {
					first = w
				}
			}
			call := first.N.(*ast.CallExpr)
			id, ok := an.Unparen(call.Args[0]).(*ast.Ident)
			okFirst = ok && info.Uses[id] == helloObj
			// the variable is not reassigned before the write
			ast.Inspect(fn.Body, func(n ast.Node) bool {
				as, ok := n.(*ast.AssignStmt)
				if !ok || as.Tok != token.ASSIGN {
					return true
				}
				for _, l := range as.Lhs {
					if lid, ok := l.(*ast.Ident); ok && info.Uses[lid] == helloObj {
						okFirst = false
					}
				}
				return true
			})
		}
		r.Check(okFirst, "C01.4", "clientHandshake:first-record-is-state-hello", c.Pos(fn.Decl), "the first record written is HandshakeState.Hello's private view", "the first handshake record is not the message obtained from HandshakeState.Hello (or the variable is reassigned)")
		// no store to .original in clientHandshake
		bad := fn.Find(an.AssignsTo(func(e ast.Expr) bool { return an.FieldSel(info, an.Unparen(e), "clientHelloMsg", "original") }))
		r.Check(len(bad) == 0, "C01.4", "clientHandshake:original-untouched", c.Pos(fn.Decl), "the stored bytes are not replaced between build and write", "clientHandshake assigns clientHelloMsg.original: the bytes written can differ from Hello.Raw as built")
		// deferred copy-back
		okDefer := false
		ast.Inspect(fn.Body, func(n ast.Node) bool {
			ds, ok := n.(*ast.DeferStmt)
			if !ok {
				return true
			}
			ast.Inspect(ds.Call, func(m ast.Node) bool {
				as, ok := m.(*ast.AssignStmt)
				if ok && len(as.Lhs) == 1 && an.FieldSel(info, an.Unparen(as.Lhs[0]), "PubClientHandshakeState", "Hello") {
					if call, ok := an.Unparen(as.Rhs[0]).(*ast.CallExpr); ok && an.IsCallTo(info, call, Mod, "clientHelloMsg", "getPublicPtr") {
						if se, ok := call.Fun.(*ast.SelectorExpr); ok {
							if id, ok := an.Unparen(se.X).(*ast.Ident); ok && info.Uses[id] == helloObj {
								okDefer = true
							}
						}
					}
				}
				return true
			})
			return true
		})
		r.Check(okDefer, "C01.4", "clientHandshake:copy-back", c.Pos(fn.Decl), "HandshakeState.Hello is refreshed from the handshake's hello on every exit (deferred)", "the hello used by the handshake is not copied back to HandshakeState.Hello on every exit: after a HelloRetryRequest Raw would still show the first hello")
		// hs.hello = hello for both versions
		n := 0
		ast.Inspect(fn.Body, func(x ast.Node) bool {
			as, ok := x.(*ast.AssignStmt)
			if !ok || len(as.Lhs) != 1 || len(as.Rhs) != 1 {
				return true
			}
			if an.FieldSel(info, an.Unparen(as.Lhs[0]), "clientHandshakeStateTLS13", "hello") || an.FieldSel(info, an.Unparen(as.Lhs[0]), "clientHandshakeState", "hello") {
				if id, ok := an.Unparen(as.Rhs[0]).(*ast.Ident); ok && info.Uses[id] == helloObj {
					n++
				}
			}
			return true
		})
		r.Check(n == 2, "C01.4", "clientHandshake:state-hello-is-written-hello", c.Pos(fn.Decl), "both version-specific states continue with the hello that was written", "a version-specific handshake state does not receive the hello that was written (transcript and HRR would use another object)")
	}
	r.Floor("C01.4", 4)

	// ---- C01.5 HRR section ordering
	if fn := c.Fn("C01.5", "clientHandshakeStateTLS13", "processHelloRetryRequest"); fn != nil {
		marsh := fn.Find(an.CallTo(info, Mod, "UConn", "MarshalClientHelloNoECH"))
		refresh := fn.Find(func(n ast.Node) bool {
			as, ok := n.(*ast.AssignStmt)
			if !ok || len(as.Lhs) != 1 || len(as.Rhs) != 1 {
				return false
			}
			return an.FieldSel(info, an.Unparen(as.Lhs[0]), "clientHelloMsg", "original") && an.MentionsField(info, as.Rhs[0], "PubClientHelloMsg", "Raw")
		})
		writes := fn.Find(an.CallTo(info, Mod, "Conn", "writeHandshakeRecord"))
		ok := len(marsh) > 0 && len(refresh) > 0 && len(writes) > 0
		// re-marshalling also happens inside the outer-ECH recomputation
		marsh = append(marsh, fn.Find(an.CallTo(info, Mod, "UConn", "computeAndUpdateOuterECHExtension"))...)
		// on uTLS paths (those that re-marshalled) the write passes a refresh after the marshal
		for _, w := range writes {
			for _, m := range marsh {
				if fn.Reachable(m, w) && !fn.MustPassFrom(m, w, refresh, nil) {
					ok = false
				}
			}
		}
		r.Check(ok, "C01.5", "processHelloRetryRequest:remarshal-refresh-write", c.Pos(fn.Decl), "re-marshal → original = Hello.Raw → write, in this order on every uTLS path", "after a HelloRetryRequest the second ClientHello can be written without original having been refreshed from the re-marshalled Hello.Raw: the wire bytes and Hello.Raw diverge")
	}
	r.Floor("C01.5", 1)
}
