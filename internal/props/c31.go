package props

import (
	"fmt"
	"go/ast"
	"regexp"
	"sort"
	"strings"

	"verif/internal/an"
	"verif/internal/load"
)

func init() { register(&Prop{ID: "C31", Run: runC31}) }

var converterName = regexp.MustCompile(`^(get|to)(Public|Private)(Ptr|Obj|12|13)?$`)

// fields of the private structs that deliberately have no public counterpart (one reason each)
var c31PrivateOnly = map[string]string{
	"clientHelloMsg.extensions":                  "only populated on the server side of a handshake",
	"clientHandshakeStateTLS13.ctx":              "context is supplied by clientHandshake, not part of the public state",
	"clientHandshakeStateTLS13.echContext":       "ECH context is handed over separately by clientHandshake",
	"clientHandshakeStateTLS13.earlySecret":      "exported one-way as EarlySecret bytes (tls13.EarlySecret is opaque)",
	"clientHandshakeStateTLS13.masterSecret":     "exported one-way as MasterSecret bytes (tls13.MasterSecret is opaque)",
	"clientHandshakeState.ctx":                   "context is supplied by clientHandshake",
	"clientHandshakeState.ticket":                "set during the handshake, never exported",
	"certificateRequestMsgTLS13.raw":             "upstream removed raw",
}

func runC31(c *Ctx) {
	r := c.R
	tls := c.P.TLS
	r.Technique = "struct-to-struct field-map extraction from converter bodies (typed AST) and pairwise inverse/completeness checking; field read/write symmetry of clientHelloMsg marshal/unmarshal"
	r.Explanation = "C31.1: for every pair of public<->private converters (discovered by method name and struct pair on each run) the field maps extracted from the returned composite literals are mutually inverse, map every non-deprecated field of the public struct in both directions, and feed no source field into two different destinations. " +
		"C31.2: clientHelloMsg.marshal returns the stored original bytes before any re-marshalling, unmarshal stores its input as original, and the public view maps Raw<->original. " +
		"C31.3: every clientHelloMsg field written by unmarshal is read by the marshaller and vice versa (minus the documented server-only fields)."
	r.NotDecided = "byte equality of parse/marshal/parse on concrete inputs"

	type conv struct {
		fm   *fieldMap
		name string
	}
	var convs []conv
	for _, fd := range load.AllFuncDecls(tls) {
		if fd.Recv == nil {
			continue
		}
		if !converterName.MatchString(fd.Name.Name) && fd.Name.Name != "ToPublic" && fd.Name.Name != "ToPrivate" {
			continue
		}
		fm := extractFieldMap(tls, fd)
		if fm == nil {
			r.Ok("C31.1-delegating", load.RecvName(fd)+"."+fd.Name.Name, c.P.Pos(fd.Pos()), "converter delegates element-wise (no literal of its own)")
			continue
		}
		convs = append(convs, conv{fm, load.RecvName(fd) + "." + fd.Name.Name})
	}
	r.Count("converters_with_field_map", len(convs))
	used := map[int]bool{}
	pairs := 0
	for i, a := range convs {
		if used[i] {
			continue
		}
		for j := i + 1; j < len(convs); j++ {
			b := convs[j]
			if used[j] || a.fm.srcType != b.fm.dstType || a.fm.dstType != b.fm.srcType {
				continue
			}
			// 12/13 variants must agree on the suffix
			sa, sb := suffix1213(a.fm.fn.Name.Name), suffix1213(b.fm.fn.Name.Name)
			if sa != sb {
				continue
			}
			used[i], used[j] = true, true
			pairs++
			c31Pair(c, a.name, a.fm, b.name, b.fm)
			break
		}
	}
	for i, a := range convs {
		if !used[i] {
			r.Unknown("C31.1", a.name, c.P.Pos(a.fm.fn.Pos()), "converter %s (%s -> %s) has no inverse converter", a.name, a.fm.srcType, a.fm.dstType)
		}
	}
	r.Count("converter_pairs", pairs)
	if pairs < 12 {
		r.Unknown("C31.1", "pairs", "", "only %d converter pairs found; 12 confirmed by hand", pairs)
	}
	r.Floor("C31.1", 150)
	c31Original(c)
	c31Symmetry(c)
}

func suffix1213(n string) string {
	if strings.HasSuffix(n, "12") {
		return "12"
	}
	if strings.HasSuffix(n, "13") {
		return "13"
	}
	return ""
}

func isPublicName(s string) bool { return s != "" && s[0] >= 'A' && s[0] <= 'Z' }

func c31Pair(c *Ctx, an1 string, f *fieldMap, an2 string, g *fieldMap) {
	r := c.R
	tls := c.P.TLS
	// orient: pub = converter producing the public struct
	toPub, toPriv := f, g
	nPub, nPriv := an1, an2
	if !isPublicName(f.dstType) || (isPublicName(f.srcType) && strings.Contains(strings.ToLower(f.fn.Name.Name), "private")) {
		toPub, toPriv = g, f
		nPub, nPriv = an2, an1
	}
	pubStruct, privStruct := toPub.dstType, toPub.srcType
	pair := pubStruct + "<->" + privStruct + suffix1213(toPub.fn.Name.Name)
	_, dep := structFields(tls, pubStruct)
	depPath := func(p string) bool {
		// a path is deprecated if its last component is a deprecated field of its struct
		parts := strings.Split(p, ".")
		last := parts[len(parts)-1]
		if dep[last] {
			return true
		}
		// nested state structs
		for _, sn := range []string{"TLS13OnlyState", "TLS12OnlyState", "FinishedHash"} {
			_, d2 := structFields(tls, sn)
			if d2[last] && strings.Contains(p, ".") || (sn == pubStruct && d2[last]) {
				return true
			}
		}
		return false
	}
	// 1. inverse: toPub: P <- [s...]; toPriv must have s <- [... P ...]
	var pubFields []string
	for p := range toPub.m {
		pubFields = append(pubFields, p)
	}
	sort.Strings(pubFields)
	for _, p := range pubFields {
		cons := pair + ":" + p
		pos := c.P.Pos(toPub.dstPos[p])
		if depPath(p) {
			r.Ok("C31.1", cons, pos, "deprecated public field (derived destination, exempt)")
			continue
		}
		for _, s := range toPub.m[p] {
			back := toPriv.m[s]
			oneWay := c31PrivateOnly[privStruct+"."+s] != ""
			switch {
			case contains(back, p):
				r.Ok("C31.1", cons, pos, "%s: %s <- %s ; %s: %s <- %s", nPub, p, s, nPriv, s, p)
			case oneWay:
				r.Ok("C31.1", cons, pos, "%s <- %s is one-way by design (%s)", p, s, c31PrivateOnly[privStruct+"."+s])
			case len(back) == 0:
				r.Bad("C31.1", cons, pos, "%s sets %s from %s.%s, but %s never sets %s: the value is lost on the way back", nPub, p, privStruct, s, nPriv, s)
			default:
				r.Bad("C31.1", cons, pos, "%s sets %s from %s, but %s sets %s from %v: the converters are not inverse (cross-wired fields)", nPub, p, s, nPriv, s, back)
			}
		}
	}
	// 2. toPriv entries whose source public field is not produced by toPub from the same private field
	var privFields []string
	for s := range toPriv.m {
		privFields = append(privFields, s)
	}
	sort.Strings(privFields)
	for _, s := range privFields {
		cons := pair + ":" + s
		pos := c.P.Pos(toPriv.dstPos[s])
		okAny := false
		allDep := true
		for _, p := range toPriv.m[s] {
			if depPath(p) {
				continue
			}
			allDep = false
			if contains(toPub.m[p], s) {
				okAny = true
			} else if len(toPub.m[p]) == 0 {
				if _, unexp := toPub.dstPos[p]; !unexp && !isPublicName(lastComp(p)) {
					okAny = true // unexported carrier field (uconn, encryptedClientHello via literal) handled below
				}
			}
		}
		if allDep {
			continue
		}
		if okAny {
			r.Ok("C31.1", cons, pos, "%s: %s <- %v", nPriv, s, toPriv.m[s])
		} else {
			r.Bad("C31.1", cons, pos, "%s sets %s from %v, but %s does not produce that public field from %s", nPriv, s, toPriv.m[s], nPub, s)
		}
	}
	// 3. completeness: every exported, non-deprecated field of the public struct is mapped both ways
	pubAll, _ := structFields(tls, pubStruct)
	for _, fld := range pubAll {
		if !isPublicName(fld) || dep[fld] {
			continue
		}
		if (fld == "State12" && suffix1213(toPub.fn.Name.Name) == "13") || (fld == "State13" && suffix1213(toPub.fn.Name.Name) == "12") {
			continue
		}
		cons := pair + ":complete:" + fld
		produced := false
		for p := range toPub.m {
			if p == fld || strings.HasPrefix(p, fld+".") {
				produced = true
			}
		}
		for _, p := range toPub.opaque {
			if p == fld {
				produced = true
			}
		}
		consumed := false
		for _, srcs := range toPriv.m {
			for _, p := range srcs {
				if p == fld || strings.HasPrefix(p, fld+".") {
					consumed = true
				}
			}
		}
		if depOnlyWay(pubStruct, fld) {
			consumed = true
		}
		r.Check(produced && consumed, "C31.1", cons, c.P.Pos(toPub.fn.Pos()),
			"public field is produced by "+nPub+" and consumed by "+nPriv,
			fmt.Sprintf("public field %s.%s produced=%v consumed=%v: a counterpart exists but the conversion drops it", pubStruct, fld, produced, consumed))
	}
	// 4. no source feeding two destinations (cross-wiring) in either direction
	for _, fm := range []*fieldMap{toPub, toPriv} {
		seen := map[string]string{}
		var ds []string
		for d := range fm.m {
			ds = append(ds, d)
		}
		sort.Strings(ds)
		for _, d := range ds {
			if depPath(d) {
				continue
			}
			for _, s := range fm.m[d] {
				if depPath(s) {
					continue
				}
				if prev, dup := seen[s]; dup && prev != d {
					r.Bad("C31.1", pair+":fanout:"+s, c.P.Pos(fm.dstPos[d]), "%s.%s feeds both %s and %s in %s", fm.srcType, s, prev, d, fm.fn.Name.Name)
				}
				seen[s] = d
			}
		}
	}
}

// public fields that are legitimately output-only (one reason each)
func depOnlyWay(st, f string) bool {
	switch st + "." + f {
	case "TLS13OnlyState.EarlySecret", "PubClientHandshakeState.MasterSecret":
		// TLS 1.3 secrets are exported for inspection; the internal typed secret cannot be rebuilt from bytes
		return true
	}
	return false
}

func lastComp(p string) string {
	if i := strings.LastIndexByte(p, '.'); i >= 0 {
		return p[i+1:]
	}
	return p
}

// c31Original: marshal() returns original first; unmarshal stores its argument as original.
func c31Original(c *Ctx) {
	r := c.R
	tls := c.P.TLS
	info := tls.TypesInfo
	md := load.FuncDecl(tls, "clientHelloMsg", "marshal")
	if md == nil {
		r.Unknown("C31.2", "clientHelloMsg.marshal", "", "not found")
		return
	}
	fn := an.NewFn(tls, md)
	// every call that (re)marshals must be behind the false edge of `m.original != nil`
	var passEdges []an.Edge
	for _, b := range fn.G.Blocks {
		t, f, ok := an.CondEdges(b)
		if !ok || !b.Live {
			continue
		}
		cond := b.Nodes[len(b.Nodes)-1]
		if op, ok := an.BinaryWith(cond, func(e ast.Expr) bool { return an.FieldSel(info, an.Unparen(e), "clientHelloMsg", "original") }, func(e ast.Expr) bool { return an.IsNilIdent(info, e) }); ok {
			switch op.String() {
			case "!=":
				passEdges = append(passEdges, f)
				// the true edge must return original
				tb := b.Succs[t.K]
				okRet := false
				if len(tb.Nodes) > 0 {
					if rs, ok := tb.Nodes[0].(*ast.ReturnStmt); ok && len(rs.Results) >= 1 && an.FieldSel(info, an.Unparen(rs.Results[0]), "clientHelloMsg", "original") {
						okRet = true
					}
				}
				r.Check(okRet, "C31.2", "clientHelloMsg.marshal:return-original", c.P.Pos(cond.Pos()), "stored bytes are returned unchanged when present", "the original != nil branch does not return m.original")
			case "==":
				passEdges = append(passEdges, t)
			}
		}
	}
	calls := fn.Find(func(n ast.Node) bool {
		return an.IsCallTo(info, n, load.ModPath, "clientHelloMsg", "marshalMsg") || an.IsCallTo(info, n, load.ModPath, "clientHelloMsg", "marshalMsgReorderOuterExts")
	})
	if len(passEdges) == 0 {
		r.Bad("C31.2", "clientHelloMsg.marshal:original-first", c.P.Pos(md.Pos()), "marshal() no longer tests m.original before re-marshalling: UnmarshalClientHello+Marshal will not reproduce the input bytes")
	} else {
		ok := len(calls) > 0
		for _, p := range calls {
			if !fn.MustPass(p, nil, passEdges) {
				ok = false
			}
		}
		r.Check(ok, "C31.2", "clientHelloMsg.marshal:original-first", c.P.Pos(md.Pos()), "re-marshalling only happens when original == nil", "a re-marshalling call is reachable while original != nil")
	}
	ud := load.FuncDecl(tls, "clientHelloMsg", "unmarshal")
	if ud == nil {
		r.Unknown("C31.2", "clientHelloMsg.unmarshal", "", "not found")
		return
	}
	// *m = clientHelloMsg{original: data} where data is the parameter
	param := info.Defs[ud.Type.Params.List[0].Names[0]]
	found := false
	ast.Inspect(ud.Body, func(n ast.Node) bool {
		kv, ok := n.(*ast.KeyValueExpr)
		if !ok {
			return true
		}
		if k, ok := kv.Key.(*ast.Ident); ok && k.Name == "original" {
			if id, ok := an.Unparen(kv.Value).(*ast.Ident); ok && info.Uses[id] == param {
				found = true
			}
		}
		return true
	})
	if !found {
		ast.Inspect(ud.Body, func(n ast.Node) bool {
			as, ok := n.(*ast.AssignStmt)
			if !ok || len(as.Lhs) != 1 || len(as.Rhs) != 1 {
				return true
			}
			if an.FieldSel(info, an.Unparen(as.Lhs[0]), "clientHelloMsg", "original") {
				if id, ok := an.Unparen(as.Rhs[0]).(*ast.Ident); ok && info.Uses[id] == param {
					found = true
				}
			}
			return true
		})
	}
	r.Check(found, "C31.2", "clientHelloMsg.unmarshal:stores-original", c.P.Pos(ud.Pos()), "unmarshal keeps its input as original", "unmarshal does not store its input bytes as original")
	// UnmarshalClientHello -> unmarshal + getPublicPtr ; Marshal -> getPrivatePtr().marshal()
	uch := load.FuncDecl(tls, "", "UnmarshalClientHello")
	mm := load.FuncDecl(tls, "PubClientHelloMsg", "Marshal")
	if uch == nil || mm == nil {
		r.Unknown("C31.2", "UnmarshalClientHello/Marshal", "", "not found")
		return
	}
	has := func(fd *ast.FuncDecl, recv, name string) bool {
		return an.Contains(fd.Body, an.CallTo(info, load.ModPath, recv, name))
	}
	r.Check(has(uch, "clientHelloMsg", "unmarshal") && has(uch, "clientHelloMsg", "getPublicPtr"), "C31.2", "UnmarshalClientHello", c.P.Pos(uch.Pos()), "parses with clientHelloMsg.unmarshal and converts with getPublicPtr", "UnmarshalClientHello no longer goes through unmarshal+getPublicPtr")
	r.Check(has(mm, "PubClientHelloMsg", "getPrivatePtr") && has(mm, "clientHelloMsg", "marshal"), "C31.2", "PubClientHelloMsg.Marshal", c.P.Pos(mm.Pos()), "converts with getPrivatePtr and calls marshal", "Marshal no longer goes through getPrivatePtr+marshal")
	r.Floor("C31.2", 5)
}

// c31Symmetry: fields written by unmarshal vs. fields read by the marshaller.
func c31Symmetry(c *Ctx) {
	r := c.R
	tls := c.P.TLS
	ud := load.FuncDecl(tls, "clientHelloMsg", "unmarshal")
	md := load.FuncDecl(tls, "clientHelloMsg", "marshalMsgReorderOuterExts")
	if md == nil {
		md = load.FuncDecl(tls, "clientHelloMsg", "marshalMsg")
	}
	if ud == nil || md == nil {
		r.Unknown("C31.3", "clientHelloMsg", "", "marshal/unmarshal not found")
		return
	}
	_, uw := fieldsTouched(tls, ud)
	mr, _ := fieldsTouched(tls, md)
	exempt := map[string]string{
		"original":   "cache of the wire bytes, cleared by the caller in this clause",
		"extensions": "server-side list of seen extension ids, not marshalled",
	}
	fields, _ := structFields(tls, "clientHelloMsg")
	for _, f := range fields {
		if exempt[f] != "" {
			continue
		}
		_, w := uw[f]
		_, rd := mr[f]
		cons := "clientHelloMsg." + f
		switch {
		case w && rd:
			r.Ok("C31.3", cons, c.P.Pos(uw[f]), "parsed by unmarshal and emitted by marshalMsg")
		case !w && !rd:
			r.Ok("C31.3", cons, "", "neither parsed nor emitted (uTLS-only flag)")
		case w && !rd:
			r.Bad("C31.3", cons, c.P.Pos(uw[f]), "unmarshal fills %s but marshalMsg never reads it: parse/marshal/parse loses the field", f)
		default:
			r.Bad("C31.3", cons, c.P.Pos(mr[f]), "marshalMsg emits %s but unmarshal never fills it: parse/marshal/parse loses the field", f)
		}
	}
	r.Floor("C31.3", 25)
}
