package props

import (
	"fmt"
	"go/ast"
	"go/token"
	"go/types"

	"golang.org/x/tools/go/cfg"

	"verif/internal/an"
)

// C25 — application data arrives intact and tampering is detected.
//
// The property as a whole quantifies over byte streams and ciphertext mutations; what is
// decided here is the part of it that is visible in the shape of the record path: structural
// necessary conditions, each of which, when broken, breaks the behaviour for some input.
func init() { register(&Prop{ID: "C25", NeedDeps: true, Run: runC25}) }

func runC25(c *Ctx) {
	r := c.R
	r.Technique = "CFG rules on the record path (guard of the post-handshake record read, window tiling of Write over go/cfg paths, result provenance of Read, key-update ordering, failure discipline of halfConn.decrypt) plus the suite-table agreement engine shared with C27"
	r.Explanation = "C25.1 in (*Conn).Read and (*UConn).Read every call of readRecord is made only on an outcome that implies c.input.Len() == 0 with nothing executed in between (readRecord refuses to run with unread application data: the rest of the stream would be lost). " +
		"C25.2 (*Conn).Write and (*UConn).Write hand the caller's buffer to writeRecordLocked as consecutive windows that start at 0 and end at len(b) on every path to the final return, and the count returned is the last write's count plus the bytes split off before it. " +
		"C25.3 Read returns the count delivered by c.input.Read(b) for the caller's buffer on every return after it, and 0 before it. " +
		"C25.4 every suite table entry (cipherSuites, init-time additions, EnableWeakCiphers) agrees with the RFC reference for key/MAC/IV lengths, flags and primitives (same engine as C27.3): a wrong length still round-trips between two copies of the library but not with a compliant peer. " +
		"C25.5 handleKeyUpdate derives each half's next secret from that half's current secret, installs the read secret on every continuing path, and installs the write secret only after the KeyUpdate record has been written. " +
		"C25.6 halfConn.decrypt: the AEAD Open error is tested and its failure returns an alert; with a MAC, the successful return is reachable only through the pass outcome of a test of the constant-time comparison of the computed and the received MAC; the sequence number advances on every successful return."
	r.NotDecided = "equality of the byte streams for all write/read size sequences; correctness of the ciphers, MACs and key schedule (crypto packages); that every single-byte ciphertext mutation changes the tag; record fragmentation inside writeRecordLocked (upstream, unchanged)"
	c25ReadRecordGuard(c)
	c25WriteTiling(c)
	c25ReadCount(c)
	r.Borrow(map[string]string{"C27.3-entry": "C25.4-entry", "C27.3-ctor": "C25.4-ctor", "C27.3-assign": "C25.4-assign", "C27.3-dup": "C25.4-dup", "C27.3-lookup": "C25.4-lookup"}, func() { c27Tables(c) })
	c25KeyUpdate(c)
	c25Decrypt(c)
}

// inputLenAtom: is e an atom about `<x>.input.Len()` vs 0? Returns (matched, the truth value
// of e that means "input is empty").
func c25InputLenAtom(info *types.Info, e ast.Expr) (bool, bool) {
	be, ok := an.Unparen(e).(*ast.BinaryExpr)
	if !ok {
		return false, false
	}
	isLen := func(x ast.Expr) bool {
		call, ok := an.Unparen(x).(*ast.CallExpr)
		if !ok || len(call.Args) != 0 {
			return false
		}
		se, ok := call.Fun.(*ast.SelectorExpr)
		return ok && se.Sel.Name == "Len" && an.FieldSel(info, an.Unparen(se.X), "Conn", "input")
	}
	isZero := func(x ast.Expr) bool { v, ok := an.ConstInt(info, x); return ok && v == 0 }
	x, y, op := be.X, be.Y, be.Op
	if isZero(x) && isLen(y) {
		x, y = y, x
		switch op {
		case token.LSS:
			op = token.GTR
		case token.GTR:
			op = token.LSS
		}
	}
	if !isLen(x) || !isZero(y) {
		return false, false
	}
	switch op {
	case token.EQL, token.LEQ:
		return true, true
	case token.NEQ, token.GTR:
		return true, false
	}
	return false, false
}

func c25ReadRecordGuard(c *Ctx) {
	r := c.R
	info := c.Info()
	for _, recv := range []string{"Conn", "UConn"} {
		fn := c.Fn("C25.1", recv, "Read")
		if fn == nil {
			continue
		}
		calls := fn.FindNodes(func(n ast.Node) bool {
			call, ok := n.(*ast.CallExpr)
			return ok && (an.IsCallTo(info, call, Mod, "Conn", "readRecord") || an.IsCallTo(info, call, Mod, "Conn", "readRecordOrCCS"))
		})
		seen := map[an.Point]bool{}
		ord := 0
		for _, h := range calls {
			if seen[h.P] {
				continue
			}
			seen[h.P] = true
			ord++
			cons := fmt.Sprintf("%s.Read:readRecord#%d", recv, ord)
			ok, why := false, "no branch outcome that implies c.input.Len() == 0 controls this call"
			for _, cc := range controllingConds(fn, h.P) {
				implied := false
				for _, a := range condAtoms(cc.cond) {
					if m, emptyWhen := c25InputLenAtom(info, a); m && impliesAtom(cc.cond, cc.outcome, a, emptyWhen) {
						implied = true
					}
				}
				if !implied {
					continue
				}
				// nothing that could refill c.input runs between the test and the call
				t, f, _ := an.CondEdges(cc.at.B)
				e := t
				if !cc.outcome {
					e = f
				}
				start := edgeStart(e)
				between := map[an.Point]bool{}
				if start != h.P {
					between[start] = true
					for q := range fn.Reach(start, map[an.Point]bool{h.P: true}, nil) {
						between[q] = true
					}
				}
				clean := true
				for q := range between {
					if q == h.P || q.Node() == nil {
						continue
					}
					if !fn.Reach(q, nil, nil)[h.P] {
						continue
					}
					if an.Contains(q.Node(), func(y ast.Node) bool { _, isCall := y.(*ast.CallExpr); return isCall }) {
						clean = false
						why = "a call runs between the test of c.input.Len() and readRecord (" + an.Str(q.Node()) + ")"
					}
				}
				if clean {
					ok = true
				}
			}
			r.Check(ok, "C25.1", cons, c.Pos(h.N), "called only with c.input empty",
				"readRecord is called where unread application data may remain in c.input ("+why+"): readRecord fails with an internal error and the rest of the stream is lost (e.g. data followed by close_notify in one segment, read with a small buffer)")
		}
	}
	r.Floor("C25.1", 4)
}

// c25WriteTiling decides C25.2 by enumerating the acyclic paths of Write after the handshake call.
func c25WriteTiling(c *Ctx) {
	r := c.R
	info := c.Info()
	for _, recv := range []string{"Conn", "UConn"} {
		fn := c.Fn("C25.2", recv, "Write")
		if fn == nil {
			continue
		}
		cons := recv + ".Write"
		var bObj types.Object
		if pl := fn.Decl.Type.Params.List; len(pl) == 1 && len(pl[0].Names) == 1 {
			bObj = info.Defs[pl[0].Names[0]]
		}
		if bObj == nil {
			r.Unknown("C25.2", cons+":tiling", c.Pos(fn.Decl), "unexpected signature")
			continue
		}
		isB := func(e ast.Expr) bool {
			id, ok := an.Unparen(e).(*ast.Ident)
			return ok && objOf(info, id) == bObj
		}
		type win struct {
			lo, hi int64 // hi == -1: len(b)
			pos    ast.Node
		}
		type state struct {
			lo    int64
			wins  []win
			m     map[types.Object]int64 // integer locals assigned constants
			lastN types.Object           // count variable of the last write
		}
		var problems []string
		finalChecked := 0
		var lastRet *ast.ReturnStmt
		for _, p := range fn.Returns() {
			if rs, ok := p.Node().(*ast.ReturnStmt); ok && (lastRet == nil || rs.Pos() > lastRet.Pos()) {
				lastRet = rs
			}
		}
		// window of an argument expression
		window := func(st *state, e ast.Expr) (win, bool) {
			e = an.Unparen(e)
			if isB(e) {
				return win{lo: st.lo, hi: -1}, true
			}
			if se, ok := e.(*ast.SliceExpr); ok && isB(se.X) && se.Max == nil {
				w := win{lo: st.lo, hi: -1}
				if se.Low != nil {
					k, ok := an.ConstInt(info, se.Low)
					if !ok {
						return w, false
					}
					w.lo += k
				}
				if se.High != nil {
					k, ok := an.ConstInt(info, se.High)
					if !ok {
						return w, false
					}
					w.hi = st.lo + k
				}
				return w, true
			}
			return win{}, false
		}
		paths := 0
		var walk func(b *cfg.Block, st state, onPath map[*cfg.Block]bool)
		walk = func(b *cfg.Block, st state, onPath map[*cfg.Block]bool) {
			if onPath[b] || paths > 4000 {
				return
			}
			onPath[b] = true
			defer delete(onPath, b)
			for _, n := range b.Nodes {
				// writes
				an.Inner(n, func(x ast.Node) bool {
					call, ok := x.(*ast.CallExpr)
					if !ok || !an.IsCallTo(info, call, Mod, "Conn", "writeRecordLocked") || len(call.Args) != 2 {
						return true
					}
					if id, ok := an.Unparen(call.Args[0]).(*ast.Ident); !ok || id.Name != "recordTypeApplicationData" {
						return true
					}
					w, ok := window(&st, call.Args[1])
					if !ok {
						problems = append(problems, "application data written from "+an.Str(call.Args[1])+", not a constant window of the caller's buffer")
						return true
					}
					w.pos = call
					st.wins = append(append([]win{}, st.wins...), w)
					return true
				})
				if as, ok := n.(*ast.AssignStmt); ok {
					for i, l := range as.Lhs {
						id, ok := an.Unparen(l).(*ast.Ident)
						if !ok {
							continue
						}
						o := objOf(info, id)
						if len(as.Rhs) == len(as.Lhs) {
							rhs := as.Rhs[i]
							if o == bObj {
								w, ok := window(&st, rhs)
								if !ok || w.hi != -1 {
									problems = append(problems, "the buffer variable is reassigned to "+an.Str(rhs))
								} else {
									st.lo = w.lo
								}
								continue
							}
							if v, ok := an.ConstInt(info, rhs); ok && o != nil {
								nm := map[types.Object]int64{}
								for k, x := range st.m {
									nm[k] = x
								}
								nm[o] = v
								st.m = nm
							}
						}
						if len(as.Rhs) == 1 && len(as.Lhs) == 2 && i == 0 {
							if call, ok := an.Unparen(as.Rhs[0]).(*ast.CallExpr); ok && an.IsCallTo(info, call, Mod, "Conn", "writeRecordLocked") {
								st.lastN = o
							}
						}
					}
				}
				if rs, ok := n.(*ast.ReturnStmt); ok {
					paths++
					// windows written so far are consecutive from 0
					at := int64(0)
					open := false
					for _, w := range st.wins {
						if open || w.lo != at {
							problems = append(problems, fmt.Sprintf("a write of b[%d:%s] follows coverage up to %d: bytes are skipped or sent twice", w.lo, hiStr(w.hi), at))
						}
						if w.hi == -1 {
							open = true
						} else {
							at = w.hi
						}
					}
					if rs == lastRet {
						finalChecked++
						if !open {
							problems = append(problems, "the final return is reached without the tail of the buffer having been written")
						}
						// returned count = last n + bytes split off before
						okCount := false
						if len(rs.Results) >= 1 {
							split := int64(0)
							if len(st.wins) > 0 {
								split = st.wins[len(st.wins)-1].lo
							}
							var sum int64
							seenN := false
							good := true
							var terms func(e ast.Expr)
							terms = func(e ast.Expr) {
								e = an.Unparen(e)
								if be, ok := e.(*ast.BinaryExpr); ok && be.Op == token.ADD {
									terms(be.X)
									terms(be.Y)
									return
								}
								if id, ok := e.(*ast.Ident); ok {
									o := objOf(info, id)
									if o == st.lastN && st.lastN != nil {
										seenN = true
										return
									}
									if v, ok := st.m[o]; ok {
										sum += v
										return
									}
									if _, isVar := o.(*types.Var); isVar {
										return // never assigned on this path: zero value
									}
								}
								if v, ok := an.ConstInt(info, e); ok {
									sum += v
									return
								}
								good = false
							}
							terms(rs.Results[0])
							okCount = good && seenN && sum == split
							if !okCount {
								problems = append(problems, fmt.Sprintf("the final return reports %s, which is not the last write's count plus the %d byte(s) written before it", an.Str(rs.Results[0]), split))
							}
						}
					}
					return
				}
			}
			for _, s := range b.Succs {
				walk(s, st, onPath)
			}
		}
		walk(fn.Entry(), state{m: map[types.Object]int64{}}, map[*cfg.Block]bool{})
		r.Count("C25.2_paths_"+recv, paths)
		switch {
		case paths == 0 || finalChecked == 0 || paths > 4000:
			r.Unknown("C25.2", cons+":tiling", c.Pos(fn.Decl), "could not enumerate the paths of Write (paths=%d, reaching the final return=%d)", paths, finalChecked)
		case len(problems) > 0:
			r.Bad("C25.2", cons+":tiling", c.Pos(fn.Decl), "%s", dedupe(problems)[0])
		default:
			r.Ok("C25.2", cons+":tiling", c.Pos(fn.Decl), "%d paths: windows are consecutive from 0, the final return follows a write up to len(b) and reports n plus the split-off bytes", paths)
		}
	}
	r.Floor("C25.2", 2)
}

func hiStr(h int64) string {
	if h < 0 {
		return ""
	}
	return fmt.Sprint(h)
}

func dedupe(l []string) []string {
	seen := map[string]bool{}
	var out []string
	for _, s := range l {
		if !seen[s] {
			seen[s] = true
			out = append(out, s)
		}
	}
	return out
}

func c25ReadCount(c *Ctx) {
	r := c.R
	info := c.Info()
	for _, recv := range []string{"Conn", "UConn"} {
		fn := c.Fn("C25.3", recv, "Read")
		if fn == nil {
			continue
		}
		cons := recv + ".Read:count"
		var bObj types.Object
		if pl := fn.Decl.Type.Params.List; len(pl) == 1 && len(pl[0].Names) == 1 {
			bObj = info.Defs[pl[0].Names[0]]
		}
		var nObj types.Object
		var at an.Point
		for _, h := range fn.FindNodes(func(n ast.Node) bool {
			as, ok := n.(*ast.AssignStmt)
			if !ok || len(as.Rhs) != 1 || len(as.Lhs) != 2 {
				return false
			}
			call, ok := an.Unparen(as.Rhs[0]).(*ast.CallExpr)
			if !ok || len(call.Args) != 1 {
				return false
			}
			se, ok := call.Fun.(*ast.SelectorExpr)
			if !ok || se.Sel.Name != "Read" || !an.FieldSel(info, an.Unparen(se.X), "Conn", "input") {
				return false
			}
			id, ok := an.Unparen(call.Args[0]).(*ast.Ident)
			return ok && objOf(info, id) == bObj
		}) {
			as := h.N.(*ast.AssignStmt)
			if id, ok := as.Lhs[0].(*ast.Ident); ok {
				nObj = objOf(info, id)
				at = h.P
			}
		}
		if nObj == nil || bObj == nil {
			r.Bad("C25.3", cons, c.Pos(fn.Decl), "Read does not take its result from c.input.Read(b) with the caller's buffer")
			continue
		}
		after := fn.Reach(at, nil, nil)
		var bad []string
		// n is not reassigned afterwards
		for _, h := range fn.FindNodes(an.AssignsTo(func(e ast.Expr) bool {
			id, ok := an.Unparen(e).(*ast.Ident)
			return ok && objOf(info, id) == nObj
		})) {
			if after[h.P] && h.P != at {
				bad = append(bad, "the count is overwritten at "+c.Pos(h.N))
			}
		}
		for _, p := range fn.Returns() {
			rs, ok := p.Node().(*ast.ReturnStmt)
			if !ok || len(rs.Results) != 2 {
				continue
			}
			if after[p] {
				id, ok := an.Unparen(rs.Results[0]).(*ast.Ident)
				if !ok || objOf(info, id) != nObj {
					bad = append(bad, "return "+an.Str(rs.Results[0])+" after data was copied to the caller at "+c.Pos(rs))
				}
			} else if v, ok := an.ConstInt(info, rs.Results[0]); !ok || v != 0 {
				bad = append(bad, "return "+an.Str(rs.Results[0])+" before any data was copied at "+c.Pos(rs))
			}
		}
		r.Check(len(bad) == 0, "C25.3", cons, c.PosP(at), "every return after c.input.Read(b) reports its count, every earlier one 0",
			"the count Read reports is not the number of bytes copied into the caller's buffer: "+fmt.Sprint(bad))
	}
	r.Floor("C25.3", 2)
}

func c25KeyUpdate(c *Ctx) {
	r := c.R
	info := c.Info()
	fn := c.Fn("C25.5", "Conn", "handleKeyUpdate")
	if fn == nil {
		return
	}
	half := func(e ast.Expr) string {
		for _, h := range []string{"in", "out"} {
			if an.Contains(e, func(y ast.Node) bool {
				ex, ok := y.(ast.Expr)
				return ok && an.FieldSel(info, an.Unparen(ex), "Conn", h)
			}) {
				return h
			}
		}
		return ""
	}
	// secret variables: x := suite.nextTrafficSecret(c.<half>.trafficSecret)
	src := map[types.Object]string{}
	for _, h := range fn.FindNodes(func(n ast.Node) bool { _, ok := n.(*ast.AssignStmt); return ok }) {
		as := h.N.(*ast.AssignStmt)
		if len(as.Lhs) != 1 || len(as.Rhs) != 1 {
			continue
		}
		call, ok := an.Unparen(as.Rhs[0]).(*ast.CallExpr)
		if !ok || len(call.Args) != 1 {
			continue
		}
		if se, ok := call.Fun.(*ast.SelectorExpr); !ok || se.Sel.Name != "nextTrafficSecret" {
			continue
		}
		if id, ok := as.Lhs[0].(*ast.Ident); ok {
			if an.Contains(call.Args[0], func(y ast.Node) bool {
				se, ok := y.(*ast.SelectorExpr)
				return ok && se.Sel.Name == "trafficSecret"
			}) {
				src[objOf(info, id)] = half(call.Args[0])
			}
		}
	}
	sets := fn.FindNodes(func(n ast.Node) bool {
		call, ok := n.(*ast.CallExpr)
		return ok && an.IsCallTo(info, call, Mod, "halfConn", "setTrafficSecret")
	})
	seenHalf := map[string]an.Point{}
	for _, h := range sets {
		call := h.N.(*ast.CallExpr)
		se := call.Fun.(*ast.SelectorExpr)
		hf := half(se.X)
		cons := "handleKeyUpdate:" + hf + ".setTrafficSecret"
		if _, dup := seenHalf[hf]; dup {
			continue
		}
		seenHalf[hf] = h.P
		from := "?"
		if len(call.Args) == 3 {
			if id, ok := an.Unparen(call.Args[2]).(*ast.Ident); ok {
				if s, ok := src[objOf(info, id)]; ok {
					from = s
				}
			}
		}
		r.Check(from == hf, "C25.5", cons+":source", c.Pos(call), "next secret derived from the same half's current secret",
			"the "+hf+" half is re-keyed with a secret derived from the "+from+" half's traffic secret: after a KeyUpdate the peers use different keys and every later record fails to decrypt")
	}
	if p, ok := seenHalf["in"]; ok {
		// installed on every path that continues (returns nil) — error returns excepted
		okAll := true
		for _, rp := range fn.Returns() {
			rs, isRet := rp.Node().(*ast.ReturnStmt)
			if !isRet || len(rs.Results) != 1 || !an.IsNilIdent(info, rs.Results[0]) {
				continue
			}
			if !fn.MustPass(rp, []an.Point{p}, nil) {
				okAll = false
			}
		}
		r.Check(okAll, "C25.5", "handleKeyUpdate:in-installed", c.PosP(p), "every nil return follows the read-secret update", "a KeyUpdate can be accepted without the read key being advanced: the peer's next record fails to decrypt")
	} else {
		r.Bad("C25.5", "handleKeyUpdate:in-installed", c.Pos(fn.Decl), "handleKeyUpdate never advances the read traffic secret")
	}
	if p, ok := seenHalf["out"]; ok {
		writes := fn.Find(func(n ast.Node) bool {
			call, ok := n.(*ast.CallExpr)
			return ok && an.IsCallTo(info, call, Mod, "Conn", "writeRecordLocked")
		})
		r.Check(len(writes) > 0 && fn.MustPass(p, writes, nil), "C25.5", "handleKeyUpdate:out-after-record", c.PosP(p), "the write secret changes only after the KeyUpdate record went out under the old one",
			"the write traffic secret can be replaced before the KeyUpdate record is written: the peer receives the KeyUpdate under a key it does not have yet")
		// and not when the write failed
		r.Check(fn.MustPass(p, writes, nil), "C25.5", "handleKeyUpdate:out-requested-only", c.PosP(p), "write secret updated inside the update-requested branch", "write secret updated without a KeyUpdate having been sent")
	} else {
		r.Bad("C25.5", "handleKeyUpdate:out-after-record", c.Pos(fn.Decl), "handleKeyUpdate never advances the write traffic secret when the peer requests it")
	}
	r.Floor("C25.5", 5)
}

func c25Decrypt(c *Ctx) {
	r := c.R
	info := c.Info()
	fn := c.Fn("C25.6", "halfConn", "decrypt")
	if fn == nil {
		return
	}
	isSuccess := func(rs *ast.ReturnStmt) bool {
		return len(rs.Results) == 3 && an.IsNilIdent(info, rs.Results[2])
	}
	passThrough := func(rs *ast.ReturnStmt) bool {
		id, ok := an.Unparen(rs.Results[0]).(*ast.Ident)
		return ok && id.Name == "payload"
	}
	var succ, succAll []an.Point
	for _, p := range fn.Returns() {
		if rs, ok := p.Node().(*ast.ReturnStmt); ok && isSuccess(rs) {
			succAll = append(succAll, p)
			// the TLS 1.3 change_cipher_spec pass-through returns the payload undecrypted (RFC 8446 D.4)
			if !passThrough(rs) {
				succ = append(succ, p)
			}
		}
	}
	// (a) AEAD Open error tested
	opens := fn.FindNodes(func(n ast.Node) bool {
		as, ok := n.(*ast.AssignStmt)
		if !ok || len(as.Rhs) != 1 || len(as.Lhs) != 2 {
			return false
		}
		call, ok := an.Unparen(as.Rhs[0]).(*ast.CallExpr)
		if !ok {
			return false
		}
		se, ok := call.Fun.(*ast.SelectorExpr)
		return ok && se.Sel.Name == "Open"
	})
	for i, h := range opens {
		as := h.N.(*ast.AssignStmt)
		cons := fmt.Sprintf("decrypt:open-error#%d", i+1)
		eid, ok := as.Lhs[1].(*ast.Ident)
		if !ok || eid.Name == "_" {
			r.Bad("C25.6", cons, c.Pos(as), "the error of the AEAD Open is discarded: a record with a bad tag is accepted")
			continue
		}
		eo := objOf(info, eid)
		pass, _, _ := condEdges(fn, func(cond ast.Expr) (bool, bool) {
			op, ok := an.BinaryWith(cond, func(e ast.Expr) bool {
				id, ok := an.Unparen(e).(*ast.Ident)
				return ok && objOf(info, id) == eo
			}, func(e ast.Expr) bool { return an.IsNilIdent(info, e) })
			if !ok {
				return false, false
			}
			return true, op == token.EQL
		})
		okAll := len(pass) > 0
		for _, sp := range succ {
			if !fn.Reach(h.P, nil, nil)[sp] {
				continue
			}
			if !fn.MustPassFrom(h.P, sp, nil, pass) {
				okAll = false
			}
		}
		r.Check(okAll, "C25.6", cons, c.Pos(as), "a successful return after Open requires err == nil", "a successful return is reachable after the AEAD Open without its error having been found nil: a tampered record can be delivered as plaintext")
	}
	if len(opens) == 0 {
		r.Unknown("C25.6", "decrypt:open-error", c.Pos(fn.Decl), "no AEAD Open call found in halfConn.decrypt")
	}
	// (b) MAC comparison gates success when a MAC is configured
	macNonNil, _, _ := condEdges(fn, func(cond ast.Expr) (bool, bool) {
		op, ok := an.BinaryWith(cond, func(e ast.Expr) bool { return an.FieldSel(info, an.Unparen(e), "halfConn", "mac") },
			func(e ast.Expr) bool { return an.IsNilIdent(info, e) })
		if !ok {
			return false, false
		}
		return true, op == token.NEQ
	})
	var cmpObj types.Object
	var cmpAt an.Point
	for _, h := range fn.FindNodes(func(n ast.Node) bool {
		as, ok := n.(*ast.AssignStmt)
		return ok && len(as.Lhs) == 1 && len(as.Rhs) == 1 && an.Contains(as.Rhs[0], func(y ast.Node) bool {
			call, ok := y.(*ast.CallExpr)
			if !ok {
				return false
			}
			f, _ := an.Callee(info, call).(*types.Func)
			return f != nil && f.Pkg() != nil && f.Pkg().Path() == "crypto/subtle" && f.Name() == "ConstantTimeCompare"
		})
	}) {
		if id, ok := h.N.(*ast.AssignStmt).Lhs[0].(*ast.Ident); ok {
			cmpObj = objOf(info, id)
			cmpAt = h.P
		}
	}
	if cmpObj == nil {
		r.Bad("C25.6", "decrypt:mac-compared", c.Pos(fn.Decl), "no constant-time comparison of the computed and received MAC found")
	} else {
		as := cmpAt.Node().(*ast.AssignStmt)
		// operands: one derived from tls10MAC, the other a slice of the payload
		var call *ast.CallExpr
		ast.Inspect(as.Rhs[0], func(y ast.Node) bool {
			if cl, ok := y.(*ast.CallExpr); ok && call == nil {
				if f, _ := an.Callee(info, cl).(*types.Func); f != nil && f.Name() == "ConstantTimeCompare" {
					call = cl
				}
			}
			return true
		})
		local := false
		if call != nil && len(call.Args) == 2 {
			for _, a := range call.Args {
				if id, ok := an.Unparen(a).(*ast.Ident); ok {
					o := objOf(info, id)
					for _, h := range fn.FindNodes(an.AssignsTo(func(e ast.Expr) bool {
						i2, ok := an.Unparen(e).(*ast.Ident)
						return ok && objOf(info, i2) == o
					})) {
						if an.Contains(h.N, an.CallTo(info, Mod, "", "tls10MAC")) {
							local = true
						}
					}
				}
			}
			if an.Str(call.Args[0]) == an.Str(call.Args[1]) {
				local = false
			}
		}
		r.Check(local, "C25.6", "decrypt:mac-operands", c.Pos(as), "the comparison is between the MAC computed by tls10MAC and another value", "the constant-time comparison does not involve the locally computed MAC (or compares a value with itself)")
		pass, _, _ := condEdges(fn, func(cond ast.Expr) (bool, bool) {
			be, ok := an.Unparen(cond).(*ast.BinaryExpr)
			if !ok {
				return false, false
			}
			x, y := an.Unparen(be.X), an.Unparen(be.Y)
			id, ok := x.(*ast.Ident)
			if !ok || objOf(info, id) != cmpObj {
				return false, false
			}
			v, ok := an.ConstInt(info, y)
			if !ok || v != 1 {
				return false, false
			}
			switch be.Op {
			case token.EQL:
				return true, true
			case token.NEQ:
				return true, false
			}
			return false, false
		})
		okAll := len(pass) > 0 && len(macNonNil) > 0
		for _, sp := range succ {
			// paths on which hc.mac != nil: block the nil outcome and demand the pass edge
			blockNil := map[an.Edge]bool{}
			for _, b := range fn.G.Blocks {
				t, f, ok := an.CondEdges(b)
				if !ok {
					continue
				}
				for _, e := range []an.Edge{t, f} {
					isNonNil := false
					for _, m := range macNonNil {
						if m == e {
							isNonNil = true
						}
					}
					cond := b.Nodes[len(b.Nodes)-1].(ast.Expr)
					if !isNonNil && an.Contains(cond, func(y ast.Node) bool {
						ex, ok := y.(ast.Expr)
						return ok && an.FieldSel(info, an.Unparen(ex), "halfConn", "mac")
					}) {
						blockNil[e] = true
					}
				}
			}
			reach := fn.ReachFromEntry(nil, blockNil)
			if !reach[sp] {
				continue
			}
			// with the nil outcome blocked, success must pass the comparison's pass edge
			blocked := map[an.Edge]bool{}
			for e := range blockNil {
				blocked[e] = true
			}
			for _, e := range pass {
				blocked[e] = true
			}
			if fn.ReachFromEntry(nil, blocked)[sp] {
				okAll = false
			}
		}
		r.Check(okAll, "C25.6", "decrypt:mac-gates-success", c.PosP(cmpAt), "with a MAC configured, success requires the comparison to yield 1", "with a MAC configured a successful return is reachable without the MAC comparison having passed: altered plaintext is delivered")
	}
	// (c) sequence number advances on success
	incs := fn.Find(func(n ast.Node) bool {
		call, ok := n.(*ast.CallExpr)
		return ok && an.IsCallTo(info, call, Mod, "halfConn", "incSeq")
	})
	for i, sp := range succAll {
		rs := sp.Node().(*ast.ReturnStmt)
		// the TLS 1.3 change_cipher_spec pass-through returns the payload undecrypted and does not count
		if passThrough(rs) {
			r.Ok("C25.6", fmt.Sprintf("decrypt:seq-advances#%d", i+1), c.Pos(rs), "unprotected change_cipher_spec pass-through (RFC 8446 D.4)")
			continue
		}
		r.Check(len(incs) > 0 && fn.MustPass(sp, incs, nil), "C25.6", fmt.Sprintf("decrypt:seq-advances#%d", i+1), c.Pos(rs), "incSeq precedes the successful return", "a record is accepted without advancing the sequence number: the next record's nonce/MAC input repeats and replayed or reordered records are accepted")
	}
	r.Floor("C25.6", 5)
}
