package props

import (
	"fmt"
	"go/ast"
	"go/token"
	"go/types"
	"strings"

	"verif/internal/an"
)

// linExec executes integer code on linear forms; conditions are decided by an oracle
// over the difference lhs-rhs (the caller partitions the input space so that they are decidable).
type linExec struct {
	info   *types.Info
	vars   map[types.Object]Lin
	decide func(d Lin, op token.Token) tri // is `d op 0` ?
	call   func(call *ast.CallExpr, args []Lin) (Lin, bool)
	why    string
	depth  int
}

type linOutcome struct {
	Kind string // return | stuck | panic
	Ret  []Lin
	Bool []tri
	Why  string
}

func (x *linExec) eval(e ast.Expr) (Lin, bool) {
	e = an.Unparen(e)
	if v, ok := an.ConstInt(x.info, e); ok {
		return linConst(v), true
	}
	switch v := e.(type) {
	case *ast.Ident:
		if o := objOf(x.info, v); o != nil {
			if l, ok := x.vars[o]; ok {
				return l, true
			}
		}
	case *ast.BinaryExpr:
		a, ok1 := x.eval(v.X)
		b, ok2 := x.eval(v.Y)
		if ok1 && ok2 {
			switch v.Op {
			case token.ADD:
				return a.Add(b), true
			case token.SUB:
				return a.Sub(b), true
			case token.MUL:
				if a.IsConst() {
					return b.Scale(a.C), true
				}
				if b.IsConst() {
					return a.Scale(b.C), true
				}
			}
		}
	case *ast.CallExpr:
		if tv, ok := x.info.Types[v.Fun]; ok && tv.IsType() && len(v.Args) == 1 {
			return x.eval(v.Args[0])
		}
		if x.call != nil {
			var args []Lin
			for _, a := range v.Args {
				l, ok := x.eval(a)
				if !ok {
					return Lin{}, false
				}
				args = append(args, l)
			}
			if l, ok := x.call(v, args); ok {
				return l, true
			}
		}
		if l, ok := x.inlineCall(v); ok {
			return l, true
		}
	}
	x.why = "cannot evaluate " + types.ExprString(e)
	return Lin{}, false
}

// inlineCall evaluates a call to a module function with a body by executing that body on the
// argument values (depth-limited): a computation moved into a helper evaluates as before.
func (x *linExec) inlineCall(call *ast.CallExpr) (Lin, bool) {
	if currentCtx == nil || x.depth >= 3 {
		return Lin{}, false
	}
	f, _ := an.Callee(x.info, call).(*types.Func)
	if f == nil || f.Pkg() == nil || !strings.HasPrefix(f.Pkg().Path(), Mod) {
		return Lin{}, false
	}
	sig := f.Type().(*types.Signature)
	if sig.Recv() != nil || sig.Variadic() || sig.Results().Len() != 1 {
		return Lin{}, false
	}
	fd := c17DeclOf(currentCtx, f)
	if fd == nil || fd.Body == nil {
		return Lin{}, false
	}
	var pinfo *types.Info
	for _, pk := range currentCtx.P.Pkgs {
		if pk.Types == f.Pkg() {
			pinfo = pk.TypesInfo
		}
	}
	if pinfo == nil {
		return Lin{}, false
	}
	sub := &linExec{info: pinfo, vars: map[types.Object]Lin{}, decide: x.decide, call: x.call, depth: x.depth + 1}
	i := 0
	for _, fl := range fd.Type.Params.List {
		for _, nm := range fl.Names {
			if i >= len(call.Args) {
				return Lin{}, false
			}
			l, ok := x.eval(call.Args[i])
			if !ok {
				return Lin{}, false
			}
			sub.vars[pinfo.Defs[nm]] = l
			i++
		}
	}
	if i != len(call.Args) {
		return Lin{}, false
	}
	out := sub.run(fd.Body.List)
	if out == nil || out.Kind != "return" || len(out.Ret) != 1 {
		if out != nil && out.Why != "" {
			x.why = out.Why
		}
		return Lin{}, false
	}
	if b, ok := sig.Results().At(0).Type().Underlying().(*types.Basic); !ok || b.Info()&types.IsInteger == 0 {
		return Lin{}, false
	}
	return out.Ret[0], true
}

func (x *linExec) cond(e ast.Expr) tri {
	e = an.Unparen(e)
	switch v := e.(type) {
	case *ast.Ident:
		if v.Name == "true" {
			return triTrue
		}
		if v.Name == "false" {
			return triFalse
		}
	case *ast.UnaryExpr:
		if v.Op == token.NOT {
			switch x.cond(v.X) {
			case triTrue:
				return triFalse
			case triFalse:
				return triTrue
			}
			return triUnknown
		}
	case *ast.BinaryExpr:
		switch v.Op {
		case token.LAND:
			a, b := x.cond(v.X), x.cond(v.Y)
			if a == triFalse || b == triFalse {
				return triFalse
			}
			if a == triTrue && b == triTrue {
				return triTrue
			}
			return triUnknown
		case token.LOR:
			a, b := x.cond(v.X), x.cond(v.Y)
			if a == triTrue || b == triTrue {
				return triTrue
			}
			if a == triFalse && b == triFalse {
				return triFalse
			}
			return triUnknown
		case token.LSS, token.LEQ, token.GTR, token.GEQ, token.EQL, token.NEQ:
			a, ok1 := x.eval(v.X)
			b, ok2 := x.eval(v.Y)
			if !ok1 || !ok2 {
				return triUnknown
			}
			d := a.Sub(b)
			if d.IsConst() {
				var r bool
				switch v.Op {
				case token.LSS:
					r = d.C < 0
				case token.LEQ:
					r = d.C <= 0
				case token.GTR:
					r = d.C > 0
				case token.GEQ:
					r = d.C >= 0
				case token.EQL:
					r = d.C == 0
				case token.NEQ:
					r = d.C != 0
				}
				if r {
					return triTrue
				}
				return triFalse
			}
			if x.decide != nil {
				return x.decide(d, v.Op)
			}
		}
	}
	return triUnknown
}

func (x *linExec) run(stmts []ast.Stmt) *linOutcome {
	for _, s := range stmts {
		if isPanicCall(x.info, s) {
			return &linOutcome{Kind: "panic"}
		}
		switch st := s.(type) {
		case *ast.AssignStmt:
			if len(st.Lhs) != len(st.Rhs) {
				return &linOutcome{Kind: "stuck", Why: "multi-value assignment"}
			}
			for k, l := range st.Lhs {
				id, ok := l.(*ast.Ident)
				if !ok {
					return &linOutcome{Kind: "stuck", Why: "assignment to non-variable"}
				}
				o := objOf(x.info, id)
				rhs, ok := x.eval(st.Rhs[k])
				if !ok {
					return &linOutcome{Kind: "stuck", Why: x.why}
				}
				switch st.Tok {
				case token.ASSIGN, token.DEFINE:
					x.vars[o] = rhs
				case token.ADD_ASSIGN:
					x.vars[o] = x.vars[o].Add(rhs)
				case token.SUB_ASSIGN:
					x.vars[o] = x.vars[o].Sub(rhs)
				default:
					return &linOutcome{Kind: "stuck", Why: "unsupported assignment operator"}
				}
			}
		case *ast.IfStmt:
			if st.Init != nil {
				if out := x.run([]ast.Stmt{st.Init}); out != nil {
					return out
				}
			}
			switch x.cond(st.Cond) {
			case triTrue:
				if out := x.run(st.Body.List); out != nil {
					return out
				}
			case triFalse:
				switch e := st.Else.(type) {
				case *ast.BlockStmt:
					if out := x.run(e.List); out != nil {
						return out
					}
				case *ast.IfStmt:
					if out := x.run([]ast.Stmt{e}); out != nil {
						return out
					}
				}
			default:
				return &linOutcome{Kind: "stuck", Why: "condition " + an.Str(st.Cond) + " is not uniform on this partition"}
			}
		case *ast.ReturnStmt:
			out := &linOutcome{Kind: "return"}
			for _, r := range st.Results {
				if b, ok := x.info.TypeOf(r).Underlying().(*types.Basic); ok && b.Kind() == types.Bool {
					out.Bool = append(out.Bool, x.cond(r))
					out.Ret = append(out.Ret, Lin{})
					continue
				}
				l, ok := x.eval(r)
				if !ok {
					return &linOutcome{Kind: "stuck", Why: x.why}
				}
				out.Ret = append(out.Ret, l)
				out.Bool = append(out.Bool, triUnknown)
			}
			return out
		case *ast.BlockStmt:
			if out := x.run(st.List); out != nil {
				return out
			}
		case *ast.SwitchStmt:
			// tagless switch, or a tag compared with each case value; first matching clause runs
			if st.Init != nil {
				if out := x.run([]ast.Stmt{st.Init}); out != nil {
					return out
				}
			}
			var dflt *ast.CaseClause
			matched := false
			for _, cs := range st.Body.List {
				cc := cs.(*ast.CaseClause)
				if cc.List == nil {
					dflt = cc
					continue
				}
				res := triFalse
				for _, ce := range cc.List {
					var t tri
					if st.Tag == nil {
						t = x.cond(ce)
					} else {
						t = x.cond(&ast.BinaryExpr{X: st.Tag, Op: token.EQL, Y: ce})
					}
					if t == triTrue {
						res = triTrue
						break
					}
					if t == triUnknown {
						res = triUnknown
					}
				}
				if res == triUnknown {
					return &linOutcome{Kind: "stuck", Why: "switch case is not uniform on this partition"}
				}
				if res == triTrue {
					matched = true
					if hasFallthrough(cc) {
						return &linOutcome{Kind: "stuck", Why: "fallthrough"}
					}
					if out := x.run(cc.Body); out != nil {
						return out
					}
					break
				}
			}
			if !matched && dflt != nil {
				if out := x.run(dflt.Body); out != nil {
					return out
				}
			}
		case *ast.ExprStmt, *ast.DeclStmt, *ast.EmptyStmt:
		default:
			return &linOutcome{Kind: "stuck", Why: fmt.Sprintf("unsupported statement %T", s)}
		}
	}
	return nil
}

// intervalOracle decides `d op 0` when d is k·atom + c and atom ranges over [lo,hi].
func intervalOracle(atom string, lo, hi int64) func(Lin, token.Token) tri {
	return func(d Lin, op token.Token) tri {
		if len(d.T) != 1 {
			return triUnknown
		}
		k, ok := d.T[atom]
		if !ok {
			return triUnknown
		}
		a, b := k*lo+d.C, k*hi+d.C
		if a > b {
			a, b = b, a
		}
		dec := func(allTrue, allFalse bool) tri {
			if allTrue {
				return triTrue
			}
			if allFalse {
				return triFalse
			}
			return triUnknown
		}
		switch op {
		case token.LSS:
			return dec(b < 0, a >= 0)
		case token.LEQ:
			return dec(b <= 0, a > 0)
		case token.GTR:
			return dec(a > 0, b <= 0)
		case token.GEQ:
			return dec(a >= 0, b < 0)
		case token.EQL:
			return dec(a == 0 && b == 0, a > 0 || b < 0)
		case token.NEQ:
			return dec(a > 0 || b < 0, a == 0 && b == 0)
		}
		return triUnknown
	}
}

func hasFallthrough(cc *ast.CaseClause) bool {
	for _, s := range cc.Body {
		if b, ok := s.(*ast.BranchStmt); ok && b.Tok == token.FALLTHROUGH {
			return true
		}
	}
	return false
}
