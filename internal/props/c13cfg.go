package props

// Control-flow part of C13 (the client never settles on a version it did not advertise).
// The per-parrot table clause C13.1 lives in c13.go, which registers the property and calls
// the package variable c13Extra; this file sets c13Extra = c13CFG. No Prop is registered here.
//
// C13.2  SetTLSVers stores the spec's min/max into Config on every success path (the ECH
//        branch excepted, which supportedVersions restricts to TLS 1.3); ApplyPreset passes
//        the spec's fields and propagates the error; nothing else writes Config.Min/MaxVersion;
//        pickTLSVersion is the only writer of Conn.vers on the client path, stores the result
//        of Config.mutualVersion(roleClient, {peer version}) behind its ok outcome; mutualVersion
//        returns only elements of Config.supportedVersions; supportedVersions never yields a
//        version outside [MinVersion, MaxVersion] (decided by pruning its CFG under concrete
//        scenarios); the handshake state machines are entered only behind pickTLSVersion.
// C13.3  in both client handshakes, with maxSupportedVersion(roleClient) == TLS 1.3, a
//        negotiated version <= TLS 1.2 and either RFC 8446 sentinel in the last eight bytes
//        of ServerHello.random, neither state machine is reachable and every exit is an
//        error (decided by pruning the CFG under the six concrete scenarios); the compared
//        maximum is Config.maxSupportedVersion(roleClient), which is the head of a
//        descending list.

import (
	"fmt"
	"go/ast"
	"go/constant"
	"go/token"
	"go/types"

	"verif/internal/an"
	"verif/internal/load"
)

const c13CFGExplanation = "C13.2 SetTLSVers stores min/max into Config on every success path (ECH branch excepted; supportedVersions then yields only TLS 1.3), ApplyPreset hands it the spec's TLSVersMin/TLSVersMax and propagates its error, no other code writes Config.MinVersion/MaxVersion, pickTLSVersion is the only writer of Conn.vers reachable from the client handshakes and stores the result of Config.mutualVersion(roleClient, {ServerHello version}) behind its ok outcome, mutualVersion returns only members of Config.supportedVersions, supportedVersions excludes versions outside [MinVersion, MaxVersion] (CFG pruned under concrete scenarios), and both TLS state machines are entered only behind a successful pickTLSVersion of the same ServerHello. " +
	"C13.3 with maxSupportedVersion(roleClient)=TLS 1.3, negotiated version in {1.2, 1.1, 1.0} and ServerHello.random ending in DOWNGRD\\x01 or DOWNGRD\\x00, neither state machine is reachable and every exit after pickTLSVersion is an error return (CFG pruned under the six scenarios, constants evaluated from the source); the compared maximum comes from Config.maxSupportedVersion(roleClient), which returns the head of the descending supportedVersions list."

const c13CFGNotDecided = "which versions a given parrot advertises versus accepts (C13.1, table clause); the version a server actually selects; TLS 1.2-max clients' TLS 1.1 sentinel (not part of the statement)"

// c13.go (registered elsewhere) calls c13Extra when set.
func init() { c13Extra = c13CFG }

func c13CFG(c *Ctx) {
	c13SetTLSVers(c)
	c13Writers(c)
	c13Pick(c)
	c13Mutual(c)
	c13Supported(c)
	for _, recv := range []string{"UConn", "Conn"} {
		c13ClientHandshake(c, recv)
	}
	c.R.Floor("C13.2", 30)
	c.R.Floor("C13.3", 18)
}

// ------------------------------------------------------------------ C13.2 SetTLSVers / ApplyPreset

func c13SetTLSVers(c *Ctx) {
	r, info := c.R, c.Info()
	fn := c.Fn("C13.2", "UConn", "SetTLSVers")
	if fn != nil {
		ps := paramObjs(info, fn.Decl)
		if len(ps) < 2 {
			r.Unknown("C13.2", "SetTLSVers:signature", c.Pos(fn.Decl), "unexpected parameter list")
			return
		}
		// ECH outcome: the branch in which the ECH config list is present
		isECH := c.mentionsField("Config", "EncryptedClientHelloConfigList")
		echEdges, _, _ := condEdgesL(fn, func(cond ast.Expr) (bool, bool) {
			be, ok := cond.(*ast.BinaryExpr)
			if !ok || !isECH(be) {
				return false, false
			}
			for _, pr := range [][2]ast.Expr{{be.X, be.Y}, {be.Y, be.X}} {
				if an.IsNilIdent(info, pr[1]) {
					switch be.Op {
					case token.EQL:
						return true, false
					case token.NEQ:
						return true, true
					}
				}
				if v, ok := an.ConstInt(info, pr[1]); ok && v == 0 {
					if _, isLen := lenArg(info, an.Unparen(pr[0])); isLen {
						switch be.Op {
						case token.EQL:
							return true, false
						case token.NEQ, token.GTR:
							return true, true
						}
					}
				}
			}
			return false, false
		})
		rets := successReturns(fn)
		if len(rets) == 0 {
			r.Unknown("C13.2", "SetTLSVers:returns", c.Pos(fn.Decl), "no success return found")
		}
		for i, fld := range []string{"MinVersion", "MaxVersion"} {
			stores := fn.FindNodes(an.AssignsTo(c.isField("Config", fld)))
			cons := "SetTLSVers:Config." + fld
			if len(stores) == 0 {
				r.Bad("C13.2", cons, c.Pos(fn.Decl), "SetTLSVers never stores Config.%s: the version range accepted by pickTLSVersion is not the spec's", fld)
				continue
			}
			var pts []an.Point
			for _, s := range stores {
				pts = append(pts, s.P)
				as, ok := s.N.(*ast.AssignStmt)
				if !ok || len(as.Lhs) != len(as.Rhs) {
					r.Unknown("C13.2", cons+":value", c.Pos(s.N), "unrecognised store")
					continue
				}
				for k, l := range as.Lhs {
					if !c.isField("Config", fld)(l) {
						continue
					}
					id, isID := an.Unparen(as.Rhs[k]).(*ast.Ident)
					r.Check(isID && info.Uses[id] == ps[i], "C13.2", cons+":value", c.Pos(as), "stores the "+ps[i].Name()+" parameter", "Config."+fld+" is set from "+an.Str(as.Rhs[k])+", not from the "+ps[i].Name()+" parameter")
				}
			}
			ok := true
			for _, ret := range rets {
				if !fn.MustPass(ret, pts, echEdges) {
					ok = false
				}
			}
			r.Check(ok, "C13.2", cons, c.Pos(stores[0].N), "stored on every success path (ECH branch excepted)", "a success return of SetTLSVers is reachable without storing Config."+fld+": pickTLSVersion would accept versions outside the spec's range")
		}
	}
	ap := c.Fn("C13.2", "UConn", "ApplyPreset")
	if ap != nil {
		hits := ap.FindNodes(an.CallTo(info, Mod, "UConn", "SetTLSVers"))
		if len(hits) == 0 {
			r.Bad("C13.2", "ApplyPreset->SetTLSVers", c.Pos(ap.Decl), "ApplyPreset does not call SetTLSVers: Config keeps the caller's version range instead of the spec's")
		}
		for _, h := range hits {
			call := h.N.(*ast.CallExpr)
			okArgs := len(call.Args) == 3 &&
				an.FieldSel(info, an.Unparen(call.Args[0]), "ClientHelloSpec", "TLSVersMin") &&
				an.FieldSel(info, an.Unparen(call.Args[1]), "ClientHelloSpec", "TLSVersMax") &&
				an.FieldSel(info, an.Unparen(call.Args[2]), "ClientHelloSpec", "Extensions")
			r.Check(okArgs, "C13.2", "ApplyPreset->SetTLSVers:args", c.Pos(call), "called with the spec's TLSVersMin, TLSVersMax, Extensions", "SetTLSVers is not called with (spec.TLSVersMin, spec.TLSVersMax, spec.Extensions)")
			t := callErrTest(ap, h)
			if t.why != "" {
				r.Bad("C13.2", "ApplyPreset->SetTLSVers:error-propagates", c.Pos(call), "%s", t.why)
				continue
			}
			ok := true
			for _, fe := range t.fail {
				if good, _ := failEdgeExits(ap, fe, nil); !good {
					ok = false
				}
			}
			for _, ret := range successReturns(ap) {
				if !ap.MustPass(ret, nil, t.pass) {
					ok = false
				}
			}
			r.Check(ok, "C13.2", "ApplyPreset->SetTLSVers:error-propagates", c.Pos(call), "ApplyPreset succeeds only if SetTLSVers did", "ApplyPreset can succeed although SetTLSVers failed or was skipped")
		}
	}
	// no other writer of Config.MinVersion / MaxVersion in the module's root package
	for _, fld := range []string{"MinVersion", "MaxVersion"} {
		isF := c.isField("Config", fld)
		n := 0
		for _, fd := range load.AllFuncDecls(c.P.TLS) {
			ast.Inspect(fd.Body, func(nn ast.Node) bool {
				if !an.AssignsTo(isF)(nn) {
					return true
				}
				n++
				name := fd.Name.Name
				if rn := load.RecvName(fd); rn != "" {
					name = rn + "." + name
				}
				r.Check(name == "UConn.SetTLSVers", "C13.2", "writers:Config."+fld+":"+name, c.Pos(nn), "written by SetTLSVers", "Config."+fld+" is also written by "+name+": the accepted version range can differ from what SetTLSVers derived from the spec")
				return true
			})
		}
		if n == 0 {
			r.Unknown("C13.2", "writers:Config."+fld, "", "no writer found")
		}
	}
}

// ------------------------------------------------------------------ C13.2 writers of Conn.vers

func c13Writers(c *Ctx) {
	r := c.R
	cg := c.buildCallGraph()
	roots := []*types.Func{c.methodObj("UConn", "clientHandshake"), c.methodObj("Conn", "clientHandshake")}
	if roots[0] == nil || roots[1] == nil {
		r.Unknown("C13.2", "writers:Conn.vers", "", "client handshake anchors not found")
		return
	}
	reach := cg.reach(roots...)
	isVers := c.isField("Conn", "vers")
	n := 0
	for _, f := range sortedFuncs(reach) {
		fd := cg.decl[f]
		if fd == nil || fd.Body == nil {
			continue
		}
		ast.Inspect(fd.Body, func(nn ast.Node) bool {
			if an.AssignsTo(isVers)(nn) {
				n++
				name := funcName(f)
				r.Check(name == "Conn.pickTLSVersion", "C13.2", "writers:Conn.vers:"+name, c.Pos(nn), "the negotiated version is written by pickTLSVersion", "Conn.vers is written by "+name+" on the client path, bypassing pickTLSVersion's mutualVersion check")
			}
			return true
		})
	}
	if n == 0 {
		r.Unknown("C13.2", "writers:Conn.vers", "", "no writer of Conn.vers reachable from the client handshakes")
	}
	r.Count("c13_client_path_functions", len(reach))
}

// ------------------------------------------------------------------ C13.2 pickTLSVersion

func c13Pick(c *Ctx) {
	r, info := c.R, c.Info()
	fn := c.Fn("C13.2", "Conn", "pickTLSVersion")
	if fn == nil {
		return
	}
	hits := fn.FindNodes(an.CallTo(info, Mod, "Config", "mutualVersion"))
	if len(hits) == 0 {
		r.Bad("C13.2", "pickTLSVersion:mutualVersion", c.Pos(fn.Decl), "pickTLSVersion does not consult Config.mutualVersion")
		return
	}
	var versObj, okObj types.Object
	peerAlias := map[types.Object]bool{}
	for _, h := range hits {
		call := h.N.(*ast.CallExpr)
		as, isAs := h.P.Node().(*ast.AssignStmt)
		if !isAs || len(as.Lhs) != 2 || len(as.Rhs) != 1 || an.Unparen(as.Rhs[0]) != ast.Expr(call) {
			r.Unknown("C13.2", "pickTLSVersion:mutualVersion", c.Pos(call), "result of mutualVersion is not bound by a two-value assignment")
			return
		}
		versObj, okObj = lvalObj(info, as.Lhs[0]), lvalObj(info, as.Lhs[1])
		// arguments: roleClient, []uint16{peer version taken from the ServerHello}
		role := len(call.Args) == 2 && constBool(info, call.Args[0], true)
		r.Check(role, "C13.2", "pickTLSVersion:mutualVersion:role", c.Pos(call), "asks for the client's supported versions", "mutualVersion is not called with roleClient")
		peerOK := false
		if len(call.Args) == 2 {
			shv := func(e ast.Expr) bool {
				return c.mentionsField("serverHelloMsg", "vers")(e) || c.mentionsField("serverHelloMsg", "supportedVersion")(e)
			}
			al := aliasSet(fn, shv)
			peerAlias = al
			if cl, ok := an.Unparen(call.Args[1]).(*ast.CompositeLit); ok && len(cl.Elts) == 1 {
				peerOK = shv(cl.Elts[0]) || mentionsAny(info, cl.Elts[0], al)
			}
		}
		r.Check(peerOK, "C13.2", "pickTLSVersion:mutualVersion:peer", c.Pos(call), "the only candidate is the version the ServerHello selected", "mutualVersion is not given exactly the ServerHello's selected version")
	}
	pass, fail, _ := condEdgesL(fn, func(cond ast.Expr) (bool, bool) {
		e, neg := negated(cond)
		id, ok := e.(*ast.Ident)
		if !ok || okObj == nil || objOf(info, id) != okObj {
			return false, false
		}
		return true, !neg
	})
	if len(pass) == 0 {
		r.Bad("C13.2", "pickTLSVersion:ok-tested", c.Pos(fn.Decl), "the ok result of mutualVersion is never tested")
		return
	}
	for _, fe := range fail {
		ok, why := failEdgeExits(fn, fe, nil)
		r.Check(ok, "C13.2", "pickTLSVersion:reject", condPos(c, fe), "a version outside the supported set ends the handshake with an error", "unsupported version: "+why)
	}
	stores := fn.FindNodes(an.AssignsTo(c.isField("Conn", "vers")))
	if len(stores) == 0 {
		r.Unknown("C13.2", "pickTLSVersion:store", c.Pos(fn.Decl), "store to Conn.vers not found")
	}
	for _, s := range stores {
		as, ok := s.N.(*ast.AssignStmt)
		val := false
		if ok && len(as.Lhs) == len(as.Rhs) {
			for k, l := range as.Lhs {
				if c.isField("Conn", "vers")(l) {
					o := lvalObj(info, as.Rhs[k])
					// mutualVersion's result equals the single candidate it was given
					val = o != nil && (o == versObj || peerAlias[o])
				}
			}
		}
		r.Check(val, "C13.2", "pickTLSVersion:store:value", c.Pos(s.N), "Conn.vers receives mutualVersion's result", "Conn.vers is not set from the result of mutualVersion")
		r.Check(fn.MustPass(s.P, nil, pass), "C13.2", "pickTLSVersion:store", c.Pos(s.N), "stored only behind mutualVersion's ok outcome", "Conn.vers is stored on a path where mutualVersion did not succeed")
	}
	ok := true
	for _, ret := range successReturns(fn) {
		if !fn.MustPass(ret, nil, pass) {
			ok = false
		}
	}
	r.Check(ok, "C13.2", "pickTLSVersion:success-path", c.Pos(fn.Decl), "succeeds only behind mutualVersion's ok outcome", "pickTLSVersion can return nil although mutualVersion rejected the version")
}

func constBool(info *types.Info, e ast.Expr, want bool) bool {
	tv, ok := info.Types[e]
	return ok && tv.Value != nil && tv.Value.Kind() == constant.Bool && constant.BoolVal(tv.Value) == want
}

// ------------------------------------------------------------------ C13.2 mutualVersion

func c13Mutual(c *Ctx) {
	r, info := c.R, c.Info()
	fn := c.Fn("C13.2", "Config", "mutualVersion")
	if fn == nil {
		return
	}
	ps := paramObjs(info, fn.Decl)
	if len(ps) != 2 {
		r.Unknown("C13.2", "mutualVersion:signature", c.Pos(fn.Decl), "unexpected parameter list")
		return
	}
	// variables holding c.supportedVersions(isClient)
	supp := aliasSet(fn, func(e ast.Expr) bool {
		call, ok := an.Unparen(e).(*ast.CallExpr)
		if !ok || !an.IsCallTo(info, call, Mod, "Config", "supportedVersions") || len(call.Args) != 1 {
			return false
		}
		id, ok := an.Unparen(call.Args[0]).(*ast.Ident)
		return ok && info.Uses[id] == ps[0]
	})
	if len(supp) == 0 {
		r.Bad("C13.2", "mutualVersion:source", c.Pos(fn.Decl), "mutualVersion does not take its candidates from c.supportedVersions(isClient)")
		return
	}
	m := memberSpec{
		isList: func(e ast.Expr) bool { id, ok := an.Unparen(e).(*ast.Ident); return ok && supp[info.Uses[id]] },
		isElem: func(e ast.Expr) bool {
			// the peer's version: a range variable over the peerVersions parameter
			rv := map[types.Object]bool{}
			ast.Inspect(fn.Body, func(n ast.Node) bool {
				if rs, ok := n.(*ast.RangeStmt); ok {
					if id, ok := an.Unparen(rs.X).(*ast.Ident); ok && info.Uses[id] == ps[1] {
						if v, ok := rs.Value.(*ast.Ident); ok {
							rv[info.Defs[v]] = true
						}
					}
				}
				return true
			})
			return mentionsAny(info, e, rv)
		},
	}
	eq := rangeEqEdges(fn, m)
	mp, _, _ := m.edges(fn)
	eq = append(eq, mp...)
	ok, n := len(eq) > 0, 0
	for _, ret := range fn.Returns() {
		rs := ret.Node().(*ast.ReturnStmt)
		if len(rs.Results) != 2 || !constBool(info, rs.Results[1], true) {
			continue
		}
		n++
		if !fn.MustPass(ret, nil, eq) {
			ok = false
		}
	}
	r.Check(ok && n > 0, "C13.2", "mutualVersion:membership", c.Pos(fn.Decl), "a version is returned as mutual only behind an equality with an element of c.supportedVersions(isClient)", "mutualVersion can report success for a version that is not in c.supportedVersions(isClient)")
}

// ------------------------------------------------------------------ C13.2/C13.3 supportedVersions

const (
	v10 = 0x0301
	v11 = 0x0302
	v12 = 0x0303
	v13 = 0x0304
)

func c13Supported(c *Ctx) {
	r, info := c.R, c.Info()
	fn := c.Fn("C13.2", "Config", "supportedVersions")
	if fn != nil {
		var recv types.Object
		if fn.Decl.Recv != nil && len(fn.Decl.Recv.List[0].Names) > 0 {
			recv = info.Defs[fn.Decl.Recv.List[0].Names[0]]
		}
		ps := paramObjs(info, fn.Decl)
		// the element appended to the result: a range variable
		type app struct {
			p an.Point
			v types.Object
		}
		var apps []app
		for _, h := range fn.FindNodes(func(n ast.Node) bool {
			call, ok := n.(*ast.CallExpr)
			if !ok || len(call.Args) != 2 {
				return false
			}
			id, ok := call.Fun.(*ast.Ident)
			if !ok || id.Name != "append" {
				return false
			}
			_, isB := info.Uses[id].(*types.Builtin)
			return isB
		}) {
			if id, ok := an.Unparen(h.N.(*ast.CallExpr).Args[1]).(*ast.Ident); ok {
				apps = append(apps, app{h.P, info.Uses[id]})
			}
		}
		minF, maxF, echF := c.fieldVar("Config", "MinVersion"), c.fieldVar("Config", "MaxVersion"), c.fieldVar("Config", "EncryptedClientHelloConfigList")
		if len(apps) != 1 || recv == nil || len(ps) != 1 || minF == nil || maxF == nil || echF == nil {
			r.Unknown("C13.2", "supportedVersions:shape", c.Pos(fn.Decl), "expected one append of a range variable, a named receiver and one parameter")
		} else {
			type sc struct {
				name         string
				min, max, v  int64
				ech          bool
				wantIncluded bool
				sanity       bool
			}
			for _, s := range []sc{
				{"below-min", v12, v12, v11, false, false, false},
				{"above-max", v12, v12, v13, false, false, false},
				{"below-min-1.0", v11, v13, v10, false, false, false},
				{"above-max-1.2", v10, v11, v12, false, false, false},
				{"ech-excludes-1.2", 0, 0, v12, true, false, false},
				{"in-range", v12, v12, v12, false, true, true},
				{"in-range-low", v10, v13, v10, false, true, true},
				{"ech-keeps-1.3", 0, 0, v13, true, true, true},
			} {
				env := &scenario{info: info,
					objs:     map[types.Object]constant.Value{apps[0].v: constant.MakeInt64(s.v), ps[0]: constant.MakeBool(true)},
					fields:   map[*types.Var]constant.Value{minF: constant.MakeInt64(s.min), maxF: constant.MakeInt64(s.max)},
					nonNil:   map[types.Object]bool{recv: true},
					fieldNil: map[*types.Var]bool{echF: !s.ech},
				}
				blocked, _ := env.prune(fn)
				got := fn.ReachFromEntry(nil, blocked)[apps[0].p]
				cons := "supportedVersions:" + s.name
				detail := fmt.Sprintf("MinVersion=%#x MaxVersion=%#x ech=%v candidate=%#x", s.min, s.max, s.ech, s.v)
				switch {
				case s.sanity && !got:
					r.Unknown("C13.2", cons, c.Pos(fn.Decl), "scenario evaluation does not reproduce that an in-range version is offered (%s)", detail)
				case s.sanity:
					r.Ok("C13.2", cons, c.Pos(fn.Decl), "included: %s", detail)
				default:
					r.Check(!got, "C13.2", cons, c.Pos(fn.Decl), "excluded: "+detail, "supportedVersions includes a version outside the configured range ("+detail+"): mutualVersion would accept it from a server")
				}
			}
		}
	}
	// maxSupportedVersion returns the head of supportedVersions(isClient); the list is descending
	ms := c.Fn("C13.3", "Config", "maxSupportedVersion")
	if ms != nil {
		ps := paramObjs(info, ms.Decl)
		supp := aliasSet(ms, func(e ast.Expr) bool {
			call, ok := an.Unparen(e).(*ast.CallExpr)
			if !ok || !an.IsCallTo(info, call, Mod, "Config", "supportedVersions") || len(call.Args) != 1 || len(ps) != 1 {
				return false
			}
			id, ok := an.Unparen(call.Args[0]).(*ast.Ident)
			return ok && info.Uses[id] == ps[0]
		})
		ok, n := true, 0
		for _, ret := range ms.Returns() {
			rs := ret.Node().(*ast.ReturnStmt)
			if len(rs.Results) != 1 {
				continue
			}
			if v, isC := an.ConstInt(info, rs.Results[0]); isC && v == 0 {
				continue
			}
			n++
			ix, isIx := an.Unparen(rs.Results[0]).(*ast.IndexExpr)
			if !isIx {
				ok = false
				continue
			}
			id, isID := an.Unparen(ix.X).(*ast.Ident)
			i0, isC := an.ConstInt(info, ix.Index)
			if !isID || !supp[info.Uses[id]] || !isC || i0 != 0 {
				ok = false
			}
		}
		r.Check(ok && n > 0, "C13.3", "maxSupportedVersion:head", c.Pos(ms.Decl), "returns element 0 of c.supportedVersions(isClient)", "maxSupportedVersion does not return the first element of c.supportedVersions(isClient): the downgrade check would compare against the wrong maximum")
	}
	// the package-level list is strictly descending, so element 0 of any filtered copy is the maximum
	if v, ok := c.P.TLS.Types.Scope().Lookup("supportedVersions").(*types.Var); ok {
		var lit *ast.CompositeLit
		for _, f := range c.P.TLS.Syntax {
			ast.Inspect(f, func(n ast.Node) bool {
				vs, ok := n.(*ast.ValueSpec)
				if !ok {
					return true
				}
				for i, nm := range vs.Names {
					if info.Defs[nm] == types.Object(v) && i < len(vs.Values) {
						lit, _ = an.Unparen(vs.Values[i]).(*ast.CompositeLit)
					}
				}
				return true
			})
		}
		desc := lit != nil && len(lit.Elts) > 0
		prev := int64(1 << 20)
		if lit != nil {
			for _, el := range lit.Elts {
				x, isC := an.ConstInt(info, el)
				if !isC || x >= prev {
					desc = false
				}
				prev = x
			}
		}
		pos := ""
		if lit != nil {
			pos = c.Pos(lit)
		}
		r.Check(desc, "C13.3", "supportedVersions:descending", pos, "the version list is strictly descending", "the package-level supportedVersions list is not strictly descending: element 0 is not the maximum")
		// and the loop in Config.supportedVersions ranges over it in order
		if fn != nil {
			ranged := false
			ast.Inspect(fn.Body, func(n ast.Node) bool {
				if rs, ok := n.(*ast.RangeStmt); ok {
					if id, ok := an.Unparen(rs.X).(*ast.Ident); ok && info.Uses[id] == types.Object(v) {
						ranged = true
					}
				}
				return true
			})
			r.Check(ranged, "C13.3", "supportedVersions:order", c.Pos(fn.Decl), "Config.supportedVersions filters the descending list in order", "Config.supportedVersions does not range over the descending package-level list")
		}
	} else {
		r.Unknown("C13.3", "supportedVersions:descending", "", "package-level supportedVersions not found")
	}
}

// ------------------------------------------------------------------ C13.2/C13.3 clientHandshake

func c13ClientHandshake(c *Ctx, recv string) {
	r, info := c.R, c.Info()
	fn := c.Fn("C13.3", recv, "clientHandshake")
	if fn == nil {
		return
	}
	name := recv + ".clientHandshake"
	// acceptance points: entering either state machine (and, in uTLS, publishing the ServerHello)
	var targets []an.Hit
	for _, hr := range []string{"clientHandshakeStateTLS13", "clientHandshakeState"} {
		targets = append(targets, fn.FindNodes(an.CallTo(info, Mod, hr, "handshake"))...)
	}
	if len(targets) < 2 {
		r.Unknown("C13.3", name+":targets", c.Pos(fn.Decl), "calls to both handshake state machines not found")
		return
	}
	targets = append(targets, fn.FindNodes(an.AssignsTo(c.isField("PubClientHandshakeState", "ServerHello")))...)
	tname := func(h an.Hit) string {
		if call, ok := h.N.(*ast.CallExpr); ok {
			return an.Str(call.Fun)
		}
		return "HandshakeState.ServerHello="
	}
	// ---- C13.2: behind pickTLSVersion of the same ServerHello
	picks := fn.FindNodes(an.CallTo(info, Mod, "Conn", "pickTLSVersion"))
	if len(picks) == 0 {
		r.Bad("C13.2", name+":pickTLSVersion", c.Pos(fn.Decl), "the client handshake does not call pickTLSVersion")
		return
	}
	var pass []an.Edge
	var shObj types.Object
	for _, p := range picks {
		call := p.N.(*ast.CallExpr)
		if len(call.Args) == 1 {
			shObj = lvalObj(info, call.Args[0])
		}
		ok, why := propagates(fn, p)
		r.Check(ok, "C13.2", name+":pickTLSVersion:error-propagates", c.Pos(call), "a rejected version aborts the handshake", "pickTLSVersion's rejection is lost: "+why)
		if t := callErrTest(fn, p); t.why == "" {
			pass = append(pass, t.pass...)
		}
	}
	for _, t := range targets {
		r.Check(len(pass) > 0 && fn.MustPass(t.P, nil, pass), "C13.2", name+":"+tname(t)+":after-pickTLSVersion", c.Pos(t.N), "reached only behind a successful pickTLSVersion", "the state machine is reachable without a successful pickTLSVersion")
	}
	// the ServerHello handed on is the one whose version was picked
	nSH := 0
	chk := func(rhs ast.Expr, pos ast.Node, owner string) {
		nSH++
		r.Check(shObj != nil && lvalObj(info, rhs) == shObj, "C13.2", name+":"+owner+".serverHello", c.Pos(pos), "the processed ServerHello is the one pickTLSVersion examined", "hs.serverHello is set from "+an.Str(rhs)+", not from the message pickTLSVersion examined")
	}
	for _, owner := range []string{"clientHandshakeStateTLS13", "clientHandshakeState"} {
		for _, h := range fn.FindNodes(an.AssignsTo(c.isField(owner, "serverHello"))) {
			as := h.N.(*ast.AssignStmt)
			for i, l := range as.Lhs {
				if c.isField(owner, "serverHello")(l) && len(as.Lhs) == len(as.Rhs) {
					chk(as.Rhs[i], as, owner)
				}
			}
		}
		ast.Inspect(fn.Body, func(n ast.Node) bool {
			cl, ok := n.(*ast.CompositeLit)
			if !ok || an.TypeName(info.TypeOf(cl)) != owner {
				return true
			}
			for _, el := range cl.Elts {
				if kv, ok := el.(*ast.KeyValueExpr); ok {
					if k, ok := kv.Key.(*ast.Ident); ok && k.Name == "serverHello" {
						chk(kv.Value, kv, owner)
					}
				}
			}
			return true
		})
	}
	if nSH == 0 {
		r.Unknown("C13.2", name+":serverHello", c.Pos(fn.Decl), "no assignment of hs.serverHello found")
	}

	// ---- C13.3: sentinel scenarios
	maxObjs := aliasSet(fn, func(e ast.Expr) bool {
		call, ok := an.Unparen(e).(*ast.CallExpr)
		return ok && an.IsCallTo(info, call, Mod, "Config", "maxSupportedVersion") && len(call.Args) == 1 && constBool(info, call.Args[0], true)
	})
	if len(maxObjs) == 0 {
		r.Bad("C13.3", name+":max-version", c.Pos(fn.Decl), "no variable holds c.config.maxSupportedVersion(roleClient): the sentinel check cannot know that TLS 1.3 was offered")
		return
	}
	r.Ok("C13.3", name+":max-version", c.Pos(fn.Decl), "the compared maximum is c.config.maxSupportedVersion(roleClient)")
	versF := c.fieldVar("Conn", "vers")
	if versF == nil {
		r.Unknown("C13.3", name+":vers", "", "field Conn.vers not found")
		return
	}
	randF := c.fieldVar("serverHelloMsg", "random")
	if randF == nil {
		r.Unknown("C13.3", name+":random", "", "field serverHelloMsg.random not found")
		return
	}
	run := func(maxV, vers int64, tail string) (reachT map[string]bool, exitsErr bool, sawExit bool, decided int) {
		random := ""
		for i := 0; i < 24; i++ {
			random += "\xaa"
		}
		random += tail
		env := &scenario{info: info, objs: map[types.Object]constant.Value{},
			fields: map[*types.Var]constant.Value{versF: constant.MakeInt64(vers), randF: constant.MakeString(random)}}
		for o := range maxObjs {
			env.objs[o] = constant.MakeInt64(maxV)
		}
		blocked, d := env.prune(fn)
		decided = d
		reach := fn.ReachFromEntry(nil, blocked)
		reachT = map[string]bool{}
		for _, t := range targets {
			if reach[t.P] {
				reachT[tname(t)] = true
			}
		}
		exitsErr = true
		for _, pe := range pass {
			for p := range fn.Reach(an.Point{B: pe.B, I: len(pe.B.Nodes) - 1}, nil, mergeBlocked(blocked, edgesExcept(pe))) {
				if p.I < 0 {
					continue
				}
				if rs, ok := p.Node().(*ast.ReturnStmt); ok {
					sawExit = true
					if !returnsError(fn, rs) {
						exitsErr = false
					}
				}
			}
		}
		return
	}
	tails := []struct{ name, s string }{{"DOWNGRD01", "DOWNGRD\x01"}, {"DOWNGRD00", "DOWNGRD\x00"}}
	for _, vers := range []struct {
		name string
		v    int64
	}{{"tls12", v12}, {"tls11", v11}, {"tls10", v10}} {
		for _, tl := range tails {
			reachT, exitsErr, sawExit, _ := run(v13, vers.v, tl.s)
			cons := name + ":sentinel:" + vers.name + ":" + tl.name
			switch {
			case len(reachT) > 0:
				var l []string
				for k := range reachT {
					l = append(l, k)
				}
				r.Bad("C13.3", cons, c.Pos(fn.Decl), "with TLS 1.3 offered, a %s ServerHello whose random ends in %q still reaches %v: the downgrade sentinel is not rejected", vers.name, tl.s, l)
			case !sawExit || !exitsErr:
				r.Bad("C13.3", cons, c.Pos(fn.Decl), "with TLS 1.3 offered, a %s ServerHello whose random ends in %q does not end in an error return", vers.name, tl.s)
			default:
				r.Ok("C13.3", cons, c.Pos(fn.Decl), "rejected with an error before either state machine")
			}
		}
	}
	// validity of the evaluation: without a sentinel a TLS 1.2 ServerHello is accepted, and
	// the conditions were actually decided
	reachT, _, _, decided := run(v13, v12, "\xaa\xaa\xaa\xaa\xaa\xaa\xaa\xaa")
	if len(reachT) == 0 || decided < 2 {
		r.Unknown("C13.3", name+":sentinel:control", c.Pos(fn.Decl), "scenario evaluation does not reproduce acceptance of a TLS 1.2 ServerHello without sentinel (decided %d conditions)", decided)
	} else {
		r.Ok("C13.3", name+":sentinel:control", c.Pos(fn.Decl), "a TLS 1.2 ServerHello without sentinel reaches the state machine (%d conditions decided)", decided)
	}
}

func mergeBlocked(a, b map[an.Edge]bool) map[an.Edge]bool {
	out := map[an.Edge]bool{}
	for k, v := range a {
		out[k] = v
	}
	for k, v := range b {
		out[k] = v
	}
	return out
}
