package props

// Rules added after the second round of independently written breaking changes (seeded/)
// showed gaps in C23, C28, C33 and C35. Each rule names the change that motivated it, the clause
// it decides and why it is a necessary condition of the property. (The change aimed at C34,
// seeded C34-3, is answered in the bounds prover: disequality facts, bounded counters and
// synchronous builder continuations in panicreach_prove.go.)

import (
	"fmt"
	"go/ast"
	"go/token"
	"go/types"
	"sort"
	"strings"

	"verif/internal/an"
	"verif/internal/load"

	"golang.org/x/tools/go/ssa"
)

func init() {
	registerExtra("C23", c23CancelPair)
	registerExtra("C23", c23DeliveredSlotReset)
	registerExtra("C28", c28PlaintextFresh)
	registerExtra("C33", c33NonEmptyBeforeVerify)
	registerExtra("C33", c33HybridKeysPresent)
	registerExtra("C35", c35FreshAccumulators)
}

// ---- shared helpers -----------------------------------------------------------------------------

// localDefOf returns the defining expression of a local variable that has exactly one
// definition in fn and is never re-assigned, incremented, ranged over or address-taken.
// idx == -1: rhs is the value; idx >= 0: the variable is the idx-th result of the call rhs.
// zero reports a `var x T` declaration without a value.
func localDefOf(fn *an.Fn, o types.Object) (rhs ast.Expr, idx int, zero, ok bool) {
	if _, isVar := o.(*types.Var); !isVar {
		return nil, 0, false, false
	}
	info := fn.Info
	n := 0
	an.Inner(fn.Body, func(x ast.Node) bool {
		switch s := x.(type) {
		case *ast.AssignStmt:
			for i, l := range s.Lhs {
				li, isId := l.(*ast.Ident)
				if !isId || objOf(info, li) != o {
					continue
				}
				n++
				switch {
				case s.Tok != token.DEFINE && s.Tok != token.ASSIGN:
					n++
				case len(s.Rhs) == len(s.Lhs):
					rhs, idx = s.Rhs[i], -1
				case len(s.Rhs) == 1:
					rhs, idx = s.Rhs[0], i
				default:
					n++
				}
			}
		case *ast.ValueSpec:
			for i, nm := range s.Names {
				if objOf(info, nm) != o {
					continue
				}
				n++
				switch {
				case len(s.Values) == 0:
					zero = true
				case len(s.Values) == len(s.Names):
					rhs, idx = s.Values[i], -1
				case len(s.Values) == 1:
					rhs, idx = s.Values[0], i
				}
			}
		case *ast.IncDecStmt:
			if li, isId := an.Unparen(s.X).(*ast.Ident); isId && objOf(info, li) == o {
				n += 2
			}
		case *ast.UnaryExpr:
			if s.Op == token.AND {
				if li, isId := an.Unparen(s.X).(*ast.Ident); isId && objOf(info, li) == o {
					n += 2
				}
			}
		case *ast.RangeStmt:
			for _, kv := range []ast.Expr{s.Key, s.Value} {
				if li, isId := kv.(*ast.Ident); isId && objOf(info, li) == o {
					n += 2
				}
			}
		}
		return true
	})
	if n != 1 {
		return nil, 0, false, false
	}
	return rhs, idx, zero, true
}

// accessKey renders an access path (x, x.f, x.f[i], *x) with its root resolved to the object
// and single-definition locals read through, so that two spellings of the same path compare
// equal and two different variables of the same name do not.
func accessKey(fn *an.Fn, e ast.Expr) string {
	e = an.Unparen(e)
	switch x := e.(type) {
	case *ast.Ident:
		if d := inlineLocal(fn, x); d != ast.Expr(x) {
			pure := true
			ast.Inspect(d, func(n ast.Node) bool {
				switch n.(type) {
				case *ast.CallExpr, *ast.CompositeLit, *ast.FuncLit, *ast.TypeAssertExpr, *ast.SliceExpr:
					pure = false
				}
				return pure
			})
			if pure {
				return accessKey(fn, d)
			}
		}
		if o := objOf(fn.Info, x); o != nil {
			return fmt.Sprintf("%s@%d", o.Name(), o.Pos())
		}
		return x.Name
	case *ast.SelectorExpr:
		return accessKey(fn, x.X) + "." + x.Sel.Name
	case *ast.StarExpr:
		return accessKey(fn, x.X)
	case *ast.IndexExpr:
		return accessKey(fn, x.X) + "[" + accessKey(fn, x.Index) + "]"
	case *ast.BasicLit:
		return x.Value
	case *ast.BinaryExpr:
		return "(" + accessKey(fn, x.X) + x.Op.String() + accessKey(fn, x.Y) + ")"
	}
	return "?" + an.Str(e)
}

// keyPrefix: a is the path b or a prefix of it (assigning a changes b).
func keyPrefix(a, b string) bool {
	return a == b || strings.HasPrefix(b, a+".") || strings.HasPrefix(b, a+"[")
}

// reassignedAfter reports the first assignment to the path key (or a prefix of it) from which
// target is reachable without taking one of the pass edges again: the value that was tested is
// no longer the value that is used.
func reassignedAfter(fn *an.Fn, key string, pass []an.Edge, target an.Point) (string, bool) {
	blocked := map[an.Edge]bool{}
	for _, e := range pass {
		blocked[e] = true
	}
	for _, h := range fn.FindNodes(func(n ast.Node) bool {
		switch s := n.(type) {
		case *ast.AssignStmt:
			for _, l := range s.Lhs {
				if keyPrefix(accessKey(fn, l), key) {
					return true
				}
			}
		case *ast.IncDecStmt:
			return keyPrefix(accessKey(fn, s.X), key)
		}
		return false
	}) {
		if h.P == target {
			continue
		}
		if fn.Reach(h.P, nil, blocked)[target] {
			return an.Str(h.N), true
		}
	}
	return "", false
}

// nilCmp classifies `x == nil` / `x != nil` (either operand order): the tested operand and
// whether the true outcome means non-nil.
func nilCmp(info *types.Info, cond ast.Expr) (x ast.Expr, nonNilOnTrue, ok bool) {
	be, isB := an.Unparen(cond).(*ast.BinaryExpr)
	if !isB || (be.Op != token.EQL && be.Op != token.NEQ) {
		return nil, false, false
	}
	switch {
	case an.IsNilIdent(info, be.Y):
		x = be.X
	case an.IsNilIdent(info, be.X):
		x = be.Y
	default:
		return nil, false, false
	}
	return an.Unparen(x), be.Op == token.NEQ, true
}

// lenTest classifies a comparison of len(x) with a constant that decides whether x is empty:
// the operand of len and whether the true outcome means non-empty.
func lenTest(info *types.Info, cond ast.Expr) (x ast.Expr, nonEmptyOnTrue, ok bool) {
	be, isB := an.Unparen(cond).(*ast.BinaryExpr)
	if !isB {
		return nil, false, false
	}
	lenArg := func(e ast.Expr) ast.Expr {
		call, isC := an.Unparen(e).(*ast.CallExpr)
		if !isC || len(call.Args) != 1 {
			return nil
		}
		id, isId := an.Unparen(call.Fun).(*ast.Ident)
		if !isId {
			return nil
		}
		if b, isB := info.Uses[id].(*types.Builtin); !isB || b.Name() != "len" {
			return nil
		}
		return call.Args[0]
	}
	l, r, op := be.X, be.Y, be.Op
	if lenArg(l) == nil && lenArg(r) != nil {
		l, r, op = r, l, flipCmp(op)
	}
	x = lenArg(l)
	k, isConst := an.ConstInt(info, r)
	if x == nil || !isConst || k < 0 {
		return nil, false, false
	}
	switch op {
	case token.EQL: // len == 0: empty on true ; len == k>0: non-empty on true
		if k == 0 {
			return x, false, true
		}
		return x, true, true
	case token.NEQ:
		if k == 0 {
			return x, true, true
		}
	case token.GTR: // len > k
		return x, true, true
	case token.GEQ: // len >= k
		if k >= 1 {
			return x, true, true
		}
	case token.LSS: // len < k: false means len >= k
		if k >= 1 {
			return x, false, true
		}
	case token.LEQ: // len <= k: false means len > k
		return x, false, true
	}
	return nil, false, false
}

func flipCmp(op token.Token) token.Token {
	switch op {
	case token.LSS:
		return token.GTR
	case token.GTR:
		return token.LSS
	case token.LEQ:
		return token.GEQ
	case token.GEQ:
		return token.LEQ
	}
	return op
}

func pointsOfHits(hs []an.Hit) []an.Point {
	var out []an.Point
	for _, h := range hs {
		out = append(out, h.P)
	}
	return out
}

// ---- C23.10 (seeded C23-3): Close can stop the handshake it is waiting for ---------------------

// c23CancelPair decides, for the clause "Start, HandleData and Close always return": the
// handshake goroutine parks in quicWaitForSignal on a select over quic.cancelc, and
// UQUICConn.Close calls quic.cancel() and then waits for blockedc to be closed, which only
// happens when that goroutine returns. So the channel stored in quic.cancelc must be closed by
// the function stored in quic.cancel: cancelc = X.Done() and cancel = the CancelFunc of the
// *same* context.WithCancel/WithTimeout/WithDeadline call that produced X. Necessary: with any
// other channel (the caller's ctx.Done(), a sibling context) Close on an unfinished handshake
// waits forever unless the caller's own context happens to be cancelled. Motivated by seeded
// C23-3 (cancelc = ctx.Done()); the synchronisation skeleton of C23.2/C26.1 records the store
// to quicState.cancelc but not which channel is stored.
func c23CancelPair(c *Ctx) {
	r := c.R
	info := c.Info()
	isField := func(name string) func(ast.Expr) bool {
		return func(e ast.Expr) bool { return an.FieldSel(info, an.Unparen(e), "quicState", name) }
	}
	ctxMaker := func(e ast.Expr) *ast.CallExpr {
		call, ok := an.Unparen(e).(*ast.CallExpr)
		if !ok {
			return nil
		}
		f, _ := an.Callee(info, call).(*types.Func)
		if f == nil || f.Pkg() == nil || f.Pkg().Path() != "context" {
			return nil
		}
		switch f.Name() {
		case "WithCancel", "WithTimeout", "WithDeadline", "WithCancelCause", "WithTimeoutCause", "WithDeadlineCause":
			return call
		}
		return nil
	}
	n := 0
	for _, fd := range load.AllFuncDecls(c.P.TLS) {
		if fd.Body == nil || !(an.MentionsField(info, fd.Body, "quicState", "cancelc") || an.MentionsField(info, fd.Body, "quicState", "cancel")) {
			continue
		}
		fn := an.NewFn(c.P.TLS, fd)
		chanStores := fn.FindNodes(an.AssignsTo(isField("cancelc")))
		funcStores := fn.FindNodes(an.AssignsTo(isField("cancel")))
		if len(chanStores)+len(funcStores) == 0 {
			continue
		}
		who := fd.Name.Name
		if rn := load.RecvName(fd); rn != "" {
			who = rn + "." + who
		}
		reference := load.RecvName(fd) == "Conn" // the original: a failure means the rule misreads the protocol
		verdict := func(ok bool, cons, pos, good, bad string) {
			n++
			switch {
			case ok:
				r.Ok("C23.10", cons, pos, "%s", good)
			case reference:
				r.Unknown("C23.10", cons, pos, "the original does not satisfy the rule derived from it (%s)", bad)
			default:
				r.Bad("C23.10", cons, pos, "%s", bad)
			}
		}
		rhsOf := func(as *ast.AssignStmt, pred func(ast.Expr) bool) ast.Expr {
			if len(as.Lhs) != len(as.Rhs) {
				return nil
			}
			for i, l := range as.Lhs {
				if pred(l) {
					return as.Rhs[i]
				}
			}
			return nil
		}
		// the context-creating call behind a value: result #want of a single-definition local
		makerOf := func(e ast.Expr, want int) (*ast.CallExpr, string) {
			e = an.Unparen(e)
			id, ok := e.(*ast.Ident)
			if !ok {
				return nil, an.Str(e) + " is not a local bound to a context.With… result"
			}
			if _, isParam := paramIndex(fd, info, objOf(info, id)); isParam {
				return nil, id.Name + " is a parameter (the caller's context), not a context created by context.With… in this function"
			}
			rhs, idx, _, ok := localDefOf(fn, objOf(info, id))
			if !ok || rhs == nil {
				return nil, id.Name + " is not defined exactly once in this function"
			}
			if idx == -1 {
				// an alias of another local
				if id2, isId := an.Unparen(rhs).(*ast.Ident); isId && objOf(info, id2) != objOf(info, id) {
					rhs2, idx2, _, ok2 := localDefOf(fn, objOf(info, id2))
					if ok2 {
						rhs, idx = rhs2, idx2
					}
				}
			}
			mk := ctxMaker(rhs)
			if mk == nil || idx != want {
				return nil, id.Name + " is not result #" + lsItoa(want) + " of a context.WithCancel/WithTimeout/WithDeadline call"
			}
			return mk, ""
		}
		var doneOf []*ast.CallExpr
		for _, h := range chanStores {
			as, isAs := h.N.(*ast.AssignStmt)
			cons := who + ":cancelc"
			if !isAs {
				verdict(false, cons, c.Pos(h.N), "", "quic.cancelc is modified by something other than an assignment")
				continue
			}
			rhs := rhsOf(as, isField("cancelc"))
			if rhs == nil {
				verdict(false, cons, c.Pos(as), "", "quic.cancelc is assigned from a multi-value expression")
				continue
			}
			d := an.Unparen(inlineLocal(fn, rhs))
			call, isCall := d.(*ast.CallExpr)
			var recv ast.Expr
			if isCall {
				if f, _ := an.Callee(info, call).(*types.Func); f != nil && f.Name() == "Done" && f.Pkg() != nil && f.Pkg().Path() == "context" {
					if se, isSel := an.Unparen(call.Fun).(*ast.SelectorExpr); isSel {
						recv = se.X
					}
				}
			}
			if recv == nil {
				verdict(false, cons, c.Pos(as), "", "quic.cancelc is set to "+an.Str(rhs)+", which is not the Done channel of a context: quic.cancel() cannot be shown to close it, so UQUICConn.Close waits forever on an unfinished handshake")
				continue
			}
			mk, why := makerOf(recv, 0)
			if mk == nil {
				verdict(false, cons, c.Pos(as), "", "quic.cancelc is the Done channel of "+an.Str(recv)+", but "+why+": the CancelFunc stored in quic.cancel does not close it, so UQUICConn.Close (cancel, then wait for blockedc) never unblocks the handshake goroutine parked in quicWaitForSignal unless the caller's own context is cancelled")
				continue
			}
			doneOf = append(doneOf, mk)
			verdict(true, cons, c.Pos(as), "quic.cancelc is the Done channel of the context created by "+an.Str(mk.Fun)+" in this function", "")
		}
		for _, h := range funcStores {
			as, isAs := h.N.(*ast.AssignStmt)
			cons := who + ":cancel"
			if !isAs {
				verdict(false, cons, c.Pos(h.N), "", "quic.cancel is modified by something other than an assignment")
				continue
			}
			rhs := rhsOf(as, isField("cancel"))
			if rhs == nil {
				verdict(false, cons, c.Pos(as), "", "quic.cancel is assigned from a multi-value expression")
				continue
			}
			if an.IsNilIdent(info, rhs) {
				continue // resetting the hook is not a store of a cancel function
			}
			// a wrapper literal that calls the CancelFunc counts as that CancelFunc
			var cands []ast.Expr
			if fl, isLit := an.Unparen(inlineLocal(fn, rhs)).(*ast.FuncLit); isLit {
				ast.Inspect(fl.Body, func(x ast.Node) bool {
					if call, ok := x.(*ast.CallExpr); ok && len(call.Args) == 0 {
						cands = append(cands, call.Fun)
					}
					return true
				})
			} else {
				cands = []ast.Expr{rhs}
			}
			var mk *ast.CallExpr
			why := "no call of a CancelFunc"
			for _, cand := range cands {
				if m, w := makerOf(cand, 1); m != nil {
					mk = m
				} else {
					why = w
				}
			}
			switch {
			case mk == nil:
				verdict(false, cons, c.Pos(as), "", "quic.cancel is set to "+an.Str(rhs)+": "+why)
			case len(doneOf) == 0:
				verdict(false, cons, c.Pos(as), "", "quic.cancel is stored but quic.cancelc is not set to the Done channel of the same context in this function")
			default:
				same := true
				for _, d := range doneOf {
					if d != mk {
						same = false
					}
				}
				verdict(same, cons, c.Pos(as), "quic.cancel is the CancelFunc returned by the same "+an.Str(mk.Fun)+" call whose context's Done channel is quic.cancelc",
					"quic.cancel cancels the context created at "+c.Pos(mk)+", but quic.cancelc is the Done channel of a different context: UQUICConn.Close cancels one context and the handshake goroutine waits on the other")
			}
		}
		if len(chanStores) > 0 && len(funcStores) == 0 {
			verdict(false, who+":cancel", c.Pos(fd), "", "quic.cancelc is set but quic.cancel is not: UQUICConn.Close returns as if the handshake had never been started while the goroutine keeps running")
		}
	}
	if n == 0 {
		r.Unknown("C23.10", "handshakeContext:cancel-pair", "", "no function stores quicState.cancelc / quicState.cancel")
	}
	r.Floor("C23.10", 4)
}

// ---- C23.11 (seeded C23-4): a delivered event slot is reset ------------------------------------

// c23DeliveredSlotReset decides, for the clause "a UQUICConn paired with a QUIC server completes
// the handshake via Start/HandleData/NextEvent": quicWriteCryptoData appends CRYPTO bytes to
// the *last* slot of quic.events when that slot's Kind is QUICWriteData at the same level. A
// slot NextEvent has already handed out must therefore not keep its Kind: between reading the
// slot it returns and returning, NextEvent must overwrite the Kind of that slot (the whole
// element with the zero QUICEvent, or .Kind with QUICNoEvent). Necessary: if Kind/Level survive,
// a second flight at the same level (the ClientHello after a HelloRetryRequest) written before
// the caller drained the queue is appended to the delivered slot and never handed out; the
// handshake stalls. Motivated by seeded C23-4 (only .Data cleared). NextEvent is not paired by
// the sibling engine (C23.3 judges its waitingForDrain part), so this is a direct rule; the
// upstream QUICConn.NextEvent is checked by the same rule as the reference.
func c23DeliveredSlotReset(c *Ctx) {
	r := c.R
	info := c.Info()
	for _, recv := range []string{"UQUICConn", "QUICConn"} {
		fn := c.Fn("C23.11", recv, "NextEvent")
		if fn == nil {
			continue
		}
		reference := recv == "QUICConn"
		cons := recv + ".NextEvent:delivered-slot-reset"
		bad := func(pos, format string, a ...any) {
			if reference {
				r.Unknown("C23.11", cons, pos, "the original does not satisfy the rule derived from it (%s)", fmt.Sprintf(format, a...))
			} else {
				r.Bad("C23.11", cons, pos, format, a...)
			}
		}
		// slot recognises events[idx] (events reached through a field selection or a local alias)
		slot := func(e ast.Expr) (ast.Expr, bool) {
			ie, ok := an.Unparen(e).(*ast.IndexExpr)
			if !ok {
				return nil, false
			}
			x := an.Unparen(ie.X)
			if !an.FieldSel(info, x, "quicState", "events") {
				x = an.Unparen(inlineLocal(fn, x))
			}
			if !an.FieldSel(info, x, "quicState", "events") {
				return nil, false
			}
			return ie.Index, true
		}
		isZeroEvent := func(e ast.Expr) bool {
			e = an.Unparen(e)
			if cl, ok := e.(*ast.CompositeLit); ok {
				return an.TypeName(info.TypeOf(cl)) == "QUICEvent" && len(cl.Elts) == 0
			}
			if id, ok := e.(*ast.Ident); ok {
				if _, _, zero, ok := localDefOf(fn, objOf(info, id)); ok && zero {
					return true
				}
			}
			if st, ok := e.(*ast.StarExpr); ok { // *new(QUICEvent)
				if call, ok := an.Unparen(st.X).(*ast.CallExpr); ok && len(call.Args) == 1 {
					if id, ok := an.Unparen(call.Fun).(*ast.Ident); ok {
						if b, isB := info.Uses[id].(*types.Builtin); isB && b.Name() == "new" {
							return true
						}
					}
				}
			}
			return false
		}
		// stores that overwrite the Kind of a slot
		type kstore struct {
			p    an.Point
			idx  string
			zero bool
			n    ast.Node
		}
		var stores []kstore
		for _, h := range fn.FindNodes(func(n ast.Node) bool { _, ok := n.(*ast.AssignStmt); return ok }) {
			as := h.N.(*ast.AssignStmt)
			for i, l := range as.Lhs {
				var rhs ast.Expr
				if len(as.Rhs) == len(as.Lhs) {
					rhs = as.Rhs[i]
				}
				if idx, ok := slot(l); ok {
					stores = append(stores, kstore{h.P, accessKey(fn, idx), as.Tok == token.ASSIGN && rhs != nil && isZeroEvent(rhs), as})
					continue
				}
				if se, ok := an.Unparen(l).(*ast.SelectorExpr); ok && an.FieldSel(info, se, "QUICEvent", "Kind") {
					if idx, ok := slot(se.X); ok {
						z := false
						if rhs != nil {
							if v, isC := an.ConstInt(info, rhs); isC && v == 0 {
								z = true
							}
						}
						stores = append(stores, kstore{h.P, accessKey(fn, idx), z, as})
					}
				}
			}
		}
		moves := fn.Find(an.AssignsTo(func(e ast.Expr) bool { return an.FieldSel(info, an.Unparen(e), "quicState", "nextEvent") }))
		delivered := 0
		for _, ret := range fn.Returns() {
			rs := ret.Node().(*ast.ReturnStmt)
			if len(rs.Results) != 1 {
				continue
			}
			res := an.Unparen(rs.Results[0])
			if _, isLit := res.(*ast.CompositeLit); isLit {
				continue // the "no event" answer
			}
			d := an.Unparen(inlineLocal(fn, res))
			if _, isLit := d.(*ast.CompositeLit); isLit {
				continue
			}
			idx, ok := slot(d)
			if !ok {
				r.Unknown("C23.11", cons, c.PosP(ret), "returned value %s is not recognised as an element of quic.events", an.Str(res))
				continue
			}
			delivered++
			idxKey := accessKey(fn, idx)
			read := ret
			if res != d {
				if p, ok := fn.PointOf(d); ok {
					read = p
				}
			}
			if read == ret {
				bad(c.PosP(ret), "the event is returned straight from quic.events[%s]: nothing can reset the slot afterwards, so its Kind/Level stay in the queue and quicWriteCryptoData appends the next CRYPTO data of that level to an event the caller has already consumed", an.Str(idx))
				continue
			}
			var all, good []an.Point
			for _, s := range stores {
				all = append(all, s.p)
				if !s.zero || s.idx != idxKey {
					continue
				}
				// the index still names the delivered slot: nextEvent is not moved between the read and the store
				moved := false
				for _, m := range moves {
					if fn.Reach(read, nil, nil)[m] && fn.Reach(m, nil, nil)[s.p] && m != s.p {
						moved = true
					}
				}
				if !moved {
					good = append(good, s.p)
				}
			}
			switch {
			case len(good) > 0 && fn.MustPassFrom(read, ret, good, nil):
				r.Ok("C23.11", cons, c.PosP(ret), "the slot that is handed out is overwritten with the zero event (Kind = QUICNoEvent) on every path from the read to the return")
			case len(all) == 0 || !fn.MustPassFrom(read, ret, all, nil):
				bad(c.PosP(ret), "the delivered slot quic.events[%s] keeps its Kind and Level (no store overwrites the element or its Kind on every path from the read to the return): quicWriteCryptoData then appends the next CRYPTO data of the same level to this already delivered event instead of queueing a new one, so that flight (the second ClientHello after a HelloRetryRequest) is never handed out and the handshake stalls", an.Str(idx))
			default:
				r.Unknown("C23.11", cons, c.PosP(ret), "the delivered slot is overwritten, but not recognisably with the zero event at index %s", an.Str(idx))
			}
		}
		if delivered == 0 {
			r.Unknown("C23.11", cons, c.Pos(fn.Decl), "no return delivering an element of quic.events found")
		}
	}
	r.Floor("C23.11", 2)
}

// ---- C28.6 (seeded C28-4): the sealed plaintext is a buffer of this call ------------------------

// c28PlaintextFresh decides, for the clause "GetOutKeystream(n) returns the keystream": the
// bytes returned are Seal(zeros); they are the keystream only if every byte of the plaintext is
// zero. Every value that can reach Seal's plaintext argument (through phis, re-slicings and
// conversions) must therefore be allocated by this call (make, or a local array), never memory
// reachable from the connection: halfConn.encrypt and the MAC code build per-record data in
// the half connection's scratch buffer, so such memory holds the additional data of the last
// record, not zeros (and reading it races with a concurrent Write). Necessary: with a
// connection buffer as plaintext the result is keystream XOR stale bytes for the lengths that
// take that branch. C28.2 only recognises the single make() form and is undecided otherwise;
// this rule decides the provenance. Motivated by seeded C28-4 (out.scratchBuf for n <= 13).
func c28PlaintextFresh(c *Ctx) {
	r := c.R
	f := c.ssaFunc("C28.6", "UConn", "GetOutKeystream")
	if f == nil {
		return
	}
	info := c.Info()
	seals := sealCalls(f)
	if len(seals) == 0 {
		r.Unknown("C28.6", "GetOutKeystream:plaintext-fresh", c.P.Pos(f.Pos()), "no Seal call found")
	}
	for _, seal := range seals {
		pos := c.ipos(seal)
		cons := "GetOutKeystream:plaintext-fresh"
		seen := map[ssa.Value]bool{}
		work := []ssa.Value{seal.Call.Args[2]}
		var fresh, shared, unknown []string
		for len(work) > 0 {
			v := work[len(work)-1]
			work = work[:len(work)-1]
			if v == nil || seen[v] {
				continue
			}
			seen[v] = true
			switch x := v.(type) {
			case *ssa.Phi:
				work = append(work, x.Edges...)
			case *ssa.Slice:
				work = append(work, x.X)
			case *ssa.ChangeType:
				work = append(work, x.X)
			case *ssa.Convert:
				work = append(work, x.X)
			case *ssa.MakeSlice:
				fresh = append(fresh, "make at "+c.ipos(x))
			case *ssa.Alloc:
				fresh = append(fresh, "local array at "+c.ipos(x))
			case *ssa.Const:
				if x.IsNil() {
					fresh = append(fresh, "nil")
				} else {
					unknown = append(unknown, x.String())
				}
			default:
				root, p := addrPath(v)
				conn := root == ssa.Value(f.Params[0]) && len(fieldsOf(p)) > 0
				for _, step := range fieldsOf(p) {
					switch strings.SplitN(step, ".", 2)[0] {
					case "halfConn", "Conn", "UConn":
						conn = true
					}
				}
				if conn {
					fs := fieldsOf(p)
					last := fs[len(fs)-1]
					shared = append(shared, pathString(fs)+c28OtherUsers(c, info, last))
				} else {
					unknown = append(unknown, describeValue(v))
				}
			}
		}
		sort.Strings(shared)
		switch {
		case len(shared) > 0:
			r.Bad("C28.6", cons, pos, "the plaintext that is sealed to obtain the keystream can be %s: memory of the connection, not a zero buffer allocated for this call, so the bytes returned are keystream XOR whatever the connection last left there (and the read races with a concurrent Write)", strings.Join(shared, "; "))
		case len(unknown) > 0:
			r.Unknown("C28.6", cons, pos, "a source of the plaintext is not recognised as allocated by this call: %s", strings.Join(unknown, "; "))
		case len(fresh) > 0:
			r.Ok("C28.6", cons, pos, "every source of Seal's plaintext is allocated by this call (%s)", strings.Join(fresh, ", "))
		default:
			r.Unknown("C28.6", cons, pos, "no source of the plaintext found")
		}
	}
	r.Floor("C28.6", 1)
}

// c28OtherUsers names the functions (other than GetOutKeystream) that use the field Owner.name.
func c28OtherUsers(c *Ctx, info *types.Info, step string) string {
	parts := strings.SplitN(step, ".", 2)
	if len(parts) != 2 {
		return ""
	}
	var users []string
	for _, fd := range load.AllFuncDecls(c.P.TLS) {
		if fd.Body == nil || fd.Name.Name == "GetOutKeystream" {
			continue
		}
		if an.MentionsField(info, fd.Body, parts[0], parts[1]) {
			n := fd.Name.Name
			if rn := load.RecvName(fd); rn != "" {
				n = rn + "." + n
			}
			users = append(users, n)
		}
	}
	if len(users) == 0 {
		return ""
	}
	sort.Strings(users)
	if len(users) > 4 {
		users = append(users[:4], "…")
	}
	return " (also used by " + strings.Join(users, ", ") + ")"
}

// ---- C33.10 (seeded C33-3): verifyServerCertificate is only called with a non-empty list -------

// c33NonEmptyBeforeVerify decides, for the clause "whatever the server sends, including compressed
// certificates, Handshake never panics": verifyServerCertificate indexes certs[0] / certs[1:]
// (the sites bounds_baseline.json lists as resting on "both callers reject empty lists"). That
// invariant is checked here: every call of (*Conn).verifyServerCertificate(x) is preceded on
// every path by a test of len(x) whose outcome on the path implies x is non-empty, the other
// outcome leaves the function with an error, and x is not re-assigned in between. Necessary: on
// a path without the test a Certificate (or decompressed CompressedCertificate) message with
// an empty certificate_list reaches certs[0] and the client panics. Motivated by seeded C33-3
// (the test folded into the "not compressed" branch).
func c33NonEmptyBeforeVerify(c *Ctx) {
	r := c.R
	info := c.Info()
	n := 0
	for _, fd := range load.AllFuncDecls(c.P.TLS) {
		if fd.Body == nil || !an.Contains(fd.Body, an.CallTo(info, Mod, "Conn", "verifyServerCertificate")) {
			continue
		}
		fn := an.NewFn(c.P.TLS, fd)
		who := fd.Name.Name
		if rn := load.RecvName(fd); rn != "" {
			who = rn + "." + who
		}
		ord := 0
		for _, h := range fn.FindNodes(an.CallTo(info, Mod, "Conn", "verifyServerCertificate")) {
			call := h.N.(*ast.CallExpr)
			ord++
			n++
			cons := who + ":verifyServerCertificate#" + lsItoa(ord)
			if len(call.Args) != 1 {
				r.Unknown("C33.10", cons, c.Pos(call), "unexpected argument count")
				continue
			}
			key := accessKey(fn, call.Args[0])
			pass, fail, _ := condEdges(fn, func(cond ast.Expr) (bool, bool) {
				x, nonEmptyOnTrue, ok := lenTest(info, cond)
				if !ok || accessKey(fn, x) != key {
					return false, false
				}
				return true, nonEmptyOnTrue
			})
			if len(pass) == 0 || !fn.MustPass(h.P, nil, pass) {
				r.Bad("C33.10", cons, c.Pos(call), "verifyServerCertificate(%s) is reachable on a path that never tested the list for emptiness: verifyServerCertificate indexes certs[0], so a Certificate (or decompressed CompressedCertificate) message with an empty certificate_list makes the client panic instead of failing the handshake", an.Str(call.Args[0]))
				continue
			}
			if what, stale := reassignedAfter(fn, key, pass, h.P); stale {
				r.Unknown("C33.10", cons, c.Pos(call), "the list is tested for emptiness but assigned again (%s) before the call", what)
				continue
			}
			okExit, why := true, ""
			for _, fe := range fail {
				if !fn.Reach(an.Point{B: fe.B, I: len(fe.B.Nodes) - 1}, nil, nil)[h.P] {
					continue // a test that cannot lead to this call
				}
				if ok, w := failEdgeExits(fn, fe, nil); !ok {
					// the empty outcome may rejoin only if it cannot reach the call (it must pass another test)
					if fn.Reach(an.Point{B: fe.B, I: len(fe.B.Nodes) - 1}, nil, edgesExcept(fe))[h.P] {
						okExit, why = false, w
					}
				}
			}
			_ = why
			r.Check(okExit, "C33.10", cons, c.Pos(call), "every path to the call passed a test showing "+an.Str(call.Args[0])+" non-empty; the empty outcome leaves with an error",
				"the emptiness test of "+an.Str(call.Args[0])+" does not abort the handshake on the empty outcome, which still reaches verifyServerCertificate (certs[0] panics)")
		}
	}
	if n == 0 {
		r.Unknown("C33.10", "verifyServerCertificate:callers", "", "no call of (*Conn).verifyServerCertificate found")
	}
	r.Floor("C33.10", 2)
}

// ---- C33.11 (seeded C33-4): hybrid private keys are used only once known to be present ----------

// c33HybridKeysPresent decides, for the clause "whatever the server sends, Handshake never panics":
// keySharePrivateKeys.mlkem and .mlkemEcdhe are both nil when the spec's hybrid key share carries
// user-supplied Data (ApplyPreset then retains no private key for it; the two are only ever
// set together), and the server is free to select that group. In establishHandshakeKeys every
// use of either field (method call, argument, dereference) must therefore be dominated by the
// non-nil outcome of a nil test of hs.keyShareKeys.mlkem (the presence test of the pair) or of
// the used field itself, whose nil outcome leaves with an error. Necessary: a use above or
// beside the test calls getSharedKey / Decapsulate on a nil key and panics on that server
// choice. Motivated by seeded C33-4 (the guard moved below the uTLS block that uses mlkemEcdhe).
func c33HybridKeysPresent(c *Ctx) {
	r := c.R
	info := c.Info()
	fn := c.Fn("C33.11", "clientHandshakeStateTLS13", "establishHandshakeKeys")
	if fn == nil {
		return
	}
	fields := []string{"mlkem", "mlkemEcdhe"}
	fieldOf := func(e ast.Expr) string {
		for _, f := range fields {
			if an.FieldSel(info, an.Unparen(e), "keySharePrivateKeys", f) {
				return f
			}
		}
		return ""
	}
	// selections that are only compared with nil, or assigned to, are not uses
	notUse := map[ast.Node]bool{}
	ast.Inspect(fn.Body, func(x ast.Node) bool {
		switch s := x.(type) {
		case *ast.BinaryExpr:
			if y, _, ok := nilCmp(info, s); ok && fieldOf(y) != "" {
				notUse[y] = true
			}
		case *ast.AssignStmt:
			for _, l := range s.Lhs {
				if fieldOf(l) != "" {
					notUse[an.Unparen(l)] = true
				}
			}
		}
		return true
	})
	ord := map[string]int{}
	n := 0
	for _, h := range fn.FindNodes(func(x ast.Node) bool {
		e, ok := x.(ast.Expr)
		return ok && fieldOf(e) != "" && !notUse[x]
	}) {
		se := h.N.(*ast.SelectorExpr)
		f := fieldOf(se)
		ord[f]++
		n++
		cons := "establishHandshakeKeys:" + f + "#" + lsItoa(ord[f])
		base := accessKey(fn, se.X)
		pass, fail, _ := condEdges(fn, func(cond ast.Expr) (bool, bool) {
			y, nonNilOnTrue, ok := nilCmp(info, cond)
			if !ok {
				return false, false
			}
			tf := fieldOf(y)
			if tf != "mlkem" && tf != f {
				return false, false
			}
			if accessKey(fn, y.(*ast.SelectorExpr).X) != base {
				return false, false
			}
			return true, nonNilOnTrue
		})
		if len(pass) == 0 || !fn.MustPass(h.P, nil, pass) {
			r.Bad("C33.11", cons, c.Pos(se), "%s is used on a path that has not tested the hybrid private key for nil: when the spec's hybrid key share carries user-supplied Data no private key is retained, the server may still select the group, and this use (getSharedKey / Decapsulate on a nil key) panics instead of failing the handshake", an.Str(se))
			continue
		}
		if what, stale := reassignedAfter(fn, base, pass, h.P); stale {
			r.Unknown("C33.11", cons, c.Pos(se), "the key store is assigned again (%s) between the nil test and this use", what)
			continue
		}
		okExit := true
		for _, fe := range fail {
			from := an.Point{B: fe.B, I: len(fe.B.Nodes) - 1}
			if ok, _ := failEdgeExits(fn, fe, nil); !ok && fn.Reach(from, nil, edgesExcept(fe))[h.P] {
				okExit = false
			}
		}
		r.Check(okExit, "C33.11", cons, c.Pos(se), "dominated by the non-nil outcome of the hybrid key's nil test; the nil outcome leaves with an error",
			"the nil outcome of the hybrid key's test does not leave the function and still reaches this use of "+an.Str(se))
	}
	if n == 0 {
		r.Unknown("C33.11", "establishHandshakeKeys:hybrid-keys", c.Pos(fn.Decl), "no use of keySharePrivateKeys.mlkem / .mlkemEcdhe found")
	}
	r.Floor("C33.11", 4)
}

// ---- C35.7 (seeded C35-3): slices built by append start on their own backing array -------------

// c35FreshAccumulators decides, for the clause "DecryptTicket(EncryptTicket(state)) yields a state
// equal to the original": in the session (de)serialisation code a local slice that is grown with
// x = append(x, …) must start from a backing array of its own — nil / var, make, a literal, a
// clone, or a three-index slice whose capacity ends at its length — and never from a plain
// sub-slice s[:k] of another slice. Necessary: append writes into the spare capacity of the
// array it was given, so an accumulator started as state.f[:k] overwrites state.f[k], and two
// accumulators started from the same prefix overwrite each other; the parsed state then
// differs from the encoded one whenever the lists differ beyond the shared prefix. Motivated by
// seeded C35-3 (every verified chain built on peerCertificates[:1]); compare the insertion-alias
// rule C02.7/C05.5/C17.9.
func c35FreshAccumulators(c *Ctx) {
	r := c.R
	tls := c.P.TLS
	info := tls.TypesInfo
	// the session codec: the file(s) declaring ParseSessionState and (*SessionState).Bytes
	files := map[string]bool{}
	for _, spec := range [][2]string{{"", "ParseSessionState"}, {"SessionState", "Bytes"}} {
		if fd := load.FuncDecl(tls, spec[0], spec[1]); fd != nil {
			files[c.P.Fset.Position(fd.Pos()).Filename] = true
		} else {
			r.Unknown("C35.7", "anchor:"+spec[1], "", "anchor function %s not found", spec[1])
		}
	}
	n := 0
	for _, fd := range load.AllFuncDecls(tls) {
		if fd.Body == nil || !files[c.P.Fset.Position(fd.Pos()).Filename] {
			continue
		}
		fn := an.NewFn(tls, fd)
		who := fd.Name.Name
		if rn := load.RecvName(fd); rn != "" {
			who = rn + "." + who
		}
		// accumulators: locals with a self-append
		type acc struct {
			o    types.Object
			name string
		}
		var accs []acc
		seen := map[types.Object]bool{}
		selfAppend := func(as *ast.AssignStmt, i int) types.Object {
			if len(as.Lhs) != len(as.Rhs) {
				return nil
			}
			id, ok := an.Unparen(as.Lhs[i]).(*ast.Ident)
			if !ok {
				return nil
			}
			call, ok := an.Unparen(as.Rhs[i]).(*ast.CallExpr)
			if !ok || !isAppend(info, call) || len(call.Args) == 0 {
				return nil
			}
			a0, ok := an.Unparen(call.Args[0]).(*ast.Ident)
			if !ok || objOf(info, a0) == nil || objOf(info, a0) != objOf(info, id) {
				return nil
			}
			if v, isVar := objOf(info, id).(*types.Var); !isVar || v.IsField() || v.Parent() == tls.Types.Scope() {
				return nil
			}
			return objOf(info, id)
		}
		ast.Inspect(fd.Body, func(x ast.Node) bool {
			if as, ok := x.(*ast.AssignStmt); ok {
				for i := range as.Lhs {
					if o := selfAppend(as, i); o != nil && !seen[o] {
						seen[o] = true
						accs = append(accs, acc{o, o.Name()})
					}
				}
			}
			return true
		})
		for k, a := range accs {
			cons := fmt.Sprintf("%s:accumulator#%d[%s]", who, k+1, types.TypeString(a.o.Type(), func(p *types.Package) string { return p.Name() }))
			// every other definition of the accumulator
			type def struct {
				rhs ast.Expr
				at  ast.Node
			}
			var defs []def
			opaque := ""
			ast.Inspect(fd.Body, func(x ast.Node) bool {
				switch s := x.(type) {
				case *ast.AssignStmt:
					for i, l := range s.Lhs {
						id, ok := an.Unparen(l).(*ast.Ident)
						if !ok || objOf(info, id) != a.o {
							continue
						}
						if selfAppend(s, i) == a.o {
							continue
						}
						if len(s.Lhs) != len(s.Rhs) || (s.Tok != token.ASSIGN && s.Tok != token.DEFINE) {
							opaque = an.Str(s)
							continue
						}
						defs = append(defs, def{s.Rhs[i], s})
					}
				case *ast.ValueSpec:
					for i, nm := range s.Names {
						if objOf(info, nm) != a.o {
							continue
						}
						if len(s.Values) == 0 {
							defs = append(defs, def{nil, s})
						} else if len(s.Values) == len(s.Names) {
							defs = append(defs, def{s.Values[i], s})
						} else {
							opaque = "var " + nm.Name
						}
					}
				case *ast.RangeStmt:
					for _, kv := range []ast.Expr{s.Key, s.Value} {
						if id, ok := kv.(*ast.Ident); ok && objOf(info, id) == a.o {
							opaque = "range variable"
						}
					}
				}
				return true
			})
			if _, isParam := paramIndex(fd, info, a.o); isParam {
				defs = append(defs, def{nil, fd}) // the caller's slice: growing it is the function's contract (append-style API)
			}
			n++
			var badDefs, unknownDefs []string
			var badAt ast.Node
			for _, d := range defs {
				switch verdict, why := c35Backing(fn, info, d.rhs, a.o); verdict {
				case "alias":
					badDefs = append(badDefs, why)
					if badAt == nil {
						badAt = d.at
					}
				case "unknown":
					unknownDefs = append(unknownDefs, why)
				}
			}
			switch {
			case len(badDefs) > 0:
				r.Bad("C35.7", cons, c.Pos(badAt), "the slice %s is grown with append but starts as %s: append writes the new elements into the backing array of that slice, overwriting the elements that follow the prefix (and whatever another accumulator started from the same prefix has stored): the parsed session's lists no longer equal the encoded ones", a.name, strings.Join(badDefs, "; "))
			case opaque != "" || len(unknownDefs) > 0:
				r.Unknown("C35.7", cons, c.Pos(fd), "a definition of the accumulator is not recognised as a fresh backing array: %s", strings.Join(append(unknownDefs, opaque), " "))
			default:
				r.Ok("C35.7", cons, c.Pos(fd), "every definition the appends start from has a backing array of its own (%d definitions)", len(defs))
			}
		}
	}
	r.Count("C35.7_accumulators", n)
	if n == 0 {
		r.Unknown("C35.7", "session-codec:accumulators", "", "no local slice grown by append found in the session codec")
	}
	r.Floor("C35.7", 2)
}

func paramIndex(fd *ast.FuncDecl, info *types.Info, o types.Object) (int, bool) {
	i := 0
	for _, f := range fd.Type.Params.List {
		for _, nm := range f.Names {
			if info.Defs[nm] == o {
				return i, true
			}
			i++
		}
	}
	return 0, false
}

// c35Backing classifies the value an accumulator starts from: "fresh" (own backing array, or
// nothing to overwrite), "alias" (a plain sub-slice of another slice), "unknown".
func c35Backing(fn *an.Fn, info *types.Info, e ast.Expr, self types.Object) (string, string) {
	if e == nil {
		return "fresh", ""
	}
	e = an.Unparen(e)
	if id, ok := e.(*ast.Ident); ok && objOf(info, id) != self {
		if d := inlineLocal(fn, id); d != ast.Expr(id) {
			e = an.Unparen(d)
		}
	}
	if an.IsNilIdent(info, e) {
		return "fresh", ""
	}
	switch x := e.(type) {
	case *ast.CompositeLit:
		return "fresh", ""
	case *ast.CallExpr:
		if tv, ok := info.Types[x.Fun]; ok && tv.IsType() && len(x.Args) == 1 {
			return c35Backing(fn, info, x.Args[0], self) // a conversion keeps the backing array
		}
		if id, ok := an.Unparen(x.Fun).(*ast.Ident); ok {
			if b, isB := info.Uses[id].(*types.Builtin); isB {
				switch b.Name() {
				case "make":
					return "fresh", ""
				case "append":
					if len(x.Args) > 0 {
						return c35Backing(fn, info, x.Args[0], self)
					}
				}
			}
		}
		if f, _ := an.Callee(info, x).(*types.Func); f != nil && f.Pkg() != nil {
			switch f.Pkg().Path() + "." + f.Name() {
			case "slices.Clone", "bytes.Clone", "slices.Concat", "slices.Collect":
				return "fresh", ""
			}
		}
		return "fresh", "" // a call result: the callee's contract, not decided here
	case *ast.SliceExpr:
		if id, ok := an.Unparen(x.X).(*ast.Ident); ok && objOf(info, id) == self {
			return "fresh", "" // re-slicing the accumulator itself (truncate and refill)
		}
		if x.Slice3 && x.Max != nil && x.High != nil && accessKey(fn, x.Max) == accessKey(fn, x.High) {
			return "fresh", "" // capacity ends at the length: the first append copies
		}
		if x.High != nil {
			if v, isC := an.ConstInt(info, x.High); isC && v == 0 {
				if _, isSel := an.Unparen(x.X).(*ast.SelectorExpr); !isSel {
					return "fresh", "" // buf[:0]: deliberate reuse of a scratch buffer from its start
				}
				return "unknown", an.Str(x) + " reuses a field's buffer from its start"
			}
		}
		if x.Slice3 {
			return "unknown", "three-index slice " + an.Str(x) + " whose capacity is not its length"
		}
		// the elements behind the prefix are kept state when the base is (a field of) something that
		// outlives the statement: a struct field, a parameter, an element; a sub-slice of a plain
		// local is not decided
		if id, ok := an.Unparen(x.X).(*ast.Ident); ok {
			if v, isVar := objOf(info, id).(*types.Var); isVar && !v.IsField() && v.Parent() != nil && v.Parent() != v.Pkg().Scope() {
				if _, _, _, single := localDefOf(fn, v); single {
					return "unknown", an.Str(x) + " is a sub-slice of the local " + id.Name
				}
			}
		}
		return "alias", an.Str(x) + ", a sub-slice sharing the backing array of " + an.Str(x.X)
	case *ast.Ident, *ast.SelectorExpr, *ast.IndexExpr:
		// a plain alias: appends go to spare capacity behind the other slice's length, or the
		// value is stored back; not the sub-slice hazard this rule decides
		return "fresh", ""
	}
	return "unknown", an.Str(e)
}
