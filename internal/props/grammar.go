package props

import (
	"fmt"
	"go/ast"
	"go/types"
	"sort"
	"strings"

	"verif/internal/an"
)

// gtok is one token of a flattened wire grammar: kind L (length prefix), U (fixed-width value),
// C (constant bytes), Z (zero/unwritten bytes), B (opaque bytes), with a width in bytes (0 = variable).
type gtok struct {
	kind  byte
	width int64
}

func (t gtok) String() string {
	if t.kind == 'B' {
		return "B"
	}
	return fmt.Sprintf("%c%d", t.kind, t.width*8)
}

func toksString(ts []gtok) string {
	var s []string
	for _, t := range ts {
		s = append(s, t.String())
	}
	return strings.Join(s, " ")
}

// encoderGrammar flattens the body (offset >= 4) of an encoder's derived field list.
func encoderGrammar(fs []field, L Lin, gaps map[string]string) ([]gtok, bool) {
	type item struct {
		off Lin
		tok gtok
	}
	var items []item
	for _, f := range fs {
		off := f.off
		if f.loop != "" {
			off = loopSubst(f.off, f.loop, "first")
		}
		if off.IsConst() && off.C < 4 {
			continue
		}
		var t gtok
		switch {
		case f.copy:
			t = gtok{'B', 0}
		case f.lin != nil && f.lin.IsConst():
			t = gtok{'C', f.w.C}
		case f.lin != nil:
			t = gtok{'L', f.w.C}
		case f.loop != "" && f.w.IsConst() && f.w.C == 1:
			t = gtok{'B', 0} // a loop of single bytes is an opaque byte string
		default:
			t = gtok{'U', f.w.C}
		}
		items = append(items, item{off, t})
	}
	for key := range gaps {
		var a, b int64
		if n, _ := fmt.Sscanf(key, "[%d,%d)", &a, &b); n == 2 && a >= 4 {
			items = append(items, item{linConst(a), gtok{'Z', b - a}})
		}
	}
	ok := true
	sort.SliceStable(items, func(i, j int) bool {
		d := items[j].off.Sub(items[i].off)
		if d.NonNeg() && !(d.IsConst() && d.C == 0) {
			return true
		}
		return false
	})
	var out []gtok
	for _, it := range items {
		out = append(out, it.tok)
	}
	return out, ok
}

// decoderGrammar flattens the cryptobyte reads of a decoder in source order.
func decoderGrammar(info *types.Info, fd *ast.FuncDecl) []gtok {
	return decoderGrammarIn(info, fd, nil, 0)
}

// decoderGrammarIn also follows calls to module functions declared in decls (one or two levels),
// so a decoder delegating to an embedded type's Write is read through.
func decoderGrammarIn(info *types.Info, fd *ast.FuncDecl, resolve func(*types.Func) *ast.FuncDecl, depth int) []gtok {
	var out []gtok
	ast.Inspect(fd.Body, func(n ast.Node) bool {
		call, ok := n.(*ast.CallExpr)
		if !ok {
			return true
		}
		fn, ok := an.Callee(info, call).(*types.Func)
		if !ok || fn.Pkg() == nil {
			// conversion of a cryptobyte.String to bytes/string consumes the rest
			if tv, ok := info.Types[call.Fun]; ok && tv.IsType() && len(call.Args) == 1 {
				if an.TypeName(info.TypeOf(call.Args[0])) == "String" {
					if b, ok := tv.Type.Underlying().(*types.Slice); ok {
						_ = b
						out = append(out, gtok{'B', 0})
					} else if bt, ok := tv.Type.Underlying().(*types.Basic); ok && bt.Kind() == types.String {
						out = append(out, gtok{'B', 0})
					}
				}
			}
			return true
		}
		name := fn.Name()
		width := func(s string) int64 {
			switch {
			case strings.Contains(s, "Uint8"):
				return 1
			case strings.Contains(s, "Uint16"):
				return 2
			case strings.Contains(s, "Uint24"):
				return 3
			case strings.Contains(s, "Uint32"):
				return 4
			}
			return 0
		}
		switch {
		case strings.HasSuffix(fn.Pkg().Path(), "crypto/cryptobyte"):
			switch {
			case strings.HasPrefix(name, "ReadUint") && strings.HasSuffix(name, "LengthPrefixed"):
				out = append(out, gtok{'L', width(name)})
			case strings.HasPrefix(name, "ReadUint"):
				out = append(out, gtok{'U', width(name)})
			case name == "ReadBytes" || name == "CopyBytes":
				out = append(out, gtok{'B', 0})
			case name == "Skip":
				if len(call.Args) == 1 {
					if v, ok := an.ConstInt(info, call.Args[0]); ok {
						out = append(out, gtok{'Z', v})
					}
				}
			}
		case fn.Pkg().Path() == Mod && strings.HasPrefix(name, "readUint") && strings.HasSuffix(name, "LengthPrefixed"):
			out = append(out, gtok{'L', width(name)}, gtok{'B', 0})
		case fn.Pkg().Path() == Mod && resolve != nil && depth < 2 && name == "Write":
			if d := resolve(fn); d != nil && d != fd {
				out = append(out, decoderGrammarIn(info, d, resolve, depth+1)...)
			}
		}
		return true
	})
	return out
}

// grammarsAgree compares the two flattened grammars: opaque bytes are ignored, constant and
// zero bytes on the encoder side match any decoder tokens of the same total width.
func grammarsAgree(enc, dec []gtok) (bool, string) {
	var e, d []gtok
	for _, t := range enc {
		if t.kind != 'B' {
			e = append(e, t)
		}
	}
	for _, t := range dec {
		if t.kind != 'B' {
			d = append(d, t)
		}
	}
	// merge runs of constant / zero bytes
	var m []gtok
	for _, t := range e {
		if (t.kind == 'C' || t.kind == 'Z') && len(m) > 0 && m[len(m)-1].kind == 'K' {
			m[len(m)-1].width += t.width
			continue
		}
		if t.kind == 'C' || t.kind == 'Z' {
			m = append(m, gtok{'K', t.width})
			continue
		}
		m = append(m, t)
	}
	j := 0
	for i, t := range m {
		switch t.kind {
		case 'L', 'U':
			if j >= len(d) {
				return false, fmt.Sprintf("the encoder emits %s but the decoder reads nothing more", t)
			}
			// a decoder may read a length prefix as a plain integer and slice by hand: widths must agree
			if d[j].width != t.width || (t.kind == 'U' && d[j].kind == 'L') {
				return false, fmt.Sprintf("the encoder emits %s where the decoder reads %s", t, d[j])
			}
			j++
		case 'K':
			need := t.width
			for need > 0 && j < len(d) {
				if d[j].width == 0 || d[j].width > need {
					return false, fmt.Sprintf("the decoder reads %s across the end of the encoder's %d constant byte(s)", d[j], t.width)
				}
				need -= d[j].width
				j++
			}
			if need > 0 && i != len(m)-1 {
				return false, fmt.Sprintf("the decoder stops inside the encoder's %d constant byte(s) although more fields follow", t.width)
			}
		}
	}
	if j < len(d) {
		return false, fmt.Sprintf("the decoder reads %s, which the encoder never emits", d[j])
	}
	return true, ""
}
