package props

import (
	"go/ast"
	"go/token"
	"go/types"
	"sort"
	"strings"

	"verif/internal/an"
	"verif/internal/load"
)

func init() { register(&Prop{ID: "C23", Run: runC23}) }

// UQUICConn methods compared with the QUICConn method of the same name
var c23Pairs = []string{"Start", "Close", "HandleData", "SetTransportParameters", "SendSessionTicket", "ConnectionState"}

// quicEdges classifies the branch edges of fn by what they imply about c.quic:
// isNil = edges on which c.quic == nil is known, nonNil = edges on which c.quic != nil.
func (c *Ctx) quicEdges(fn *an.Fn) (isNil, nonNil []an.Edge) {
	info := c.Info()
	// atom: +1 if e is `quic != nil`, -1 if `quic == nil`, 0 otherwise
	atom := func(e ast.Expr) int {
		be, ok := an.Unparen(e).(*ast.BinaryExpr)
		if !ok || (be.Op != token.NEQ && be.Op != token.EQL) {
			return 0
		}
		var x ast.Expr
		switch {
		case an.IsNilIdent(info, be.Y):
			x = be.X
		case an.IsNilIdent(info, be.X):
			x = be.Y
		default:
			return 0
		}
		if !an.FieldSel(info, an.Unparen(x), "Conn", "quic") {
			return 0
		}
		if be.Op == token.NEQ {
			return 1
		}
		return -1
	}
	var split func(e ast.Expr, op token.Token) []ast.Expr
	split = func(e ast.Expr, op token.Token) []ast.Expr {
		e = an.Unparen(e)
		if be, ok := e.(*ast.BinaryExpr); ok && be.Op == op {
			return append(split(be.X, op), split(be.Y, op)...)
		}
		return []ast.Expr{e}
	}
	for _, b := range fn.G.Blocks {
		if !b.Live {
			continue
		}
		t, f, ok := an.CondEdges(b)
		if !ok {
			continue
		}
		cond := an.Unparen(b.Nodes[len(b.Nodes)-1].(ast.Expr))
		// a conjunct holds on the true edge; a disjunct fails on the false edge
		for _, cj := range split(cond, token.LAND) {
			switch atom(cj) {
			case 1:
				nonNil = append(nonNil, t)
			case -1:
				isNil = append(isNil, t)
			}
		}
		for _, dj := range split(cond, token.LOR) {
			switch atom(dj) {
			case 1:
				isNil = append(isNil, f)
			case -1:
				nonNil = append(nonNil, f)
			}
		}
	}
	return dedupEdges(isNil), dedupEdges(nonNil)
}

func dedupEdges(es []an.Edge) []an.Edge {
	seen := map[an.Edge]bool{}
	var out []an.Edge
	for _, e := range es {
		if !seen[e] {
			seen[e] = true
			out = append(out, e)
		}
	}
	return out
}

func runC23(c *Ctx) {
	r := c.R
	r.Technique = "CFG exit discipline (must-pass-through of close/handshakeErr store or the quic==nil edge on every return after c.in.Lock); synchronisation-trace automata of UQUICConn vs QUICConn methods; guarded-effect rules with type-resolved callees and constant encryption levels; module call-graph reachability for the session-events switch"
	r.Explanation = "C23.1 in (*UConn).handshakeContext every return reachable after c.in.Lock() is preceded, unless c.quic == nil is known on the path, by close(quic.blockedc), close(quic.signalc) and a store to handshakeErr made before the closes - what UQUICConn.Start/HandleData/Close block on and return (the original Conn.handshakeContext is checked by the same rule as the reference). " +
		"C23.2 UQUICConn.Start/Close/HandleData/SetTransportParameters/SendSessionTicket/ConnectionState have the same synchronisation skeleton as the QUICConn methods. " +
		"C23.3 session-events: no store enables quicState.enableSessionEvents on any path from UQUICClient/newUQUICConn/UQUICConn methods, or UQUICConn.NextEvent has the waitingForDrain hand-off of QUICConn.NextEvent that quicResumeSession blocks on. " +
		"C23.4 no ChangeCipherSpec record is written on the TLS 1.3 client path when c.quic != nil. C23.5 a fresh legacy session id is stored only where c.quic == nil (ApplyPreset, makeClientHello, makeClientHelloForApplyPreset). " +
		"C23.6 per encryption level the write secret is handed to QUIC before the read secret, the 1-RTT read secret only in handshakeContext on the handshakeErr==nil branch after quicHandshakeComplete. C23.7 the peer's transport parameters are delivered by a single, unlooped call on the client path, behind c.quic != nil and the missing-parameters abort. " +
		"C23.8 Start refuses a second call (started tested and set before the goroutine is spawned) and waits on blockedc after spawning. C23.9 newUQUICConn creates the same unbuffered signalc/blockedc as newQUICConn."
	r.NotDecided = "progress of the event pump under arbitrary interleavings; that a server accepts the ClientHello; contents of the secrets"
	info := c.Info()

	// ---------------- C23.1 close-on-all-exits
	c.c23Exits("UConn", false)
	c.c23Exits("Conn", true)
	r.Floor("C23.1", 8)

	// ---------------- C23.2 sibling skeletons of the QUIC front end
	declared := map[string]bool{}
	for _, fd := range load.AllFuncDecls(c.P.TLS) {
		if load.RecvName(fd) == "UQUICConn" && load.FuncDecl(c.P.TLS, "QUICConn", fd.Name.Name) != nil {
			declared[fd.Name.Name] = true
		}
	}
	paired := map[string]bool{"NextEvent": true} // judged by C23.3
	for _, name := range c23Pairs {
		paired[name] = true
		rep := c.compareSiblings("UQUICConn", name)
		if rep == nil {
			r.Unknown("C23.2", "UQUICConn."+name, "", "(*UQUICConn).%s or (*QUICConn).%s not found", name, name)
			continue
		}
		if rep.EventsO == 0 && rep.EventsU == 0 && rep.Equal {
			r.Ok("C23.2", "UQUICConn."+name, c.Pos(rep.U), "no synchronisation on either side")
			continue
		}
		c.reportSibling("C23.2", "UQUICConn."+name, rep)
	}
	var extra []string
	for n := range declared {
		if !paired[n] {
			extra = append(extra, n)
		}
	}
	sort.Strings(extra)
	for _, n := range extra {
		if rep := c.compareSiblings("UQUICConn", n); rep != nil && rep.Equal {
			r.Ok("C23.2", "UQUICConn."+n, c.Pos(rep.U), "additional shadowing method agrees with (*QUICConn).%s", n)
		} else {
			r.Unknown("C23.2", "UQUICConn."+n, "", "(*UQUICConn).%s copies (*QUICConn).%s but is not in the list of compared methods and differs from it", n, n)
		}
	}
	r.Floor("C23.2", 6)

	// ---------------- C23.3 session events
	c.c23SessionEvents()

	// ---------------- C23.4 no CCS under QUIC on the TLS 1.3 client path
	nCCS := 0
	for _, fd := range load.AllFuncDecls(c.P.TLS) {
		if rn := load.RecvName(fd); rn != "clientHandshakeStateTLS13" && rn != "UConn" {
			continue
		}
		fn := an.NewFn(c.P.TLS, fd)
		hits := fn.FindNodes(an.CallTo(info, Mod, "Conn", "writeChangeCipherRecord"))
		if len(hits) == 0 {
			continue
		}
		isNil, _ := c.quicEdges(fn)
		for _, h := range hits {
			nCCS++
			r.Check(len(isNil) > 0 && fn.MustPass(h.P, nil, isNil), "C23.4", load.RecvName(fd)+"."+fd.Name.Name+":writeChangeCipherRecord", c.Pos(h.N),
				"the compatibility ChangeCipherSpec is written only where c.quic == nil",
				"a ChangeCipherSpec record can be written on a QUIC connection (RFC 9001 8.4 forbids the compatibility CCS; the QUIC peer treats it as a protocol violation): the write is reachable without passing a c.quic == nil test")
		}
	}
	if nCCS == 0 {
		r.Unknown("C23.4", "sendDummyChangeCipherSpec", "", "no writeChangeCipherRecord call found on the TLS 1.3 client path")
	}
	r.Floor("C23.4", 1)

	// ---------------- C23.5 legacy session id only where c.quic == nil
	isSessField := func(e ast.Expr) bool {
		e = an.Unparen(e)
		return an.FieldSel(info, e, "PubClientHelloMsg", "SessionId") || an.FieldSel(info, e, "clientHelloMsg", "sessionId")
	}
	for _, spec := range [][2]string{{"UConn", "ApplyPreset"}, {"Conn", "makeClientHello"}, {"Conn", "makeClientHelloForApplyPreset"}} {
		fn := c.Fn("C23.5", spec[0], spec[1])
		if fn == nil {
			continue
		}
		isNil, _ := c.quicEdges(fn)
		n := 0
		for _, h := range fn.FindNodes(func(x ast.Node) bool {
			as, ok := x.(*ast.AssignStmt)
			if !ok {
				return false
			}
			for _, l := range as.Lhs {
				if isSessField(l) {
					return true
				}
			}
			return false
		}) {
			as := h.N.(*ast.AssignStmt)
			copyOf := false
			for _, rh := range as.Rhs {
				if an.Contains(rh, func(x ast.Node) bool { e, ok := x.(ast.Expr); return ok && isSessField(e) }) {
					copyOf = true
				}
			}
			if copyOf {
				continue
			}
			n++
			r.Check(len(isNil) > 0 && fn.MustPass(h.P, nil, isNil), "C23.5", spec[1]+":session-id#"+lsItoa(n), c.Pos(as),
				"a session id is generated only where c.quic == nil", "a legacy session id is stored into the ClientHello on a QUIC connection (RFC 9001 8.4: QUIC clients send an empty legacy_session_id): the store is reachable without passing a c.quic == nil test")
		}
		if n == 0 {
			r.Unknown("C23.5", spec[1]+":session-id", c.Pos(fn.Decl), "no store of a fresh session id found in %s", spec[1])
		}
	}
	r.Floor("C23.5", 3)

	// ---------------- C23.6 secrets: write before read per level; 1-RTT read only after success
	c.c23Secrets()

	// ---------------- C23.7 transport parameters delivered once
	nTP := 0
	for _, fd := range load.AllFuncDecls(c.P.TLS) {
		rn := load.RecvName(fd)
		if rn != "clientHandshakeStateTLS13" && rn != "clientHandshakeState" && rn != "UConn" {
			continue
		}
		fn := an.NewFn(c.P.TLS, fd)
		hits := fn.FindNodes(an.CallTo(info, Mod, "Conn", "quicSetTransportParameters"))
		if len(hits) == 0 {
			continue
		}
		_, nonNil := c.quicEdges(fn)
		for _, h := range hits {
			nTP++
			cons := rn + "." + fd.Name.Name + ":quicSetTransportParameters"
			call := h.N.(*ast.CallExpr)
			r.Check(len(nonNil) > 0 && fn.MustPass(h.P, nil, nonNil), "C23.7", cons+":quic-only", c.Pos(call), "delivered only where c.quic != nil", "quicSetTransportParameters dereferences c.quic but is reachable where c.quic may be nil")
			r.Check(!inLoop(fn, h.P), "C23.7", cons+":once", c.Pos(call), "not on a cycle: delivered at most once per call", "the peer's transport parameters can be delivered more than once (the call lies on a loop)")
			// the value delivered was checked to be present: a `x == nil` test on the same expression whose true edge aborts
			if len(call.Args) == 1 {
				arg := an.Str(call.Args[0])
				pass, fail, _ := condEdges(fn, func(cond ast.Expr) (bool, bool) {
					be, ok := cond.(*ast.BinaryExpr)
					if !ok || (be.Op != token.EQL && be.Op != token.NEQ) {
						return false, false
					}
					var x ast.Expr
					switch {
					case an.IsNilIdent(info, be.Y):
						x = be.X
					case an.IsNilIdent(info, be.X):
						x = be.Y
					default:
						return false, false
					}
					if an.Str(x) != arg || !sameFieldSel(info, x, call.Args[0]) {
						return false, false
					}
					return true, be.Op == token.NEQ
				})
				okAbort := len(pass) > 0 && fn.MustPass(h.P, nil, pass)
				for _, fe := range fail {
					if fn.MustPass(an.Point{B: fe.B, I: len(fe.B.Nodes) - 1}, nil, nonNil) {
						if ok, _ := failEdgeExits(fn, fe, c.isAlert("")); !ok {
							okAbort = false
						}
					}
				}
				r.Check(okAbort, "C23.7", cons+":present", c.Pos(call), "missing quic_transport_parameters aborts with an alert before delivery", "the parameters are delivered without first rejecting a server that sent no quic_transport_parameters extension (alert + error)")
			}
		}
	}
	if nTP != 1 {
		if nTP == 0 {
			r.Bad("C23.7", "client:quicSetTransportParameters", "", "no call delivers the peer's transport parameters on the client path: the QUICTransportParameters event never occurs")
		} else {
			r.Bad("C23.7", "client:quicSetTransportParameters", "", "%d call sites deliver the peer's transport parameters on the client path: the event can occur more than once", nTP)
		}
	} else {
		r.Ok("C23.7", "client:quicSetTransportParameters", "", "exactly one call site on the client path")
	}
	r.Floor("C23.7", 4)

	// ---------------- C23.8 Start
	if fn := c.Fn("C23.8", "UQUICConn", "Start"); fn != nil {
		var goPts []an.Point
		for _, b := range fn.G.Blocks {
			if !b.Live {
				continue
			}
			for i, n := range b.Nodes {
				if g, ok := n.(*ast.GoStmt); ok {
					f, _ := an.Callee(info, g.Call).(*types.Func)
					if f != nil && (f.Name() == "HandshakeContext" || f.Name() == "Handshake" || f.Name() == "handshakeContext") {
						goPts = append(goPts, an.Point{B: b, I: i})
						// the spawned handshake must be the UConn one (it builds the ClientHello)
						r.Check(an.TypeName(f.Type().(*types.Signature).Recv().Type()) == "UConn", "C23.8", "Start:spawns-uconn-handshake", c.Pos(g),
							"the goroutine runs (*UConn)."+f.Name(), "the goroutine runs (*Conn)."+f.Name()+", which does not build the uTLS ClientHello under the handshake locks")
					}
				}
			}
		}
		if len(goPts) == 0 {
			r.Unknown("C23.8", "Start:go", c.Pos(fn.Decl), "no `go …HandshakeContext(ctx)` found in Start")
		}
		isStarted := func(e ast.Expr) bool { return an.FieldSel(info, an.Unparen(e), "quicState", "started") }
		pass, fail, _ := condEdges(fn, func(cond ast.Expr) (bool, bool) {
			x, neg := negated(cond)
			if isStarted(x) {
				return true, neg
			}
			return false, false
		})
		stores := fn.Find(func(n ast.Node) bool {
			as, ok := n.(*ast.AssignStmt)
			if !ok || len(as.Lhs) != 1 || len(as.Rhs) != 1 || !isStarted(as.Lhs[0]) {
				return false
			}
			id, ok := an.Unparen(as.Rhs[0]).(*ast.Ident)
			return ok && id.Name == "true"
		})
		recvs := fn.Find(func(n ast.Node) bool {
			u, ok := n.(*ast.UnaryExpr)
			return ok && u.Op == token.ARROW && an.FieldSel(info, an.Unparen(u.X), "quicState", "blockedc")
		})
		for _, g := range goPts {
			r.Check(len(pass) > 0 && fn.MustPass(g, nil, pass), "C23.8", "Start:started-tested", c.PosP(g), "the handshake goroutine is spawned only when started was false",
				"Start spawns the handshake goroutine without testing quic.started: a second Start runs a second handshake goroutine on the same channels")
			r.Check(len(stores) > 0 && fn.MustPass(g, stores, nil), "C23.8", "Start:started-set", c.PosP(g), "started is set before the goroutine is spawned",
				"quic.started is not set before the goroutine is spawned: a second Start is not refused and SetTransportParameters does not wait for the handshake goroutine")
			exits := fn.ExitsReachable(g, pointSet(recvs), nil)
			r.Check(len(recvs) > 0 && len(exits) == 0, "C23.8", "Start:waits-blocked", c.PosP(g), "after spawning, Start returns only after receiving from blockedc",
				"Start can return without waiting for the handshake goroutine to block or finish: events are read while the goroutine still appends to them")
		}
		for _, fe := range fail {
			ok, why := failEdgeExits(fn, fe, nil)
			r.Check(ok, "C23.8", "Start:second-call-error", c.PosP(an.Point{B: fe.B, I: len(fe.B.Nodes) - 1}), "a second Start returns an error", "second Start: "+why)
		}
	}
	r.Floor("C23.8", 5)

	// ---------------- C23.9 channels of newUQUICConn
	c.c23Channels()
}

func pointSet(ps []an.Point) map[an.Point]bool {
	m := map[an.Point]bool{}
	for _, p := range ps {
		m[p] = true
	}
	return m
}

// sameFieldSel: both expressions select the same field object.
func sameFieldSel(info *types.Info, a, b ast.Expr) bool {
	sa, ok1 := an.Unparen(a).(*ast.SelectorExpr)
	sb, ok2 := an.Unparen(b).(*ast.SelectorExpr)
	if !ok1 || !ok2 {
		return false
	}
	x, y := info.Selections[sa], info.Selections[sb]
	return x != nil && y != nil && x.Obj() == y.Obj()
}

// c23Exits applies the close-on-all-exits rule to recv.handshakeContext. For the original
// (reference=true) a failure means the rule misreads the protocol: undecided, not a violation.
func (c *Ctx) c23Exits(recv string, reference bool) {
	r := c.R
	info := c.Info()
	fn := c.Fn("C23.1", recv, "handshakeContext")
	if fn == nil {
		return
	}
	lf := NewLockFlow(fn, nil)
	var inLock []an.Point
	for _, s := range lf.Ops {
		if !s.Deferred && s.Op.Kind == lkLock && s.Op.ID == lockIn {
			inLock = append(inLock, s.P)
		}
	}
	if len(inLock) == 0 {
		r.Unknown("C23.1", recv+".handshakeContext:in.Lock", c.Pos(fn.Decl), "c.in.Lock() not found")
		return
	}
	closeOf := func(field string) []an.Point {
		return fn.Find(func(n ast.Node) bool {
			call, ok := n.(*ast.CallExpr)
			if !ok || len(call.Args) != 1 {
				return false
			}
			id, ok := an.Unparen(call.Fun).(*ast.Ident)
			if !ok || id.Name != "close" {
				return false
			}
			if _, isB := info.Uses[id].(*types.Builtin); !isB {
				return false
			}
			return an.FieldSel(info, an.Unparen(call.Args[0]), "quicState", field)
		})
	}
	closeB, closeS := closeOf("blockedc"), closeOf("signalc")
	stores := fn.Find(an.AssignsTo(func(e ast.Expr) bool { return an.FieldSel(info, an.Unparen(e), "Conn", "handshakeErr") }))
	isNil, _ := c.quicEdges(fn)
	sc := c.newSkelCtx(fn.Decl, false)
	report := func(ok bool, cons string, pos, good, bad string) {
		switch {
		case ok:
			r.Ok("C23.1", cons, pos, "%s", good)
		case reference:
			r.Unknown("C23.1", cons, pos, "the original does not satisfy the rule derived from it (%s): the rule no longer describes the protocol", bad)
		default:
			r.Bad("C23.1", cons, pos, "%s", bad)
		}
	}
	for _, p := range inLock {
		reach := fn.Reach(p, nil, nil)
		var rets []an.Point
		for q := range reach {
			if q.I >= 0 {
				if _, ok := q.Node().(*ast.ReturnStmt); ok {
					rets = append(rets, q)
				}
			}
		}
		sort.Slice(rets, func(i, j int) bool { return rets[i].Node().Pos() < rets[j].Node().Pos() })
		if len(rets) == 0 {
			r.Unknown("C23.1", recv+".handshakeContext:exits", c.PosP(p), "no return reachable after c.in.Lock()")
		}
		for _, ret := range rets {
			label := sc.returnLabel(ret.Node().(*ast.ReturnStmt), fn.Type)
			cons := recv + ".handshakeContext:exit[" + label + "]"
			for _, k := range []struct {
				name string
				pts  []an.Point
				what string
			}{
				{"blockedc", closeB, "close(c.quic.blockedc)"},
				{"signalc", closeS, "close(c.quic.signalc)"},
				{"handshakeErr", stores, "a store to c.handshakeErr"},
			} {
				ok := len(k.pts) > 0 && fn.MustPassFrom(p, ret, k.pts, isNil)
				bad := "this exit is reachable after c.in.Lock() on a QUIC connection without " + k.what
				switch k.name {
				case "blockedc":
					bad += ": UQUICConn.Start (and Close/HandleData) block on <-quic.blockedc forever, because the handshake goroutine returns without closing it"
				case "signalc":
					bad += ": HandleData/SetTransportParameters block on <-quic.signalc forever"
				default:
					bad += ": Start/Close return q.conn.handshakeErr, which is still nil although the handshake failed"
				}
				report(ok, cons+":"+k.name, c.PosP(ret), "preceded by "+k.what+" unless c.quic == nil", bad)
			}
		}
	}
	// the error is published before the channels are closed (Start reads it after the close)
	for _, cl := range append(append([]an.Point{}, closeB...), closeS...) {
		after := fn.Reach(cl, nil, nil)
		late := false
		for _, s := range stores {
			if after[s] {
				late = true
			}
		}
		report(!late, recv+".handshakeContext:err-before-close", c.PosP(cl), "no handshakeErr store follows the close", "c.handshakeErr is written after the QUIC channels are closed: Start/Close read it concurrently (they run as soon as blockedc is closed)")
	}
}

// c23SessionEvents: enableSessionEvents never set on the uTLS QUIC path, or NextEvent pairs.
func (c *Ctx) c23SessionEvents() {
	r := c.R
	g := c.modGraph()
	info := c.Info()
	var starts []*modFunc
	for _, fd := range load.AllFuncDecls(c.P.TLS) {
		if load.RecvName(fd) == "UQUICConn" || (fd.Recv == nil && (fd.Name.Name == "UQUICClient" || fd.Name.Name == "newUQUICConn")) {
			if o, ok := info.Defs[fd.Name].(*types.Func); ok && g.funcs[o] != nil {
				starts = append(starts, g.funcs[o])
			}
		}
	}
	if len(starts) < 3 {
		r.Unknown("C23.3", "UQUICConn:entry-points", "", "UQUICClient/newUQUICConn/UQUICConn methods not found")
		return
	}
	seen := map[*modFunc]bool{}
	work := append([]*modFunc{}, starts...)
	for _, s := range starts {
		seen[s] = true
	}
	for len(work) > 0 {
		f := work[len(work)-1]
		work = work[:len(work)-1]
		ast.Inspect(f.Decl.Body, func(n ast.Node) bool {
			if call, ok := n.(*ast.CallExpr); ok {
				edges, _ := g.callsOf(f.Info, call)
				for _, e := range edges {
					if !seen[e.To] {
						seen[e.To] = true
						work = append(work, e.To)
					}
				}
			}
			return true
		})
	}
	r.Count("c23_3_functions_reachable", len(seen))
	// stores that can make enableSessionEvents true
	type store struct {
		fn  string
		pos string
	}
	var stores, elsewhere []store
	for f := range seen {
		_ = f
	}
	for _, mf := range g.funcs {
		if mf.Pkg != c.P.TLS {
			continue
		}
		name := mf.Decl.Name.Name
		if rn := load.RecvName(mf.Decl); rn != "" {
			name = rn + "." + name
		}
		ast.Inspect(mf.Decl.Body, func(n ast.Node) bool {
			hit := false
			var at ast.Node
			switch x := n.(type) {
			case *ast.AssignStmt:
				for _, l := range x.Lhs {
					if an.FieldSel(info, an.Unparen(l), "quicState", "enableSessionEvents") {
						hit, at = true, x
					}
				}
			case *ast.CompositeLit:
				if an.TypeName(info.TypeOf(x)) != "quicState" {
					return true
				}
				for i, el := range x.Elts {
					kv, ok := el.(*ast.KeyValueExpr)
					if !ok {
						// positional literal: every field is set
						if i == 0 {
							hit, at = true, x
						}
						continue
					}
					if id, ok := kv.Key.(*ast.Ident); ok && id.Name == "enableSessionEvents" {
						if v, ok := info.Uses[id].(*types.Var); ok && v.IsField() {
							if tv, ok := info.Types[kv.Value]; ok && tv.Value != nil && tv.Value.String() == "false" {
								continue
							}
							hit, at = true, kv
						}
					}
				}
			}
			if hit {
				s := store{name, c.Pos(at)}
				if seen[mf] {
					stores = append(stores, s)
				} else {
					elsewhere = append(elsewhere, s)
				}
			}
			return true
		})
	}
	sort.Slice(stores, func(i, j int) bool { return stores[i].fn < stores[j].fn })
	var elsNames []string
	for _, s := range elsewhere {
		elsNames = append(elsNames, s.fn)
	}
	sort.Strings(elsNames)
	if len(stores) == 0 {
		r.Ok("C23.3", "UQUICConn:enableSessionEvents", "", "no store can enable session events on the uTLS QUIC path (%d functions reachable from UQUICClient/newUQUICConn/UQUICConn methods; stores elsewhere: %s), so quicResumeSession's waitingForDrain wait is never entered", len(seen), strings.Join(elsNames, ","))
		if len(elsewhere) == 0 {
			r.Unknown("C23.3", "QUICConn:enableSessionEvents", "", "no store to quicState.enableSessionEvents found anywhere: the rule's anchor disappeared")
		}
		return
	}
	rep := c.compareSiblings("UQUICConn", "NextEvent")
	for _, s := range stores {
		switch {
		case rep == nil:
			r.Unknown("C23.3", "UQUICConn:enableSessionEvents@"+s.fn, s.pos, "session events can be enabled but UQUICConn.NextEvent / QUICConn.NextEvent not found")
		case rep.Equal:
			r.Ok("C23.3", "UQUICConn:enableSessionEvents@"+s.fn, s.pos, "session events can be enabled and UQUICConn.NextEvent has the same waitingForDrain hand-off as QUICConn.NextEvent")
		default:
			r.Bad("C23.3", "UQUICConn:enableSessionEvents@"+s.fn, s.pos, "%s enables quicState.enableSessionEvents on the uTLS QUIC path, but UQUICConn.NextEvent lacks the waitingForDrain hand-off of QUICConn.NextEvent (%s): quicResumeSession waits for a drain signal that never comes and the handshake goroutine blocks forever", s.fn, rep.Witness)
		}
	}
}

// c23Secrets: write-before-read per level, 1-RTT read secret only after success.
func (c *Ctx) c23Secrets() {
	r := c.R
	info := c.Info()
	levelOf := func(call *ast.CallExpr) (string, bool) {
		if len(call.Args) == 0 {
			return "", false
		}
		id, ok := an.Unparen(call.Args[0]).(*ast.Ident)
		if !ok {
			return "", false
		}
		if k, ok := info.Uses[id].(*types.Const); ok && an.TypeName(k.Type()) == "QUICEncryptionLevel" {
			return strings.TrimPrefix(k.Name(), "QUICEncryptionLevel"), true
		}
		return "", false
	}
	clientSide := func(fd *ast.FuncDecl) bool {
		switch load.RecvName(fd) {
		case "clientHandshakeStateTLS13":
			return true
		case "Conn", "UConn":
			return fd.Name.Name == "handshakeContext" || fd.Name.Name == "clientHandshake"
		}
		return false
	}
	writeLevels := map[string]bool{}
	readLevels := map[string]bool{}
	for _, fd := range load.AllFuncDecls(c.P.TLS) {
		if !clientSide(fd) {
			continue
		}
		fn := an.NewFn(c.P.TLS, fd)
		reads := fn.FindNodes(an.CallTo(info, Mod, "Conn", "quicSetReadSecret"))
		writes := fn.FindNodes(an.CallTo(info, Mod, "Conn", "quicSetWriteSecret"))
		if len(reads)+len(writes) == 0 {
			continue
		}
		fname := load.RecvName(fd) + "." + fd.Name.Name
		_, nonNil := c.quicEdges(fn)
		for _, w := range writes {
			lv, ok := levelOf(w.N.(*ast.CallExpr))
			if !ok {
				r.Unknown("C23.6", fname+":write-secret", c.Pos(w.N), "encryption level of quicSetWriteSecret is not a constant")
				continue
			}
			writeLevels[lv] = true
			if lv == "Early" {
				// 0-RTT write secret: offered inside `if c.quic != nil` of clientHandshake via hello.earlyData; only the level pairing is checked
				r.Ok("C23.6", fname+":write["+lv+"]", c.Pos(w.N), "0-RTT write secret (no read secret exists on the client at this level)")
				continue
			}
			r.Check(len(nonNil) > 0 && fn.MustPass(w.P, nil, nonNil), "C23.6", fname+":write["+lv+"]", c.Pos(w.N), lv+" write secret handed over where c.quic != nil", "quicSetWriteSecret("+lv+") reachable where c.quic may be nil")
		}
		for _, rd := range reads {
			lv, ok := levelOf(rd.N.(*ast.CallExpr))
			if !ok {
				r.Unknown("C23.6", fname+":read-secret", c.Pos(rd.N), "encryption level of quicSetReadSecret is not a constant")
				continue
			}
			readLevels[lv] = true
			if lv == "Application" {
				inHC := fd.Name.Name == "handshakeContext"
				okEdges, _, _ := condEdges(fn, func(cond ast.Expr) (bool, bool) {
					be, ok := cond.(*ast.BinaryExpr)
					if !ok || (be.Op != token.EQL && be.Op != token.NEQ) {
						return false, false
					}
					var x ast.Expr
					switch {
					case an.IsNilIdent(info, be.Y):
						x = be.X
					case an.IsNilIdent(info, be.X):
						x = be.Y
					default:
						return false, false
					}
					if !an.FieldSel(info, an.Unparen(x), "Conn", "handshakeErr") {
						return false, false
					}
					return true, be.Op == token.EQL
				})
				hsCalls := fn.Find(func(n ast.Node) bool {
					call, ok := n.(*ast.CallExpr)
					if !ok {
						return false
					}
					se, ok := an.Unparen(call.Fun).(*ast.SelectorExpr)
					return ok && an.FieldSel(info, se, "Conn", "handshakeFn")
				})
				done := fn.Find(an.CallTo(info, Mod, "Conn", "quicHandshakeComplete"))
				ok := inHC && len(okEdges) > 0 && fn.MustPass(rd.P, nil, okEdges) && len(hsCalls) > 0 && fn.MustPass(rd.P, hsCalls, nil) && len(done) > 0 && fn.MustPass(rd.P, done, nil)
				r.Check(ok, "C23.6", fname+":read[Application]", c.Pos(rd.N), "1-RTT read secret released only after the handshake function returned nil and QUICHandshakeDone was queued",
					"the 1-RTT read secret is handed to QUIC before the handshake is known to have succeeded (RFC 9001 5.7: 1-RTT packets must not be decrypted before the handshake completes): it must follow handshakeFn, the handshakeErr == nil branch and quicHandshakeComplete in handshakeContext")
				continue
			}
			var same []an.Point
			for _, w := range writes {
				if wl, ok := levelOf(w.N.(*ast.CallExpr)); ok && wl == lv {
					same = append(same, w.P)
				}
			}
			r.Check(len(same) > 0 && fn.MustPass(rd.P, same, nil), "C23.6", fname+":read["+lv+"]", c.Pos(rd.N), lv+" write secret is handed over before the read secret",
				"the "+lv+" read secret is handed to QUIC without the "+lv+" write secret having been handed over first on every path: the QUIC layer can receive packets at a level it cannot yet acknowledge")
		}
	}
	for _, lv := range []string{"Handshake", "Application"} {
		r.Check(writeLevels[lv] && readLevels[lv], "C23.6", "client:level["+lv+"]", "", "both secrets of level "+lv+" are delivered on the client path",
			"the client path never delivers a write and a read secret for level "+lv+": the QUIC handshake cannot complete")
	}
	r.Floor("C23.6", 7)
}

// c23Channels: newUQUICConn builds the same channels as newQUICConn.
func (c *Ctx) c23Channels() {
	r := c.R
	info := c.Info()
	lit := func(name string) (map[string]string, *ast.FuncDecl) {
		fd := load.FuncDecl(c.P.TLS, "", name)
		if fd == nil {
			return nil, nil
		}
		sc := c.newSkelCtx(fd, false)
		out := map[string]string{}
		ast.Inspect(fd.Body, func(n ast.Node) bool {
			cl, ok := n.(*ast.CompositeLit)
			if !ok || an.TypeName(info.TypeOf(cl)) != "quicState" {
				return true
			}
			for _, el := range cl.Elts {
				if kv, ok := el.(*ast.KeyValueExpr); ok {
					if id, ok := kv.Key.(*ast.Ident); ok {
						out[id.Name] = sc.expr(kv.Value)
					}
				}
			}
			return true
		})
		ast.Inspect(fd.Body, func(n ast.Node) bool {
			as, ok := n.(*ast.AssignStmt)
			if !ok || len(as.Lhs) != len(as.Rhs) {
				return true
			}
			for i, l := range as.Lhs {
				if se, ok := an.Unparen(l).(*ast.SelectorExpr); ok {
					for _, f := range []string{"signalc", "blockedc"} {
						if an.FieldSel(info, se, "quicState", f) {
							out[f] = sc.expr(as.Rhs[i])
						}
					}
				}
			}
			return true
		})
		return out, fd
	}
	u, ufd := lit("newUQUICConn")
	o, _ := lit("newQUICConn")
	if u == nil || o == nil {
		r.Unknown("C23.9", "newUQUICConn", "", "newUQUICConn / newQUICConn not found")
		return
	}
	for _, f := range []string{"signalc", "blockedc"} {
		switch {
		case o[f] == "":
			r.Unknown("C23.9", "newUQUICConn:"+f, c.Pos(ufd), "newQUICConn does not initialise %s in its quicState literal", f)
		case u[f] == o[f]:
			r.Ok("C23.9", "newUQUICConn:"+f, c.Pos(ufd), "%s = %s as in newQUICConn", f, u[f])
		case u[f] == "":
			r.Bad("C23.9", "newUQUICConn:"+f, c.Pos(ufd), "newUQUICConn leaves quic.%s nil: every receive on it in Start/HandleData blocks forever and close() panics", f)
		default:
			r.Bad("C23.9", "newUQUICConn:"+f, c.Pos(ufd), "newUQUICConn creates %s as %s but newQUICConn as %s: the blocked/signal rendezvous of quicWaitForSignal relies on the original's (unbuffered) channel", f, u[f], o[f])
		}
	}
	r.Floor("C23.9", 2)
}
