package props

import (
	"go/ast"
	"go/token"
	"go/types"

	"verif/internal/an"
	"verif/internal/load"
)

const Mod = load.ModPath

// Fn returns the CFG of method recv.name of the root package, recording an
// unresolved-anchor obligation if it is missing.
func (c *Ctx) Fn(rule, recv, name string) *an.Fn {
	fd := load.FuncDecl(c.P.TLS, recv, name)
	if fd == nil || fd.Body == nil {
		n := name
		if recv != "" {
			n = recv + "." + name
		}
		c.R.Unknown(rule, n, "", "anchor function %s not found in package tls", n)
		return nil
	}
	return an.NewFn(c.P.TLS, fd)
}

// Pos renders a node position.
func (c *Ctx) Pos(n ast.Node) string {
	if n == nil {
		return ""
	}
	return c.P.Pos(n.Pos())
}

func (c *Ctx) PosP(p an.Point) string {
	if n := p.Node(); n != nil {
		return c.P.Pos(n.Pos())
	}
	return ""
}

func (c *Ctx) Info() *types.Info { return c.P.TLS.TypesInfo }

// isField returns a predicate on expressions selecting owner.field.
func (c *Ctx) isField(owner, field string) func(ast.Expr) bool {
	info := c.Info()
	return func(e ast.Expr) bool { return an.FieldSel(info, an.Unparen(e), owner, field) }
}

// mentionsField returns a predicate: expression contains a selection of owner.field.
func (c *Ctx) mentionsField(owner, field string) func(ast.Expr) bool {
	info := c.Info()
	return func(e ast.Expr) bool { return an.MentionsField(info, e, owner, field) }
}

// condEdges scans fn's condition blocks. go/cfg keeps a whole short-circuit condition as one
// node, so each condition is decomposed into its atomic operands (leaves of !, &&, ||).
// classify is asked about every atom and returns (matched, passOnTrue): whether the atom is an
// instance of the check and which truth value lets execution go on. For a matched atom the
// pass edge is the outcome of the whole condition that implies the atom passed; the fail
// edge is the outcome forced when the atom fails (both outcomes if not forced).
func condEdges(fn *an.Fn, classify func(cond ast.Expr) (bool, bool)) (pass, fail []an.Edge, at []an.Point) {
	for _, b := range fn.G.Blocks {
		if !b.Live {
			continue
		}
		t, f, ok := an.CondEdges(b)
		if !ok {
			continue
		}
		whole := b.Nodes[len(b.Nodes)-1].(ast.Expr)
		for _, atom := range condAtoms(whole) {
			m, onTrue := classify(atom)
			if !m {
				// ok := check(...); if !ok {…}: a boolean local with a single definition reads as
				// the expression that defines it
				if d := inlineLocal(fn, atom); d != atom {
					m, onTrue = classify(an.Unparen(d))
				}
			}
			if !m {
				continue
			}
			matchedHere := false
			for _, outcome := range []bool{true, false} {
				if impliesAtom(whole, outcome, atom, onTrue) {
					matchedHere = true
					if outcome {
						pass = append(pass, t)
					} else {
						pass = append(pass, f)
					}
				}
			}
			if o, det := forcedOutcome(whole, atom, !onTrue); det {
				matchedHere = true
				if o {
					fail = append(fail, t)
				} else {
					fail = append(fail, f)
				}
			} else {
				fail = append(fail, t, f)
			}
			if matchedHere {
				at = append(at, an.Point{B: b, I: len(b.Nodes) - 1})
			}
		}
	}
	return
}

// condAtoms lists the atomic operands of a boolean expression.
func condAtoms(e ast.Expr) []ast.Expr {
	e = an.Unparen(e)
	switch x := e.(type) {
	case *ast.UnaryExpr:
		if x.Op == token.NOT {
			return condAtoms(x.X)
		}
	case *ast.BinaryExpr:
		if x.Op == token.LAND || x.Op == token.LOR {
			return append(condAtoms(x.X), condAtoms(x.Y)...)
		}
	}
	return []ast.Expr{e}
}

// impliesAtom: does `e == outcome` imply `atom == val`?
func impliesAtom(e ast.Expr, outcome bool, atom ast.Expr, val bool) bool {
	e = an.Unparen(e)
	if e == atom {
		return outcome == val
	}
	switch x := e.(type) {
	case *ast.UnaryExpr:
		if x.Op == token.NOT {
			return impliesAtom(x.X, !outcome, atom, val)
		}
	case *ast.BinaryExpr:
		switch x.Op {
		case token.LAND:
			if outcome {
				return impliesAtom(x.X, true, atom, val) || impliesAtom(x.Y, true, atom, val)
			}
		case token.LOR:
			if !outcome {
				return impliesAtom(x.X, false, atom, val) || impliesAtom(x.Y, false, atom, val)
			}
		}
	}
	return false
}

// forcedOutcome evaluates e knowing only atom == val (three-valued).
func forcedOutcome(e ast.Expr, atom ast.Expr, val bool) (bool, bool) {
	e = an.Unparen(e)
	if e == atom {
		return val, true
	}
	switch x := e.(type) {
	case *ast.UnaryExpr:
		if x.Op == token.NOT {
			o, d := forcedOutcome(x.X, atom, val)
			return !o, d
		}
	case *ast.BinaryExpr:
		switch x.Op {
		case token.LAND:
			a, da := forcedOutcome(x.X, atom, val)
			b, db := forcedOutcome(x.Y, atom, val)
			if (da && !a) || (db && !b) {
				return false, true
			}
			if da && db {
				return true, true
			}
		case token.LOR:
			a, da := forcedOutcome(x.X, atom, val)
			b, db := forcedOutcome(x.Y, atom, val)
			if (da && a) || (db && b) {
				return true, true
			}
			if da && db {
				return false, true
			}
		}
	}
	return false, false
}

// negated strips a leading ! and reports whether it did.
func negated(e ast.Expr) (ast.Expr, bool) {
	e = an.Unparen(e)
	if u, ok := e.(*ast.UnaryExpr); ok && u.Op == token.NOT {
		return an.Unparen(u.X), true
	}
	return e, false
}

// edgeStart is the first point reached after taking e.
func edgeStart(e an.Edge) an.Point {
	t := e.B.Succs[e.K]
	if len(t.Nodes) > 0 {
		return an.Point{B: t, I: 0}
	}
	return an.Point{B: t, I: -1}
}

// failEdgeExits checks that every function exit reachable after taking the fail edge
// (without passing through a pass edge of the same check again) is a return whose error
// result is non-nil, and optionally that each such exit is preceded by a node satisfying
// `before` (e.g. sendAlert(alertBadCertificate)).
func failEdgeExits(fn *an.Fn, fail an.Edge, before func(ast.Node) bool) (ok bool, why string) {
	start := edgeStart(fail)
	reach := fn.Reach(an.Point{B: fail.B, I: len(fail.B.Nodes) - 1}, nil, edgesExcept(fail))
	_ = start
	sawExit := false
	for p := range reach {
		if p.I < 0 {
			continue
		}
		rs, isRet := p.Node().(*ast.ReturnStmt)
		if !isRet {
			continue
		}
		sawExit = true
		if !returnsError(fn, rs) {
			return false, "a return reachable from the failing outcome does not carry an error"
		}
	}
	if !sawExit {
		return false, "the failing outcome does not leave the function"
	}
	if before != nil {
		// every return reachable from the fail edge must pass a `before` node after the edge
		var via []an.Point
		for p := range reach {
			if p.I >= 0 && an.Contains(p.Node(), before) {
				via = append(via, p)
			}
		}
		for p := range reach {
			if p.I < 0 {
				continue
			}
			if _, isRet := p.Node().(*ast.ReturnStmt); !isRet {
				continue
			}
			if an.Contains(p.Node(), before) {
				continue
			}
			viaSet := map[an.Point]bool{}
			for _, v := range via {
				viaSet[v] = true
			}
			r2 := fn.Reach(an.Point{B: fail.B, I: len(fail.B.Nodes) - 1}, viaSet, edgesExcept(fail))
			if r2[p] && !viaSet[p] {
				return false, "an exit after the failing outcome is not preceded by the required alert"
			}
		}
	}
	return true, ""
}

// edgesExcept blocks the sibling edges of e's block so that Reach from the condition
// only follows e.
func edgesExcept(e an.Edge) map[an.Edge]bool {
	m := map[an.Edge]bool{}
	for k := range e.B.Succs {
		if k != e.K {
			m[an.Edge{B: e.B, K: k}] = true
		}
	}
	return m
}

// returnsError: the last result of rs is not the nil identifier; a bare return in a
// function with a named error result counts as unknown -> false unless the named result
// was assigned just before (not tracked) so callers should avoid relying on it.
func returnsError(fn *an.Fn, rs *ast.ReturnStmt) bool {
	if len(rs.Results) == 0 {
		return false
	}
	last := rs.Results[len(rs.Results)-1]
	if an.IsNilIdent(fn.Info, last) {
		return false
	}
	// `return false` in bool-returning parsers counts as failure
	if id, ok := an.Unparen(last).(*ast.Ident); ok && id.Name == "true" {
		return false
	}
	return true
}

// isAlert matches c.sendAlert(<alertConst>) with the given constant name ("" = any).
func (c *Ctx) isAlert(name string) func(ast.Node) bool {
	info := c.Info()
	return func(n ast.Node) bool {
		call, ok := n.(*ast.CallExpr)
		if !ok || !an.FuncIs(an.Callee(info, call), Mod, "Conn", "sendAlert") || len(call.Args) != 1 {
			return false
		}
		if name == "" {
			return true
		}
		id, ok := an.Unparen(call.Args[0]).(*ast.Ident)
		return ok && id.Name == name && info.Uses[id] != nil && info.Uses[id].Pkg() == c.P.TLS.Types
	}
}

// callPkgFunc matches a call to function `name` of the package with import path `path`
// (prefix match on path so vendored module versions do not matter).
func (c *Ctx) callPkgFunc(path, name string) func(ast.Node) bool {
	info := c.Info()
	return func(n ast.Node) bool {
		call, ok := n.(*ast.CallExpr)
		if !ok {
			return false
		}
		fn, ok := an.Callee(info, call).(*types.Func)
		if !ok || fn.Pkg() == nil || fn.Name() != name {
			return false
		}
		return fn.Pkg().Path() == path
	}
}

// objOf resolves an identifier to its object (use or def).
func objOf(info *types.Info, id *ast.Ident) types.Object {
	if o := info.Uses[id]; o != nil {
		return o
	}
	return info.Defs[id]
}

// ctrlCond is a condition that controls a point: the point is only reachable through `outcome`.
type ctrlCond struct {
	cond    ast.Expr
	outcome bool
	at      an.Point
}

// controllingConds lists the branch conditions of fn that p is control-dependent on in the
// strong sense: blocking one outcome edge makes p unreachable from the entry.
func controllingConds(fn *an.Fn, p an.Point) []ctrlCond {
	var out []ctrlCond
	for _, b := range fn.G.Blocks {
		if !b.Live {
			continue
		}
		t, f, ok := an.CondEdges(b)
		if !ok {
			continue
		}
		cond := b.Nodes[len(b.Nodes)-1].(ast.Expr)
		at := an.Point{B: b, I: len(b.Nodes) - 1}
		if at == p {
			continue
		}
		if !fn.ReachFromEntry(nil, map[an.Edge]bool{t: true})[p] {
			out = append(out, ctrlCond{cond, true, at})
		} else if !fn.ReachFromEntry(nil, map[an.Edge]bool{f: true})[p] {
			out = append(out, ctrlCond{cond, false, at})
		}
	}
	return out
}

// exactGuard checks that every atom of every condition controlling p satisfies allowed
// (allowed receives the atom and the truth value the atom must have for p to be reached, when
// that is determined). Returns the first offending atom.
func exactGuard(fn *an.Fn, p an.Point, allowed func(atom ast.Expr) bool) (bool, string) {
	for _, cc := range controllingConds(fn, p) {
		for _, a := range condAtoms(cc.cond) {
			if !allowed(a) {
				return false, an.Str(a)
			}
		}
	}
	return true, ""
}

// inlineLocal replaces a local identifier that has exactly one definition in fn (and is
// never re-assigned, incremented or address-taken) by its defining expression, repeatedly:
// a sub-expression hoisted into a local reads like the expression it names.
func inlineLocal(fn *an.Fn, e ast.Expr) ast.Expr {
	for depth := 0; depth < 4; depth++ {
		id, ok := an.Unparen(e).(*ast.Ident)
		if !ok {
			return e
		}
		info := fn.Info
		o := objOf(info, id)
		if _, isVar := o.(*types.Var); !isVar {
			return e
		}
		var def ast.Expr
		n := 0
		if isParamOrResult(fn, o) {
			n++ // the value passed in is a definition too: a parameter assigned once has two
		}
		an.Inner(fn.Body, func(x ast.Node) bool {
			switch s := x.(type) {
			case *ast.AssignStmt:
				for i, l := range s.Lhs {
					if li, ok := l.(*ast.Ident); ok && objOf(info, li) == o {
						n++
						if len(s.Rhs) == len(s.Lhs) && (s.Tok == token.DEFINE || s.Tok == token.ASSIGN) {
							def = s.Rhs[i]
						} else {
							n++ // multi-value or compound assignment: not a plain definition
						}
					}
				}
			case *ast.ValueSpec:
				for i, nm := range s.Names {
					if objOf(info, nm) == o {
						n++
						if i < len(s.Values) {
							def = s.Values[i]
						} else {
							n++
						}
					}
				}
			case *ast.IncDecStmt:
				if li, ok := an.Unparen(s.X).(*ast.Ident); ok && objOf(info, li) == o {
					n += 2
				}
			case *ast.UnaryExpr:
				if s.Op == token.AND {
					if li, ok := an.Unparen(s.X).(*ast.Ident); ok && objOf(info, li) == o {
						n += 2
					}
				}
			case *ast.RangeStmt:
				for _, kv := range []ast.Expr{s.Key, s.Value} {
					if li, ok := kv.(*ast.Ident); ok && objOf(info, li) == o {
						n += 2
					}
				}
			}
			return true
		})
		if n != 1 || def == nil {
			return e
		}
		e = def
	}
	return e
}

// mentionsThroughLocals: does e mention obj, directly or through single-definition locals
// (entry := elem.Value.(*T); return entry.state)?
func mentionsThroughLocals(fn *an.Fn, e ast.Node, obj types.Object, depth int) bool {
	if e == nil || depth > 4 {
		return false
	}
	found := false
	ast.Inspect(e, func(n ast.Node) bool {
		if found {
			return false
		}
		id, ok := n.(*ast.Ident)
		if !ok {
			return true
		}
		if objOf(fn.Info, id) == obj {
			found = true
			return false
		}
		if d := inlineLocal(fn, id); d != ast.Expr(id) && mentionsThroughLocals(fn, d, obj, depth+1) {
			found = true
		}
		return true
	})
	return found
}

// isParamOrResult: o is a parameter, named result or the receiver of fn.
func isParamOrResult(fn *an.Fn, o types.Object) bool {
	var lists []*ast.FieldList
	if fn.Type != nil {
		lists = append(lists, fn.Type.Params, fn.Type.Results)
	}
	if fn.Decl != nil {
		lists = append(lists, fn.Decl.Recv)
	}
	for _, fl := range lists {
		if fl == nil {
			continue
		}
		for _, f := range fl.List {
			for _, nm := range f.Names {
				if fn.Info.Defs[nm] == o {
					return true
				}
			}
		}
	}
	return false
}
