package props

import (
	"go/ast"
	"go/token"
	"go/types"
	"sort"
	"strings"

	"verif/internal/an"
	"verif/internal/load"
)

func init() { register(&Prop{ID: "C26", Run: runC26}) }

// the uTLS copies of Conn methods whose synchronisation must agree with the original
var c26Pairs = []string{"Handshake", "HandshakeContext", "handshakeContext", "Read", "Write", "handleRenegotiation", "handlePostHandshakeMessage"}

// shadowing methods that are deliberately not compared (one reason each)
var c26Unpaired = map[string]string{
	"clientHandshake": "rewritten around the prepared HandshakeState; it runs inside the critical section of handshakeContext and has no synchronisation of its own beyond what C23/C19 check",
}

const (
	lockHandshake = LockID("Conn.handshakeMutex")
	lockIn        = LockID("Conn.in.Mutex")
	lockOut       = LockID("Conn.out.Mutex")
)

func runC26(c *Ctx) {
	r := c.R
	r.Technique = "synchronisation-trace automata of sibling functions (CFG -> event NFA -> minimal DFA, isomorphism with shortest distinguishing trace); intra-procedural must-hold lockset dataflow; module-restricted call graph over type-resolved callees for re-acquisition"
	r.Explanation = "C26.1 every (*UConn) copy of a Conn method (Handshake, HandshakeContext, handshakeContext, Read, Write, handleRenegotiation, handlePostHandshakeMessage) has the same synchronisation skeleton as the live (*Conn) method once the uTLS insertion is removed: same mutex operations on the same locks in the same order, same defers/goroutine/channel protocol of the interrupter, same atomics, same handshakeErr stores, same error results - the original is the race-tested one. " +
		"C26.2 BuildHandshakeState is called with handshakeMutex and in held and inside the same critical section as the handshake function that consumes the state it writes. " +
		"C26.3 nothing reachable from BuildHandshakeState acquires handshakeMutex or in (sync.Mutex is not re-entrant: a re-acquisition deadlocks every Handshake). " +
		"C26.4 the activeCall interlock of Write/Close: closed-bit test before the CAS, CAS(x, x+2) paired with exactly one deferred Add(-2) on every path after success, Close sets bit 0 by CAS(x, x|1) and never reaches closeNotify while a Write is in flight. " +
		"C26.5 every callee called by both siblings is called by the copy with at least the locks the original holds there (lock contracts derived from the original on each run). " +
		"C26.6 every exit of the copies releases exactly the locks it took."
	r.NotDecided = "race freedom and deadlock freedom under all schedules; that the original Conn methods are themselves correct (they are the reference, covered by upstream's race tests); calls through function values (Config callbacks) are not followed by C26.3; the QUIC HandleData path into handlePostHandshakeMessage (TLS 1.3 only, never reaches handleRenegotiation)"
	info := c.Info()

	// ---------------- C26.1 sibling skeletons
	declared := map[string]bool{}
	for _, fd := range load.AllFuncDecls(c.P.TLS) {
		if load.RecvName(fd) == "UConn" && load.FuncDecl(c.P.TLS, "Conn", fd.Name.Name) != nil {
			declared[fd.Name.Name] = true
		}
	}
	paired := map[string]bool{}
	for _, name := range c26Pairs {
		paired[name] = true
		cons := "UConn." + name
		rep := c.compareSiblings("UConn", name)
		if rep == nil {
			r.Unknown("C26.1", cons, "", "(*UConn).%s or (*Conn).%s not found: the copy cannot be compared with its original", name, name)
			continue
		}
		c.reportSibling("C26.1", cons, rep)
	}
	var extra []string
	for n := range declared {
		if !paired[n] && c26Unpaired[n] == "" {
			extra = append(extra, n)
		}
	}
	sort.Strings(extra)
	for _, n := range extra {
		if rep := c.compareSiblings("UConn", n); rep != nil && rep.Equal {
			r.Ok("C26.1", "UConn."+n, c.Pos(rep.U), "additional shadowing method agrees with (*Conn).%s (%d events)", n, rep.EventsO)
		} else {
			r.Unknown("C26.1", "UConn."+n, "", "(*UConn).%s shadows (*Conn).%s but is not in the list of compared copies and differs from it; decide whether it must agree", n, n)
		}
	}
	r.Floor("C26.1", 7)

	// ---------------- C26.2 BuildHandshakeState under both locks, same critical section as the handshake
	isBuild := an.CallTo(info, Mod, "UConn", "BuildHandshakeState")
	hsFns := c.handshakeFns()
	isHS := func(n ast.Node) bool {
		call, ok := n.(*ast.CallExpr)
		if !ok {
			return false
		}
		if se, ok := an.Unparen(call.Fun).(*ast.SelectorExpr); ok && an.FieldSel(info, se, "Conn", "handshakeFn") {
			return true
		}
		f, _ := an.Callee(info, call).(*types.Func)
		return f != nil && hsFns[f.Origin()]
	}
	onlyUConn := func(fd *ast.FuncDecl) bool { return load.RecvName(fd) == "UConn" }
	for _, name := range []string{"handshakeContext", "handleRenegotiation"} {
		fn := c.Fn("C26.2", "UConn", name)
		if fn == nil {
			continue
		}
		entry := lockSet{}
		entryWhy := "no caller-held locks assumed"
		if obj, ok := info.Defs[fn.Decl.Name].(*types.Func); ok {
			if h, n, ok := c.callerHeldDepth(obj, onlyUConn, 2, map[*types.Func]bool{}); ok {
				entry = h
				entryWhy = "held by all " + lsItoa(n) + " (*UConn) call sites: " + h.String()
			}
		}
		lf := NewLockFlow(fn, entry)
		builds := fn.FindNodes(isBuild)
		hss := fn.FindNodes(isHS)
		if len(builds) == 0 {
			r.Unknown("C26.2", name+":BuildHandshakeState", c.Pos(fn.Decl), "no call to BuildHandshakeState in (*UConn).%s", name)
			continue
		}
		for _, b := range builds {
			held := lf.AtSub(b.P, b.N)
			for _, need := range []LockID{lockHandshake, lockIn} {
				r.Check(held.Has(need), "C26.2", name+":BuildHandshakeState:"+string(need), c.Pos(b.N),
					"called with "+string(need)+" held ("+entryWhy+")",
					"BuildHandshakeState writes HandshakeState/Extensions/config without "+string(need)+" held (held here: "+held.String()+"; "+entryWhy+"): a concurrent Handshake/Read/ConnectionState races with it")
			}
			// same critical section as the handshake call(s) it prepares
			if len(hss) == 0 {
				r.Unknown("C26.2", name+":critical-section", c.Pos(b.N), "no handshake call (handshakeFn / clientHandshake) found after BuildHandshakeState")
				continue
			}
			for _, h := range hss {
				if !fn.Reachable(b.P, h.P) {
					continue
				}
				hheld := lf.AtSub(h.P, h.N)
				ok := hheld.subsetOf(held)
				why := ""
				if !ok {
					why = "the handshake runs with " + hheld.String() + " but BuildHandshakeState only with " + held.String()
				}
				for _, s := range lf.Ops {
					if s.Deferred || (s.Op.Kind != lkUnlock && s.Op.Kind != lkRUnlock) || !hheld.Has(s.Op.ID) {
						continue
					}
					if (s.P == b.P || fn.Reachable(b.P, s.P)) && fn.Reachable(s.P, h.P) && s.Op.Call.Pos() > b.N.Pos() {
						ok = false
						why = string(s.Op.ID) + " is released between BuildHandshakeState and the handshake that reads the state it built"
					}
				}
				r.Check(ok, "C26.2", name+":critical-section", c.Pos(h.N), "BuildHandshakeState and the handshake call share one critical section "+hheld.String(), why)
			}
		}
	}
	r.Floor("C26.2", 6)

	// ---------------- C26.3 no re-acquisition below BuildHandshakeState
	if bfd := load.FuncDecl(c.P.TLS, "UConn", "BuildHandshakeState"); bfd == nil {
		r.Unknown("C26.3", "BuildHandshakeState", "", "anchor (*UConn).BuildHandshakeState not found")
	} else {
		obj := info.Defs[bfd.Name].(*types.Func)
		found, st := c.reachAcquire(obj, map[LockID]bool{lockHandshake: true, lockIn: true})
		r.Count("c26_3_functions_reachable", st.Visited)
		r.Count("c26_3_dynamic_calls_not_followed", st.Dynamic)
		var foreign []string
		for k, n := range st.Foreign {
			foreign = append(foreign, k+"×"+lsItoa(n))
		}
		sort.Strings(foreign)
		seen := map[string]bool{}
		for _, f := range found {
			last := f.Path[len(f.Path)-1]
			key := "BuildHandshakeState→" + strings.TrimSpace(last[strings.LastIndex(last, "]")+1:]) + ":" + string(f.Lock)
			if seen[key] {
				continue
			}
			seen[key] = true
			path := strings.Join(f.Path, " → ")
			switch {
			case f.External:
				r.Unknown("C26.3", key, c.P.Pos(f.Pos), "%s may be re-acquired below BuildHandshakeState, but only through a dispatch on an interface declared outside the module (%s); the concrete type is not known statically", f.Lock, path)
			case !f.Definite:
				r.Unknown("C26.3", key, c.P.Pos(f.Pos), "%s is acquired below BuildHandshakeState at a point where it is held on some but not all paths: %s", f.Lock, path)
			default:
				r.Bad("C26.3", key, c.P.Pos(f.Pos), "%s is acquired again while handshakeContext holds it: %s (sync.Mutex is not re-entrant: every Handshake deadlocks on this path)", f.Lock, path)
			}
		}
		if st.Visited < 40 {
			r.Unknown("C26.3", "BuildHandshakeState:reach", c.Pos(bfd), "only %d functions reachable from BuildHandshakeState: the call graph looks truncated", st.Visited)
		} else if len(found) == 0 {
			r.Ok("C26.3", "BuildHandshakeState:reach", c.Pos(bfd), "%d module functions reachable from BuildHandshakeState (interface calls resolved to all module implementers, held set propagated along call edges), none acquires %s or %s while it is held; not followed: %d calls through function values, dispatches on external-interface fields %v", st.Visited, lockHandshake, lockIn, st.Dynamic, foreign)
		}
		r.Assumptions = append(r.Assumptions, "C26.3: a value stored in a struct field of an interface type declared outside the module (Conn.conn net.Conn, Config.Rand io.Reader, hash/cipher state) is not the connection whose handshake is running; Config callbacks (function values) do not call back into the connection's locking methods")
	}
	r.Floor("C26.3", 1)

	// ---------------- C26.4 activeCall interlock
	c.c26Interlock()

	// ---------------- C26.5 lock preconditions of shared callees
	for _, name := range c26Pairs {
		ud, od := load.FuncDecl(c.P.TLS, "UConn", name), load.FuncDecl(c.P.TLS, "Conn", name)
		if ud == nil || od == nil {
			continue
		}
		c.lockContracts("C26.5", "UConn", ud, od)
	}
	r.Floor("C26.5", 12)

	// ---------------- C26.6 balance
	for _, name := range c26Pairs {
		if fd := load.FuncDecl(c.P.TLS, "UConn", name); fd != nil {
			c.lockBalance("C26.6", fd, nil)
		}
	}
	r.Floor("C26.6", 4)
}

// reportSibling records the outcome of one sibling comparison.
func (c *Ctx) reportSibling(rule, cons string, rep *sibReport) {
	r := c.R
	ins := ""
	if len(rep.Insertions) > 0 {
		ins = "; uTLS insertion removed: " + strings.Join(rep.Insertions, ",")
	}
	switch {
	case rep.EventsO == 0 && rep.EventsU == 0:
		r.Unknown(rule, cons, c.Pos(rep.U), "no synchronisation events extracted on either side: the comparison would be vacuous")
	case rep.Equal:
		r.Ok(rule, cons, c.Pos(rep.U), "synchronisation skeleton identical to the original (%d labelled transitions%s)", rep.EventsO, ins)
	case len(rep.Unrecognised) > 0:
		r.Unknown(rule, cons, c.Pos(rep.U), "skeletons differ, but the result of the uTLS-only call %s is used in a shape the insertion filter does not recognise: %s", strings.Join(rep.Unrecognised, ","), rep.Witness)
	default:
		r.Bad(rule, cons, c.Pos(rep.U), "the uTLS copy's synchronisation differs from the original it was copied from: %s", rep.Witness)
	}
}

// lockContracts compares, callee by callee, the locks held at the calls made by the copy
// with those held at the original's calls of the same callee.
func (c *Ctx) lockContracts(rule, uRecv string, ud, od *ast.FuncDecl) {
	info := c.Info()
	type site struct {
		held lockSet
		pos  string
	}
	collect := func(fd *ast.FuncDecl, prune bool) map[string][]site {
		out := map[string][]site{}
		sc := c.newSkelCtx(fd, prune)
		for _, fb := range c.bodiesOf(fd) {
			lf := NewLockFlow(fb.Fn, nil)
			for _, h := range fb.Fn.FindNodes(func(n ast.Node) bool { _, ok := n.(*ast.CallExpr); return ok }) {
				call := h.N.(*ast.CallExpr)
				f, _ := an.Callee(info, call).(*types.Func)
				if f == nil || f.Pkg() != c.P.TLS.Types {
					continue
				}
				if _, isLock := lockOpOf(info, call); isLock {
					continue
				}
				sig := f.Type().(*types.Signature)
				if sig.Recv() == nil {
					continue
				}
				switch an.TypeName(sig.Recv().Type()) {
				case "Conn", "halfConn", "UConn", "QUICConn", "UQUICConn":
				default:
					continue
				}
				name := sc.funcName(f.Origin())
				if fb.Kind != bkDecl {
					name += "$lit"
				}
				out[name] = append(out[name], site{lf.AtSub(h.P, call), c.Pos(call)})
			}
		}
		return out
	}
	us, os := collect(ud, true), collect(od, false)
	var names []string
	for n := range us {
		if _, ok := os[n]; ok {
			names = append(names, n)
		}
	}
	sort.Strings(names)
	for _, n := range names {
		need := os[n][0].held.clone()
		for _, s := range os[n][1:] {
			need = meet(need, s.held)
		}
		cons := uRecv + "." + ud.Name.Name + "→" + n
		ok := true
		for _, s := range us[n] {
			if !need.subsetOf(s.held) {
				ok = false
				c.R.Bad(rule, cons, s.pos, "%s is called with %s held, but every call of it in the original (*%s).%s is made with %s held: the callee's lock contract is broken in the copy", n, s.held, sibShadow[uRecv], od.Name.Name, need)
			}
		}
		if ok {
			c.R.Ok(rule, cons, us[n][0].pos, "called with at least the original's locks %s (%d site(s))", need, len(us[n]))
		}
	}
}

// c26Interlock checks the activeCall protocol in (*UConn).Write and the Close that pairs with it.
func (c *Ctx) c26Interlock() {
	r := c.R
	info := c.Info()
	isActive := func(e ast.Expr) bool { return an.FieldSel(info, an.Unparen(e), "Conn", "activeCall") }
	atomicOn := func(n ast.Node, method string) (*ast.CallExpr, bool) {
		call, ok := n.(*ast.CallExpr)
		if !ok {
			return nil, false
		}
		se, ok := an.Unparen(call.Fun).(*ast.SelectorExpr)
		if !ok || !isActive(se.X) {
			return nil, false
		}
		f, _ := an.Callee(info, call).(*types.Func)
		if f == nil || f.Pkg() == nil || f.Pkg().Path() != "sync/atomic" || f.Name() != method {
			return nil, false
		}
		return call, true
	}
	// local variables assigned from activeCall.Load()
	loadVars := func(fn *an.Fn) map[types.Object]bool {
		m := map[types.Object]bool{}
		ast.Inspect(fn.Body, func(n ast.Node) bool {
			as, ok := n.(*ast.AssignStmt)
			if !ok || len(as.Lhs) != 1 || len(as.Rhs) != 1 {
				return true
			}
			if _, ok := atomicOn(an.Unparen(as.Rhs[0]), "Load"); ok {
				if id, ok := as.Lhs[0].(*ast.Ident); ok {
					m[objOf(info, id)] = true
				}
			}
			return true
		})
		return m
	}
	isVar := func(vars map[types.Object]bool, e ast.Expr) bool {
		id, ok := an.Unparen(e).(*ast.Ident)
		return ok && vars[objOf(info, id)]
	}
	// x&1 != 0  (closed bit set => fail)
	bitTest := func(fn *an.Fn, vars map[types.Object]bool) (pass, fail []an.Edge) {
		p, f, _ := condEdges(fn, func(cond ast.Expr) (bool, bool) {
			be, ok := cond.(*ast.BinaryExpr)
			if !ok || (be.Op != token.NEQ && be.Op != token.EQL) {
				return false, false
			}
			lhs, rhs := an.Unparen(be.X), be.Y
			if v, ok := an.ConstInt(info, lhs); ok && v == 0 {
				lhs, rhs = an.Unparen(be.Y), be.X
			}
			and, ok := lhs.(*ast.BinaryExpr)
			if !ok || and.Op != token.AND {
				return false, false
			}
			zero, isC := an.ConstInt(info, rhs)
			if !isC || zero != 0 {
				return false, false
			}
			var mask ast.Expr
			switch {
			case isVar(vars, and.X):
				mask = and.Y
			case isVar(vars, and.Y):
				mask = and.X
			default:
				return false, false
			}
			if m, ok := an.ConstInt(info, mask); !ok || m != 1 {
				return false, false
			}
			return true, be.Op == token.EQL // x&1 == 0 passes on true; x&1 != 0 passes on false
		})
		return p, f
	}
	casEdges := func(fn *an.Fn) (succ, retry []an.Edge, calls []*ast.CallExpr) {
		s, f, at := condEdges(fn, func(cond ast.Expr) (bool, bool) {
			x, neg := negated(cond)
			if _, ok := atomicOn(x, "CompareAndSwap"); ok {
				return true, !neg
			}
			return false, false
		})
		seenCall := map[*ast.CallExpr]bool{}
		for _, p := range at {
			ast.Inspect(p.Node(), func(n ast.Node) bool {
				if call, ok := atomicOn(n, "CompareAndSwap"); ok && !seenCall[call] {
					seenCall[call] = true
					calls = append(calls, call)
				}
				return true
			})
		}
		return s, f, calls
	}

	// ---- Write
	if fn := c.Fn("C26.4", "UConn", "Write"); fn != nil {
		vars := loadVars(fn)
		pass, fail := bitTest(fn, vars)
		succ, _, cas := casEdges(fn)
		if len(cas) == 0 {
			r.Unknown("C26.4", "UConn.Write:cas", c.Pos(fn.Decl), "no `if activeCall.CompareAndSwap(…)` found")
		}
		var delta int64
		for _, call := range cas {
			ok := false
			why := "the CAS does not have the form CompareAndSwap(x, x+2k) with x the value just loaded"
			if len(call.Args) == 2 && isVar(vars, call.Args[0]) {
				if be, isB := an.Unparen(call.Args[1]).(*ast.BinaryExpr); isB && be.Op == token.ADD {
					var k ast.Expr
					if isVar(vars, be.X) {
						k = be.Y
					} else if isVar(vars, be.Y) {
						k = be.X
					}
					if k != nil {
						if v, isC := an.ConstInt(info, k); isC {
							delta = v
							ok = v > 0 && v%2 == 0
							if !ok {
								why = "the writer count is incremented by " + lsItoa(int(v)) + ": an odd or non-positive step corrupts the closed bit (bit 0) that Close tests"
							}
						}
					}
				}
			}
			r.Check(ok, "C26.4", "UConn.Write:cas-increment", c.Pos(call), "writer count incremented by "+lsItoa(int(delta))+" leaving bit 0 alone", why)
			// closed-bit test precedes the CAS
			p, _ := pointOf(fn, call)
			r.Check(len(pass) > 0 && fn.MustPass(p, nil, pass), "C26.4", "UConn.Write:closed-bit-first", c.Pos(call),
				"the CAS is only reached after the closed bit was found clear", "the CAS is reachable without testing bit 0 of activeCall first: a Write can start on a connection Close has already marked closed")
		}
		for _, fe := range fail {
			ok, why := failEdgeExits(fn, fe, nil)
			r.Check(ok, "C26.4", "UConn.Write:closed-exit", c.PosP(an.Point{B: fe.B, I: len(fe.B.Nodes) - 1}), "closed bit set -> error return", "closed bit set: "+why)
		}
		// the deferred decrement
		var defs []an.Point
		for _, b := range fn.G.Blocks {
			if !b.Live {
				continue
			}
			for i, n := range b.Nodes {
				d, ok := n.(*ast.DeferStmt)
				if !ok {
					continue
				}
				call, ok := atomicOn(d.Call, "Add")
				if !ok || len(call.Args) != 1 {
					continue
				}
				v, isC := an.ConstInt(info, call.Args[0])
				p := an.Point{B: b, I: i}
				defs = append(defs, p)
				r.Check(isC && delta != 0 && v == -delta, "C26.4", "UConn.Write:deferred-decrement", c.Pos(d), "deferred Add("+lsItoa(int(v))+") undoes the increment",
					"the deferred Add does not undo the CAS increment ("+lsItoa(int(v))+" vs +"+lsItoa(int(delta))+"): activeCall drifts and Close either never sends close_notify or sees bit 0 flip")
				r.Check(len(succ) > 0 && fn.MustPass(p, nil, succ), "C26.4", "UConn.Write:decrement-only-after-cas", c.Pos(d), "registered only after a successful CAS",
					"the decrement is registered on a path where the CAS did not succeed: activeCall goes negative/odd")
				r.Check(!fn.Reach(p, nil, nil)[p], "C26.4", "UConn.Write:decrement-once", c.Pos(d), "registered at most once per call",
					"the deferred decrement can be registered more than once per Write (it lies on a cycle)")
			}
		}
		if len(defs) == 0 {
			r.Bad("C26.4", "UConn.Write:deferred-decrement", c.Pos(fn.Decl), "no deferred activeCall.Add(-2): after a Write the writer count never returns to zero and Close skips close_notify forever")
		}
		// every exit after a successful CAS passes the registration
		for _, se := range succ {
			start := an.Point{B: se.B, I: len(se.B.Nodes) - 1}
			bp := map[an.Point]bool{}
			for _, d := range defs {
				bp[d] = true
			}
			exits := fn.ExitsReachable(start, bp, edgesExcept(se))
			// calls made before the registration
			early := false
			for p := range fn.Reach(start, bp, edgesExcept(se)) {
				if p.I < 0 || bp[p] {
					continue
				}
				if an.Contains(p.Node(), func(n ast.Node) bool {
					call, ok := n.(*ast.CallExpr)
					if !ok {
						return false
					}
					f, _ := an.Callee(info, call).(*types.Func)
					return f != nil && f.Pkg() == c.P.TLS.Types
				}) {
					if _, isDefer := p.Node().(*ast.DeferStmt); !isDefer {
						early = true
					}
				}
			}
			r.Check(len(exits) == 0 && !early, "C26.4", "UConn.Write:decrement-on-all-paths", c.PosP(start), "every path after a successful CAS registers the decrement before doing anything else",
				"after a successful CAS some path returns (or calls into the connection, which may panic) before the decrement is registered: the writer count leaks and Close never sends close_notify")
		}
	}
	// ---- Close (UConn does not override it; the Conn method is the one a UConn runs)
	recv := "UConn"
	if load.FuncDecl(c.P.TLS, "UConn", "Close") == nil {
		recv = "Conn"
	}
	if fn := c.Fn("C26.4", recv, "Close"); fn != nil {
		vars := loadVars(fn)
		pass, _ := bitTest(fn, vars)
		_, _, cas := casEdges(fn)
		if len(cas) == 0 {
			r.Unknown("C26.4", recv+".Close:cas", c.Pos(fn.Decl), "no `if activeCall.CompareAndSwap(…)` found")
		}
		for _, call := range cas {
			ok := false
			if len(call.Args) == 2 && isVar(vars, call.Args[0]) {
				if be, isB := an.Unparen(call.Args[1]).(*ast.BinaryExpr); isB && be.Op == token.OR {
					var k ast.Expr
					if isVar(vars, be.X) {
						k = be.Y
					} else if isVar(vars, be.Y) {
						k = be.X
					}
					if v, isC := an.ConstInt(info, k); k != nil && isC && v == 1 {
						ok = true
					}
				}
			}
			r.Check(ok, "C26.4", recv+".Close:sets-closed-bit", c.Pos(call), "Close publishes bit 0 with CompareAndSwap(x, x|1)", "Close does not set exactly bit 0 of activeCall: Write's closed test (x&1) no longer sees Close")
			p, _ := pointOf(fn, call)
			r.Check(len(pass) > 0 && fn.MustPass(p, nil, pass), "C26.4", recv+".Close:closed-bit-first", c.Pos(call), "double Close detected before the CAS", "the CAS is reachable without testing bit 0 first: a second Close is not reported as net.ErrClosed")
		}
		// in-flight writers: x != 0 must not reach closeNotify (which takes c.out and may block)
		idle, _, _ := condEdges(fn, func(cond ast.Expr) (bool, bool) {
			be, ok := cond.(*ast.BinaryExpr)
			if !ok || (be.Op != token.NEQ && be.Op != token.EQL) {
				return false, false
			}
			var other ast.Expr
			switch {
			case isVar(vars, be.X):
				other = be.Y
			case isVar(vars, be.Y):
				other = be.X
			default:
				return false, false
			}
			if v, isC := an.ConstInt(info, other); !isC || v != 0 {
				return false, false
			}
			return true, be.Op == token.EQL
		})
		cn := fn.Find(an.CallTo(info, Mod, "Conn", "closeNotify"))
		if len(cn) == 0 {
			r.Unknown("C26.4", recv+".Close:closeNotify", c.Pos(fn.Decl), "call to closeNotify not found in Close")
		}
		for _, p := range cn {
			r.Check(len(idle) > 0 && fn.MustPass(p, nil, idle), "C26.4", recv+".Close:no-closeNotify-while-writing", c.PosP(p),
				"closeNotify (which takes c.out) is only reached when no Write is in flight",
				"Close reaches closeNotify while a Write may be in flight: it blocks on c.out behind the very Write it is meant to interrupt")
		}
	}
	r.Floor("C26.4", 10)
}
