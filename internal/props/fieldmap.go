package props

import (
	"go/ast"
	"go/token"
	"go/types"
	"sort"
	"strings"

	"verif/internal/an"

	"golang.org/x/tools/go/packages"
)

// fieldMap is the mapping extracted from a converter: destination field path -> source
// field paths (relative to the receiver / ranged element of the receiver).
type fieldMap struct {
	fn      *ast.FuncDecl
	srcType string // struct name of the receiver (element)
	dstType string // struct name of the result (element)
	m       map[string][]string
	dstPos  map[string]token.Pos
	opaque  []string // destination fields whose value mentions no receiver field
}

// structElem unwraps pointers, named slices and slices down to a named struct.
func structElem(t types.Type) (*types.Named, *types.Struct) {
	for i := 0; i < 6; i++ {
		switch x := t.(type) {
		case *types.Pointer:
			t = x.Elem()
		case *types.Slice:
			t = x.Elem()
		case *types.Alias:
			t = types.Unalias(x)
		case *types.Named:
			if st, ok := x.Underlying().(*types.Struct); ok {
				return x, st
			}
			t = x.Underlying()
		default:
			return nil, nil
		}
	}
	return nil, nil
}

// extractFieldMap analyses converter fd (a method). Returns nil if it has no struct-to-struct shape.
func extractFieldMap(pkg *packages.Package, fd *ast.FuncDecl) *fieldMap {
	info := pkg.TypesInfo
	if fd.Recv == nil || len(fd.Recv.List) == 0 || len(fd.Recv.List[0].Names) == 0 || fd.Type.Results == nil || len(fd.Type.Results.List) != 1 {
		return nil
	}
	recvObj := info.Defs[fd.Recv.List[0].Names[0]]
	if recvObj == nil {
		return nil
	}
	srcN, _ := structElem(recvObj.Type())
	dstN, _ := structElem(info.TypeOf(fd.Type.Results.List[0].Type))
	if srcN == nil || dstN == nil {
		return nil
	}
	fm := &fieldMap{fn: fd, srcType: srcN.Obj().Name(), dstType: dstN.Obj().Name(), m: map[string][]string{}, dstPos: map[string]token.Pos{}}
	// roots: the receiver and every range value variable ranging over the receiver
	roots := map[types.Object]bool{recvObj: true}
	ast.Inspect(fd.Body, func(n ast.Node) bool {
		rs, ok := n.(*ast.RangeStmt)
		if !ok {
			return true
		}
		if id, ok := an.Unparen(rs.X).(*ast.Ident); ok && info.Uses[id] == recvObj {
			if v, ok := rs.Value.(*ast.Ident); ok {
				if o := info.Defs[v]; o != nil {
					roots[o] = true
				}
			}
		}
		return true
	})
	// local variables bound to composite literals of struct type (inlined on use)
	localLit := map[types.Object]*ast.CompositeLit{}
	ast.Inspect(fd.Body, func(n ast.Node) bool {
		as, ok := n.(*ast.AssignStmt)
		if !ok || as.Tok != token.DEFINE || len(as.Lhs) != 1 || len(as.Rhs) != 1 {
			return true
		}
		id, ok := as.Lhs[0].(*ast.Ident)
		if !ok {
			return true
		}
		rhs := an.Unparen(as.Rhs[0])
		if u, ok := rhs.(*ast.UnaryExpr); ok && u.Op == token.AND {
			rhs = an.Unparen(u.X)
		}
		if cl, ok := rhs.(*ast.CompositeLit); ok {
			if _, st := structElem(info.TypeOf(cl)); st != nil {
				localLit[info.Defs[id]] = cl
			}
		}
		return true
	})
	var sources func(e ast.Expr, depth int) []string
	sources = func(e ast.Expr, depth int) []string {
		set := map[string]bool{}
		var walk func(n ast.Node)
		walk = func(n ast.Node) {
			ast.Inspect(n, func(x ast.Node) bool {
				switch v := x.(type) {
				case *ast.CallExpr:
					// method call on a struct-valued field path of the receiver: inline one level
					if se, ok := v.Fun.(*ast.SelectorExpr); ok && depth > 0 {
						if p, ok := fieldPath(info, se.X, roots); ok && p != "" {
							if callee, _ := an.Callee(info, v).(*types.Func); callee != nil && !isConverterName(callee.Name()) {
								if cfd := declOf(pkg, callee); cfd != nil && cfd.Recv != nil && len(cfd.Recv.List[0].Names) > 0 {
									ro := info.Defs[cfd.Recv.List[0].Names[0]]
									sub := map[types.Object]bool{ro: true}
									found := false
									ast.Inspect(cfd.Body, func(y ast.Node) bool {
										if sp, ok := y.(*ast.SelectorExpr); ok {
											if q, ok := fieldPath(info, sp, sub); ok && q != "" {
												set[p+"."+q] = true
												found = true
												return false
											}
										}
										return true
									})
									if found {
										for _, a := range v.Args {
											walk(a)
										}
										return false
									}
								}
							}
						}
					}
				case *ast.SelectorExpr:
					if p, ok := fieldPath(info, v, roots); ok && p != "" {
						set[p] = true
						return false
					}
				}
				return true
			})
		}
		walk(e)
		var out []string
		for k := range set {
			out = append(out, k)
		}
		sort.Strings(out)
		return out
	}
	var addLit func(prefix string, cl *ast.CompositeLit)
	addLit = func(prefix string, cl *ast.CompositeLit) {
		for _, el := range cl.Elts {
			kv, ok := el.(*ast.KeyValueExpr)
			if !ok {
				continue
			}
			key, ok := kv.Key.(*ast.Ident)
			if !ok {
				continue
			}
			name := prefix + key.Name
			val := an.Unparen(kv.Value)
			if id, ok := val.(*ast.Ident); ok {
				if lit := localLit[info.Uses[id]]; lit != nil {
					addLit(name+".", lit)
					continue
				}
			}
			if lit, ok := val.(*ast.CompositeLit); ok {
				if _, st := structElem(info.TypeOf(lit)); st != nil {
					addLit(name+".", lit)
					continue
				}
			}
			src := sources(kv.Value, 1)
			fm.dstPos[name] = kv.Pos()
			if len(src) == 0 {
				fm.opaque = append(fm.opaque, name)
				continue
			}
			fm.m[name] = append(fm.m[name], src...)
		}
	}
	// the result literal(s): composite literals of the destination type that are returned or appended
	var resultVars = map[types.Object]bool{}
	ast.Inspect(fd.Body, func(n ast.Node) bool {
		if _, ok := n.(*ast.FuncLit); ok {
			return false
		}
		cl, ok := n.(*ast.CompositeLit)
		if !ok {
			return true
		}
		nm, _ := structElem(info.TypeOf(cl))
		if nm == nil || nm.Obj() != dstN.Obj() {
			return true
		}
		if len(cl.Elts) == 0 {
			return true // zero value for the nil case
		}
		addLit("", cl)
		return true
	})
	// res := T{...}; res.F = expr
	for o, cl := range localLit {
		nm, _ := structElem(info.TypeOf(cl))
		if nm != nil && nm.Obj() == dstN.Obj() {
			resultVars[o] = true
		}
	}
	ast.Inspect(fd.Body, func(n ast.Node) bool {
		as, ok := n.(*ast.AssignStmt)
		if !ok || len(as.Lhs) != len(as.Rhs) {
			return true
		}
		for i, l := range as.Lhs {
			if p, ok := fieldPath(info, l, resultVars); ok && p != "" {
				src := sources(as.Rhs[i], 1)
				fm.dstPos[p] = l.Pos()
				if len(src) == 0 {
					fm.opaque = append(fm.opaque, p)
					continue
				}
				for _, s := range src {
					if !contains(fm.m[p], s) {
						fm.m[p] = append(fm.m[p], s)
					}
				}
			}
		}
		return true
	})
	if len(fm.m) == 0 {
		return nil
	}
	return fm
}

func contains(l []string, s string) bool {
	for _, x := range l {
		if x == s {
			return true
		}
	}
	return false
}

// fieldPath returns the dotted field path of a selector chain rooted at one of roots
// ("" if e is the root itself).
func fieldPath(info *types.Info, e ast.Expr, roots map[types.Object]bool) (string, bool) {
	e = an.Unparen(e)
	switch x := e.(type) {
	case *ast.Ident:
		o := info.Uses[x]
		if o == nil {
			o = info.Defs[x]
		}
		if o != nil && roots[o] {
			return "", true
		}
		return "", false
	case *ast.StarExpr:
		return fieldPath(info, x.X, roots)
	case *ast.IndexExpr:
		// an element of a root slice (for i := range recv { … recv[i].f … })
		return fieldPath(info, x.X, roots)
	case *ast.SelectorExpr:
		sel := info.Selections[x]
		if sel == nil || sel.Kind() != types.FieldVal {
			return "", false
		}
		p, ok := fieldPath(info, x.X, roots)
		if !ok {
			return "", false
		}
		if p == "" {
			return x.Sel.Name, true
		}
		return p + "." + x.Sel.Name, true
	}
	return "", false
}

func declOf(pkg *packages.Package, fn *types.Func) *ast.FuncDecl {
	for _, f := range pkg.Syntax {
		for _, d := range f.Decls {
			if fd, ok := d.(*ast.FuncDecl); ok && pkg.TypesInfo.Defs[fd.Name] == fn {
				return fd
			}
		}
	}
	return nil
}

// structFields lists the field names of named struct `name` in pkg, with Deprecated doc flags.
func structFields(pkg *packages.Package, name string) (fields []string, deprecated map[string]bool) {
	deprecated = map[string]bool{}
	for _, f := range pkg.Syntax {
		for _, d := range f.Decls {
			gd, ok := d.(*ast.GenDecl)
			if !ok || gd.Tok != token.TYPE {
				continue
			}
			for _, sp := range gd.Specs {
				ts := sp.(*ast.TypeSpec)
				if ts.Name.Name != name {
					continue
				}
				st, ok := ts.Type.(*ast.StructType)
				if !ok {
					return
				}
				for _, fl := range st.Fields.List {
					dep := fl.Doc != nil && strings.Contains(fl.Doc.Text(), "Deprecated:")
					for _, n := range fl.Names {
						fields = append(fields, n.Name)
						if dep {
							deprecated[n.Name] = true
						}
					}
				}
				return
			}
		}
	}
	return
}

// fieldsTouched computes the receiver fields read and written in fd (closures included).
// A field is written if it is an assignment target, the operand of & (out parameter), or a
// key of a composite literal of the receiver's struct assigned through *recv.
func fieldsTouched(pkg *packages.Package, fd *ast.FuncDecl) (reads, writes map[string]token.Pos) {
	info := pkg.TypesInfo
	reads, writes = map[string]token.Pos{}, map[string]token.Pos{}
	if fd.Recv == nil || len(fd.Recv.List[0].Names) == 0 {
		return
	}
	recvObj := info.Defs[fd.Recv.List[0].Names[0]]
	roots := map[types.Object]bool{recvObj: true}
	recvN, _ := structElem(recvObj.Type())
	written := map[ast.Node]bool{}
	first := func(p string) string {
		if i := strings.IndexByte(p, '.'); i >= 0 {
			return p[:i]
		}
		return p
	}
	mark := func(e ast.Expr) {
		e = an.Unparen(e)
		// strip index/slice
		for {
			switch x := e.(type) {
			case *ast.IndexExpr:
				e = an.Unparen(x.X)
				continue
			case *ast.SliceExpr:
				e = an.Unparen(x.X)
				continue
			}
			break
		}
		if p, ok := fieldPath(info, e, roots); ok && p != "" {
			if _, dup := writes[first(p)]; !dup {
				writes[first(p)] = e.Pos()
			}
			written[e] = true
		}
	}
	ast.Inspect(fd.Body, func(n ast.Node) bool {
		switch s := n.(type) {
		case *ast.AssignStmt:
			for _, l := range s.Lhs {
				mark(l)
				// *m = T{f: ...}
				if st, ok := an.Unparen(l).(*ast.StarExpr); ok {
					if id, ok := an.Unparen(st.X).(*ast.Ident); ok && info.Uses[id] == recvObj && len(s.Rhs) == 1 {
						if cl, ok := an.Unparen(s.Rhs[0]).(*ast.CompositeLit); ok {
							for _, el := range cl.Elts {
								if kv, ok := el.(*ast.KeyValueExpr); ok {
									if k, ok := kv.Key.(*ast.Ident); ok {
										writes[k.Name] = k.Pos()
									}
								}
							}
						}
					}
				}
			}
		case *ast.IncDecStmt:
			mark(s.X)
		case *ast.UnaryExpr:
			if s.Op == token.AND {
				mark(s.X)
			}
		}
		return true
	})
	_ = recvN
	ast.Inspect(fd.Body, func(n ast.Node) bool {
		se, ok := n.(*ast.SelectorExpr)
		if !ok {
			return true
		}
		if p, ok := fieldPath(info, se, roots); ok && p != "" {
			if !written[se] {
				if _, dup := reads[first(p)]; !dup {
					reads[first(p)] = se.Pos()
				}
			}
			return false
		}
		return true
	})
	return
}

func isConverterName(n string) bool {
	return converterName.MatchString(n) || n == "ToPublic" || n == "ToPrivate"
}
