package props

import (
	"fmt"
	"go/ast"
	"go/constant"
	"go/token"
	"go/types"
	"sort"
	"strings"

	"verif/internal/an"
	"verif/internal/load"

	"golang.org/x/tools/go/packages"
)

func init() { register(&Prop{ID: "C32", Run: runC32}) }

// dictTable is one evaluated map literal of package dicttls.
type dictTable struct {
	name    string
	pos     token.Pos
	byValue bool                // map[K]string
	kv      map[string]string   // value-indexed: exact key -> name ; name-indexed: name -> exact value
	order   []string            // keys in source order
	entryAt map[string]token.Pos
}

func evalDictTables(c *Ctx, pkg *packages.Package) map[string]*dictTable {
	out := map[string]*dictTable{}
	info := pkg.TypesInfo
	for _, f := range pkg.Syntax {
		for _, d := range f.Decls {
			gd, ok := d.(*ast.GenDecl)
			if !ok || gd.Tok != token.VAR {
				continue
			}
			for _, sp := range gd.Specs {
				vs := sp.(*ast.ValueSpec)
				for i, id := range vs.Names {
					if !strings.HasPrefix(id.Name, "Dict") || i >= len(vs.Values) {
						continue
					}
					cl, ok := vs.Values[i].(*ast.CompositeLit)
					if !ok {
						c.R.Unknown("C32.1", id.Name, c.P.Pos(id.Pos()), "dictionary is not a composite literal")
						continue
					}
					mt, ok := info.TypeOf(cl).Underlying().(*types.Map)
					if !ok {
						continue
					}
					t := &dictTable{name: id.Name, pos: id.Pos(), kv: map[string]string{}, entryAt: map[string]token.Pos{}}
					if b, ok := mt.Elem().Underlying().(*types.Basic); ok && b.Kind() == types.String {
						t.byValue = true
					}
					bad := false
					for _, el := range cl.Elts {
						kv, ok := el.(*ast.KeyValueExpr)
						if !ok {
							bad = true
							break
						}
						k, v := info.Types[kv.Key].Value, info.Types[kv.Value].Value
						if k == nil || v == nil {
							bad = true
							break
						}
						ks, vs2 := constKey(k), constKey(v)
						t.kv[ks] = vs2
						t.order = append(t.order, ks)
						t.entryAt[ks] = kv.Pos()
					}
					if bad {
						c.R.Unknown("C32.1", id.Name, c.P.Pos(id.Pos()), "dictionary entry is not a constant key/value")
						continue
					}
					out[id.Name] = t
				}
			}
		}
	}
	return out
}

func constKey(v constant.Value) string {
	if v.Kind() == constant.String {
		return constant.StringVal(v)
	}
	return constant.ToInt(v).ExactString()
}

// jsonDictSites: which dictionary each JSON decoder must consult, and the receiver field
// (or local flowing to it) the looked-up code point must reach. One line of reason each.
var jsonDictSites = []struct{ recv, dict, field, why string }{
	{"CipherSuitesJSONUnmarshaler", "DictCipherSuiteNameIndexed", "cipherSuites", "cipher suite names (IANA tls-parameters-4)"},
	{"CompressionMethodsJSONUnmarshaler", "DictCompMethNameIndexed", "compressionMethods", "compression method names"},
	{"TLSExtensionsJSONUnmarshaler", "DictExtTypeNameIndexed", "extensions", "extension type names select the extension implementation"},
	{"SupportedCurvesExtension", "DictSupportedGroupsNameIndexed", "Curves", "named groups"},
	{"SupportedPointsExtension", "DictECPointFormatNameIndexed", "SupportedPoints", "EC point formats"},
	{"SignatureAlgorithmsExtension", "DictSignatureSchemeNameIndexed", "SupportedSignatureAlgorithms", "signature schemes"},
	{"SignatureAlgorithmsCertExtension", "DictSignatureSchemeNameIndexed", "SupportedSignatureAlgorithms", "signature schemes (cert)"},
	{"FakeDelegatedCredentialsExtension", "DictSignatureSchemeNameIndexed", "SupportedSignatureAlgorithms", "signature schemes (delegated credentials)"},
	{"GenericExtension", "DictExtTypeNameIndexed", "Id", "generic extension id by name"},
	{"UtlsCompressCertExtension", "DictCertificateCompressionAlgorithmNameIndexed", "Algorithms", "certificate compression algorithms"},
	{"KeyShareExtension", "DictSupportedGroupsNameIndexed", "KeyShares", "key share groups are named groups"},
	{"PSKKeyExchangeModesExtension", "DictPSKKeyExchangeModeNameIndexed", "Modes", "psk key exchange modes"},
}

func runC32(c *Ctx) {
	r := c.R
	r.Technique = "constant evaluation of dicttls map literals (go/constant) + type-resolved dictionary-use rules on JSON decoders (AST/CFG)"
	r.Explanation = "C32.1: every entry v->name of every dicttls value-indexed map literal is evaluated and name->v is looked up in the paired name-indexed literal (exhaustive over all entries). " +
		"C32.2: declared dicttls constants whose name matches a dictionary name carry the dictionary's value (third table agreeing). " +
		"C32.3: each JSON decoder indexes exactly the dictionary of its own registry, the hit reaches the decoder's own field, and the miss edge returns a non-nil error. " +
		"C32.4: root-package code-point constants agree with the dictionary entry of the same name; the version-name switch of supported_versions agrees with VersionName. " +
		"C32.5: JSON and raw importers both construct extensions through ExtensionFromID and share the real/fake PSK switch."
	r.NotDecided = "wire equality of a JSON-built and a raw-built ClientHello on a concrete connection"
	dp := c.P.Pkg("dicttls")
	if dp == nil {
		r.Unknown("C32.1", "dicttls", "", "package dicttls not found")
		return
	}
	tabs := evalDictTables(c, dp)
	var names []string
	for n := range tabs {
		names = append(names, n)
	}
	sort.Strings(names)
	pairs := 0
	entries := 0
	for _, n := range names {
		t := tabs[n]
		if !t.byValue || !strings.HasSuffix(n, "ValueIndexed") {
			continue
		}
		pn := strings.TrimSuffix(n, "ValueIndexed") + "NameIndexed"
		pt := tabs[pn]
		if pt == nil {
			// a value table without a name table cannot violate "resolves back through the corresponding name-indexed table"
			r.Ok("C32.1-pair", n, c.P.Pos(t.pos), "no name-indexed counterpart declared (nothing to resolve through)")
			continue
		}
		pairs++
		for _, k := range t.order {
			name := t.kv[k]
			back, ok := pt.kv[name]
			cons := fmt.Sprintf("%s[%s]", n, k)
			entries++
			switch {
			case !ok:
				r.Bad("C32.1", cons, c.P.Pos(t.entryAt[k]), "value %s is named %q but %s has no entry %q", k, name, pn, name)
			case back != k:
				r.Bad("C32.1", cons, c.P.Pos(t.entryAt[k]), "value %s is named %q but %s[%q] = %s", k, name, pn, name, back)
			default:
				r.Ok("C32.1", cons, c.P.Pos(t.entryAt[k]), "%q -> %s", name, back)
			}
		}
	}
	r.Count("dict_pairs", pairs)
	r.Count("dict_entries", entries)
	r.Extra["exhaustive"] = true
	r.Floor("C32.1", 700)
	if pairs < 28 {
		r.Unknown("C32.1", "pairs", "", "only %d dictionary pairs found, 28 confirmed by hand", pairs)
	}

	// C32.2 declared constants vs dictionary of the same file
	c32Consts(c, dp, tabs)
	// C32.3 JSON decoders
	c32JSONSites(c, dp)
	// C32.4 root constants
	c32RootConsts(c, tabs)
	c32VersionNames(c)
	c32Registry(c)
}

func sanitize(s string) string {
	var b strings.Builder
	for _, ch := range s {
		if ch >= 'a' && ch <= 'z' || ch >= 'A' && ch <= 'Z' || ch >= '0' && ch <= '9' {
			b.WriteRune(ch)
		} else {
			b.WriteByte('_')
		}
	}
	return b.String()
}

// c32Consts: a constant declared in the same file as a name-indexed dictionary whose
// identifier equals <Prefix>_<sanitized name> (or the name itself) must equal the dictionary value.
func c32Consts(c *Ctx, dp *packages.Package, tabs map[string]*dictTable) {
	info := dp.TypesInfo
	n := 0
	for _, f := range dp.Syntax {
		// name tables of this file
		var local []*dictTable
		for _, t := range tabs {
			if !t.byValue && c.P.Fset.File(t.pos) == c.P.Fset.File(f.Pos()) {
				local = append(local, t)
			}
		}
		if len(local) == 0 {
			continue
		}
		sort.Slice(local, func(i, j int) bool { return local[i].name < local[j].name })
		for _, d := range f.Decls {
			gd, ok := d.(*ast.GenDecl)
			if !ok || gd.Tok != token.CONST {
				continue
			}
			for _, sp := range gd.Specs {
				vs := sp.(*ast.ValueSpec)
				for _, id := range vs.Names {
					obj, _ := info.Defs[id].(*types.Const)
					if obj == nil || obj.Val().Kind() != constant.Int {
						continue
					}
					val := constant.ToInt(obj.Val()).ExactString()
					for _, t := range local {
						for name, v := range t.kv {
							s := sanitize(name)
							if id.Name == name || id.Name == s || strings.HasSuffix(id.Name, "_"+s) && strings.Count(id.Name, "_") == strings.Count(s, "_")+1 {
								n++
								cons := fmt.Sprintf("%s~%s[%q]", id.Name, t.name, name)
								if v != val {
									c.R.Bad("C32.2", cons, c.P.Pos(id.Pos()), "constant %s = %s but dictionary maps %q to %s", id.Name, val, name, v)
								} else {
									c.R.Ok("C32.2", cons, c.P.Pos(id.Pos()), "= %s", v)
								}
							}
						}
					}
				}
			}
		}
	}
	c.R.Count("const_dictionary_matches", n)
	c.R.Floor("C32.2", 300)
}

func c32JSONSites(c *Ctx, dp *packages.Package) {
	tls := c.P.TLS
	info := tls.TypesInfo
	isDict := func(e ast.Expr) string {
		var id *ast.Ident
		switch x := e.(type) {
		case *ast.SelectorExpr:
			id = x.Sel
		case *ast.Ident:
			id = x
		default:
			return ""
		}
		v, ok := info.Uses[id].(*types.Var)
		if !ok || v.Pkg() == nil || v.Pkg() != dp.Types || !strings.HasPrefix(v.Name(), "Dict") {
			return ""
		}
		return v.Name()
	}
	expected := map[string]struct{ dict, field, why string }{}
	for _, s := range jsonDictSites {
		expected[s.recv] = struct{ dict, field, why string }{s.dict, s.field, s.why}
	}
	seenRecv := map[string]bool{}
	for _, fd := range load.AllFuncDecls(tls) {
		recv := load.RecvName(fd)
		fn := an.NewFn(tls, fd)
		hits := fn.FindNodes(func(n ast.Node) bool {
			ix, ok := n.(*ast.IndexExpr)
			return ok && isDict(ix.X) != ""
		})
		for _, h := range hits {
			ix := h.N.(*ast.IndexExpr)
			dict := isDict(ix.X)
			cons := fmt.Sprintf("%s.%s[%s]", recv, fd.Name.Name, dict)
			pos := c.P.Pos(ix.Pos())
			if fd.Name.Name != "UnmarshalJSON" {
				c.R.Ok("C32.3-site", cons, pos, "dictionary use outside a JSON decoder (not constrained)")
				continue
			}
			exp, ok := expected[recv]
			if !ok {
				c.R.Unknown("C32.3", cons, pos, "JSON decoder %s consults %s but has no confirmed registry entry in the checker table", recv, dict)
				continue
			}
			seenRecv[recv] = true
			if dict != exp.dict {
				c.R.Bad("C32.3", cons, pos, "%s.UnmarshalJSON consults %s; its registry is %s (%s)", recv, dict, exp.dict, exp.why)
				continue
			}
			c.R.Ok("C32.3", cons, pos, "consults its own registry (%s)", exp.why)
			c32LookupIdiom(c, fn, h, recv, exp.field)
		}
	}
	for _, s := range jsonDictSites {
		if !seenRecv[s.recv] {
			c.R.Bad("C32.3", s.recv+".UnmarshalJSON", "", "JSON decoder no longer consults dictionary %s (%s)", s.dict, s.why)
		}
	}
	c.R.Floor("C32.3", 12)
}

// c32LookupIdiom checks `v, ok := Dict[name]`: the ok edge stores v (possibly converted)
// into receiver field `field`; the !ok edge leaves with a non-nil error.
func c32LookupIdiom(c *Ctx, fn *an.Fn, h an.Hit, recv, field string) {
	info := fn.Info
	cons := fmt.Sprintf("%s.UnmarshalJSON lookup", recv)
	pos := c.P.Pos(h.N.Pos())
	as, ok := h.P.Node().(*ast.AssignStmt)
	if !ok || len(as.Lhs) != 2 || len(as.Rhs) != 1 || as.Rhs[0] != h.N {
		c.R.Bad("C32.3-idiom", cons, pos, "dictionary is not read with the comma-ok form, a missing name cannot be told from code point 0")
		return
	}
	vID, _ := as.Lhs[0].(*ast.Ident)
	okID, _ := as.Lhs[1].(*ast.Ident)
	if vID == nil || okID == nil {
		c.R.Unknown("C32.3-idiom", cons, pos, "unrecognised lookup form")
		return
	}
	vObj, okObj := info.Defs[vID], info.Defs[okID]
	if vObj == nil {
		vObj = info.Uses[vID]
	}
	if okObj == nil {
		okObj = info.Uses[okID]
	}
	// find the condition block testing ok
	var okEdge, missEdge an.Edge
	found := false
	for _, b := range fn.G.Blocks {
		if !b.Live {
			continue
		}
		t, f, isCond := an.CondEdges(b)
		if !isCond {
			continue
		}
		cond := an.Unparen(b.Nodes[len(b.Nodes)-1].(ast.Expr))
		neg := false
		if u, ok := cond.(*ast.UnaryExpr); ok && u.Op == token.NOT {
			neg = true
			cond = an.Unparen(u.X)
		}
		if id, ok := cond.(*ast.Ident); ok && info.Uses[id] == okObj {
			if neg {
				okEdge, missEdge = f, t
			} else {
				okEdge, missEdge = t, f
			}
			found = true
		}
	}
	if !found {
		c.R.Bad("C32.3-idiom", cons, pos, "the ok result of the dictionary lookup is never tested")
		return
	}
	// every store of the looked-up value lies behind the ok edge
	stores := fn.FindNodes(func(n ast.Node) bool {
		a, ok := n.(*ast.AssignStmt)
		if !ok || a == as {
			return false
		}
		for _, rhs := range a.Rhs {
			if an.MentionsObj(info, rhs, vObj) {
				return true
			}
		}
		return false
	})
	reachesField := false
	for _, s := range stores {
		if !fn.MustPass(s.P, nil, []an.Edge{okEdge}) {
			c.R.Bad("C32.3-idiom", cons, c.P.Pos(s.N.Pos()), "looked-up value is used on a path where the name was not found")
			return
		}
		a := s.N.(*ast.AssignStmt)
		for _, l := range a.Lhs {
			if an.MentionsField(info, l, recv, field) {
				reachesField = true
			}
		}
	}
	// value may flow through a local composite (KeyShare{Group: CurveID(groupID)}) or a call (ExtensionFromID(extID))
	if !reachesField {
		// accept one hop: v -> local x ; x -> field
		for _, s := range stores {
			a := s.N.(*ast.AssignStmt)
			for _, l := range a.Lhs {
				id, ok := l.(*ast.Ident)
				if !ok {
					continue
				}
				lo := info.Defs[id]
				if lo == nil {
					lo = info.Uses[id]
				}
				if lo == nil {
					continue
				}
				if c32LocalReachesField(fn, lo, recv, field, 3) {
					reachesField = true
				}
			}
		}
	}
	if !reachesField {
		c.R.Bad("C32.3-idiom", cons, pos, "the code point found in the dictionary never reaches %s.%s", recv, field)
		return
	}
	// miss edge: all exits reachable from the miss edge without re-entering the loop body must be error returns.
	missTarget := missEdge.B.Succs[missEdge.K]
	var first an.Point
	if len(missTarget.Nodes) > 0 {
		first = an.Point{B: missTarget, I: 0}
	} else {
		first = an.Point{B: missTarget, I: -1}
	}
	okMiss := false
	if first.I == 0 {
		if rs, ok := first.Node().(*ast.ReturnStmt); ok && an.ReturnsNonNilError(info, rs) {
			okMiss = true
		}
	}
	if !okMiss {
		c.R.Bad("C32.3-idiom", cons, pos, "an unknown name does not immediately return an error (it would be dropped or mapped silently)")
		return
	}
	c.R.Ok("C32.3-idiom", cons, pos, "hit -> %s.%s behind the ok edge; miss -> error return", recv, field)
}

func c32LocalReachesField(fn *an.Fn, obj types.Object, recv, field string, depth int) bool {
	if depth == 0 {
		return false
	}
	info := fn.Info
	res := false
	for _, s := range fn.FindNodes(func(n ast.Node) bool {
		a, ok := n.(*ast.AssignStmt)
		if !ok {
			return false
		}
		for _, rhs := range a.Rhs {
			if an.MentionsObj(info, rhs, obj) {
				return true
			}
		}
		return false
	}) {
		a := s.N.(*ast.AssignStmt)
		for _, l := range a.Lhs {
			if an.MentionsField(info, l, recv, field) {
				return true
			}
			if id, ok := l.(*ast.Ident); ok {
				lo := info.Defs[id]
				if lo == nil {
					lo = info.Uses[id]
				}
				if lo != nil && lo != obj && c32LocalReachesField(fn, lo, recv, field, depth-1) {
					res = true
				}
			}
		}
	}
	return res
}

// c32RootConsts: exported integer constants of the root package whose identifier is a
// dictionary name (cipher suites TLS_*, and the explicit group/scheme table) agree with it.
func c32RootConsts(c *Ctx, tabs map[string]*dictTable) {
	scope := c.P.TLS.Types.Scope()
	cs := tabs["DictCipherSuiteNameIndexed"]
	n := 0
	if cs != nil {
		for _, name := range scope.Names() {
			k, ok := scope.Lookup(name).(*types.Const)
			if !ok || !strings.HasPrefix(name, "TLS_") || k.Val().Kind() != constant.Int {
				continue
			}
			v, ok := cs.kv[name]
			if !ok {
				continue
			}
			n++
			val := constant.ToInt(k.Val()).ExactString()
			c.R.Check(v == val, "C32.4", "tls."+name, c.P.Pos(k.Pos()), "= dicttls "+v, fmt.Sprintf("tls.%s = %s but DictCipherSuiteNameIndexed[%q] = %s", name, val, name, v))
		}
	}
	explicit := []struct{ konst, dict, name string }{
		{"CurveP256", "DictSupportedGroupsNameIndexed", "secp256r1"},
		{"CurveP384", "DictSupportedGroupsNameIndexed", "secp384r1"},
		{"CurveP521", "DictSupportedGroupsNameIndexed", "secp521r1"},
		{"X25519", "DictSupportedGroupsNameIndexed", "x25519"},
		{"PSSWithSHA256", "DictSignatureSchemeNameIndexed", "rsa_pss_rsae_sha256"},
		{"PSSWithSHA384", "DictSignatureSchemeNameIndexed", "rsa_pss_rsae_sha384"},
		{"PSSWithSHA512", "DictSignatureSchemeNameIndexed", "rsa_pss_rsae_sha512"},
		{"PKCS1WithSHA256", "DictSignatureSchemeNameIndexed", "rsa_pkcs1_sha256"},
		{"PKCS1WithSHA384", "DictSignatureSchemeNameIndexed", "rsa_pkcs1_sha384"},
		{"PKCS1WithSHA512", "DictSignatureSchemeNameIndexed", "rsa_pkcs1_sha512"},
		{"ECDSAWithP256AndSHA256", "DictSignatureSchemeNameIndexed", "ecdsa_secp256r1_sha256"},
		{"ECDSAWithP384AndSHA384", "DictSignatureSchemeNameIndexed", "ecdsa_secp384r1_sha384"},
		{"ECDSAWithP521AndSHA512", "DictSignatureSchemeNameIndexed", "ecdsa_secp521r1_sha512"},
		{"Ed25519", "DictSignatureSchemeNameIndexed", "ed25519"},
		{"PKCS1WithSHA1", "DictSignatureSchemeNameIndexed", "rsa_pkcs1_sha1"},
		{"ECDSAWithSHA1", "DictSignatureSchemeNameIndexed", "ecdsa_sha1"},
		{"extensionServerName", "DictExtTypeNameIndexed", "server_name"},
		{"extensionStatusRequest", "DictExtTypeNameIndexed", "status_request"},
		{"extensionSupportedCurves", "DictExtTypeNameIndexed", "supported_groups"},
		{"extensionSupportedPoints", "DictExtTypeNameIndexed", "ec_point_formats"},
		{"extensionSignatureAlgorithms", "DictExtTypeNameIndexed", "signature_algorithms"},
		{"extensionALPN", "DictExtTypeNameIndexed", "application_layer_protocol_negotiation"},
		{"extensionSCT", "DictExtTypeNameIndexed", "signed_certificate_timestamp"},
		{"extensionPadding", "DictExtTypeNameIndexed", "padding"},
		{"extensionExtendedMasterSecret", "DictExtTypeNameIndexed", "extended_master_secret"},
		{"extensionSessionTicket", "DictExtTypeNameIndexed", "session_ticket"},
		{"extensionPreSharedKey", "DictExtTypeNameIndexed", "pre_shared_key"},
		{"extensionEarlyData", "DictExtTypeNameIndexed", "early_data"},
		{"extensionSupportedVersions", "DictExtTypeNameIndexed", "supported_versions"},
		{"extensionCookie", "DictExtTypeNameIndexed", "cookie"},
		{"extensionPSKModes", "DictExtTypeNameIndexed", "psk_key_exchange_modes"},
		{"extensionCertificateAuthorities", "DictExtTypeNameIndexed", "certificate_authorities"},
		{"extensionSignatureAlgorithmsCert", "DictExtTypeNameIndexed", "signature_algorithms_cert"},
		{"extensionKeyShare", "DictExtTypeNameIndexed", "key_share"},
		{"extensionQUICTransportParameters", "DictExtTypeNameIndexed", "quic_transport_parameters"},
		{"extensionRenegotiationInfo", "DictExtTypeNameIndexed", "renegotiation_info"},
		{"extensionECH", "DictExtTypeNameIndexed", "encrypted_client_hello"},
		{"utlsExtensionCompressCertificate", "DictExtTypeNameIndexed", "compress_certificate"},
		{"utlsExtensionPadding", "DictExtTypeNameIndexed", "padding"},
		{"compressionNone", "DictCompMethNameIndexed", "NULL"},
		{"pskModePlain", "DictPSKKeyExchangeModeNameIndexed", "psk_ke"},
		{"pskModeDHE", "DictPSKKeyExchangeModeNameIndexed", "psk_dhe_ke"},
		{"PskModePlain", "DictPSKKeyExchangeModeNameIndexed", "psk_ke"},
		{"PskModeDHE", "DictPSKKeyExchangeModeNameIndexed", "psk_dhe_ke"},
		{"CertCompressionZlib", "DictCertificateCompressionAlgorithmNameIndexed", "zlib"},
		{"CertCompressionBrotli", "DictCertificateCompressionAlgorithmNameIndexed", "brotli"},
		{"CertCompressionZstd", "DictCertificateCompressionAlgorithmNameIndexed", "zstd"},
		{"pointFormatUncompressed", "DictECPointFormatNameIndexed", "uncompressed"},
	}
	for _, e := range explicit {
		k, ok := scope.Lookup(e.konst).(*types.Const)
		t := tabs[e.dict]
		if !ok || t == nil {
			continue // constant not present in this tree: nothing to compare
		}
		v, ok := t.kv[e.name]
		if !ok {
			c.R.Bad("C32.4", "tls."+e.konst, c.P.Pos(k.Pos()), "%s has no entry %q", e.dict, e.name)
			continue
		}
		n++
		val := constant.ToInt(k.Val()).ExactString()
		c.R.Check(v == val, "C32.4", "tls."+e.konst, c.P.Pos(k.Pos()), fmt.Sprintf("= %s[%q] = %s", e.dict, e.name, v),
			fmt.Sprintf("tls.%s = %s but %s[%q] = %s: the JSON importer would produce a different code point than the raw importer", e.konst, val, e.dict, e.name, v))
	}
	c.R.Count("root_constants_compared", n)
	c.R.Floor("C32.4", 40)
}

// c32VersionNames: the string cases of SupportedVersionsExtension.UnmarshalJSON append the
// version whose VersionName() is that string.
func c32VersionNames(c *Ctx) {
	tls := c.P.TLS
	info := tls.TypesInfo
	vn := load.FuncDecl(tls, "", "VersionName")
	uj := load.FuncDecl(tls, "SupportedVersionsExtension", "UnmarshalJSON")
	if vn == nil || uj == nil {
		c.R.Unknown("C32.4-versions", "anchors", "", "VersionName or SupportedVersionsExtension.UnmarshalJSON not found")
		return
	}
	nameOf := map[string]string{} // version value -> name
	ast.Inspect(vn.Body, func(n ast.Node) bool {
		cc, ok := n.(*ast.CaseClause)
		if !ok || len(cc.Body) != 1 {
			return true
		}
		ret, ok := cc.Body[0].(*ast.ReturnStmt)
		if !ok || len(ret.Results) != 1 {
			return true
		}
		s, ok := an.ConstString(info, ret.Results[0])
		if !ok {
			return true
		}
		for _, e := range cc.List {
			if v, ok := an.ConstInt(info, e); ok {
				nameOf[fmt.Sprint(v)] = s
			}
		}
		return true
	})
	n := 0
	ast.Inspect(uj.Body, func(x ast.Node) bool {
		cc, ok := x.(*ast.CaseClause)
		if !ok {
			return true
		}
		for _, e := range cc.List {
			s, ok := an.ConstString(info, e)
			if !ok || s == "GREASE" {
				continue
			}
			// appended constant
			for _, st := range cc.Body {
				as, ok := st.(*ast.AssignStmt)
				if !ok || len(as.Rhs) != 1 {
					continue
				}
				call, ok := as.Rhs[0].(*ast.CallExpr)
				if !ok || len(call.Args) != 2 {
					continue
				}
				v, ok := an.ConstInt(info, call.Args[1])
				if !ok {
					continue
				}
				n++
				want := nameOf[fmt.Sprint(v)]
				c.R.Check(want == s, "C32.4-versions", fmt.Sprintf("supported_versions[%q]", s), c.P.Pos(e.Pos()),
					fmt.Sprintf("appends 0x%04x whose VersionName is %q", v, want),
					fmt.Sprintf("JSON version %q appends 0x%04x, whose VersionName is %q", s, v, want))
			}
		}
		return true
	})
	c.R.Floor("C32.4-versions", 4)
}

// c32Registry: both importers build extension values through ExtensionFromID, and both
// apply the same real/fake pre_shared_key switch.
func c32Registry(c *Ctx) {
	tls := c.P.TLS
	info := tls.TypesInfo
	type site struct{ recv, name string }
	for _, s := range []site{{"TLSExtensionsJSONUnmarshaler", "UnmarshalJSON"}, {"ClientHelloSpec", "ReadTLSExtensions"}} {
		fd := load.FuncDecl(tls, s.recv, s.name)
		cons := s.recv + "." + s.name
		if fd == nil {
			c.R.Unknown("C32.5", cons, "", "importer not found")
			continue
		}
		calls := 0
		psk := 0
		ast.Inspect(fd.Body, func(n ast.Node) bool {
			if an.IsCallTo(info, n, load.ModPath, "", "ExtensionFromID") {
				calls++
			}
			if cl, ok := n.(*ast.CompositeLit); ok {
				tn := an.TypeName(info.TypeOf(cl))
				if tn == "UtlsPreSharedKeyExtension" || tn == "FakePreSharedKeyExtension" {
					psk++
				}
			}
			return true
		})
		c.R.Check(calls >= 1, "C32.5", cons+":ExtensionFromID", c.P.Pos(fd.Pos()), "constructs extensions through the shared registry ExtensionFromID",
			"importer no longer constructs extensions through ExtensionFromID: JSON and raw imports can disagree on the extension type for an id")
		c.R.Check(psk == 2, "C32.5", cons+":psk-switch", c.P.Pos(fd.Pos()), "real/fake pre_shared_key switch present",
			fmt.Sprintf("real/fake pre_shared_key switch has %d of 2 arms", psk))
	}
	c.R.Floor("C32.5", 4)
}
