package props

// Helpers shared by the C22 / C17 / C15 rule sets (all prefixed c22 to stay clear of other
// builders' names): error-result use analysis, condition atoms, field initialisations,
// success returns, constant-assumption pruning of switch/if edges.

import (
	"go/ast"
	"go/token"
	"go/types"

	"verif/internal/an"

	"golang.org/x/tools/go/cfg"
)

// c22Parents maps every node under root to its parent.
func c22Parents(root ast.Node) map[ast.Node]ast.Node {
	par := map[ast.Node]ast.Node{}
	var stack []ast.Node
	ast.Inspect(root, func(n ast.Node) bool {
		if n == nil {
			stack = stack[:len(stack)-1]
			return false
		}
		if len(stack) > 0 {
			par[n] = stack[len(stack)-1]
		}
		stack = append(stack, n)
		return true
	})
	return par
}

// c22IsErrorType reports whether t is the predeclared error interface.
func c22IsErrorType(t types.Type) bool {
	return t != nil && types.Identical(t, types.Universe.Lookup("error").Type())
}

// c22CallReturnsError: the call's last result is of type error; returns the number of results.
func c22CallReturnsError(info *types.Info, call *ast.CallExpr) (int, bool) {
	tv, ok := info.Types[call]
	if !ok {
		return 0, false
	}
	switch t := tv.Type.(type) {
	case *types.Tuple:
		if t.Len() == 0 {
			return 0, false
		}
		return t.Len(), c22IsErrorType(t.At(t.Len() - 1).Type())
	default:
		return 1, c22IsErrorType(t)
	}
}

// c22PointOf finds the CFG point whose node contains n.
func c22PointOf(fn *an.Fn, n ast.Node) (an.Point, bool) {
	for _, b := range fn.G.Blocks {
		if !b.Live {
			continue
		}
		for i, x := range b.Nodes {
			if x.Pos() <= n.Pos() && n.End() <= x.End() {
				// a RangeStmt's X/Key/Value are separate nodes; statement nodes never nest in go/cfg
				return an.Point{B: b, I: i}, true
			}
		}
	}
	return an.Point{}, false
}

// c22ErrUse decides how the error result of call (a call inside fn's body, not inside a
// nested literal) is consumed: "returned", "tested" (bound to a variable that is read on
// every path before the function exits or the variable is overwritten), "passed" (operand of
// another expression), or a description starting with "dropped".
func c22ErrUse(fn *an.Fn, call *ast.CallExpr) string {
	info := fn.Info
	nres, isErr := c22CallReturnsError(info, call)
	if !isErr {
		return "no-error-result"
	}
	par := c22Parents(fn.Body)
	var p ast.Node = call
	for {
		q := par[p]
		if pe, ok := q.(*ast.ParenExpr); ok {
			p = pe
			continue
		}
		break
	}
	switch q := par[p].(type) {
	case *ast.ReturnStmt:
		return "returned"
	case *ast.ExprStmt:
		return "dropped: the call is an expression statement, its error result is discarded"
	case *ast.GoStmt, *ast.DeferStmt:
		return "dropped: error result of a go/defer call is discarded"
	case *ast.AssignStmt:
		var lhs ast.Expr
		if len(q.Rhs) == 1 && len(q.Lhs) == nres {
			lhs = q.Lhs[nres-1]
		} else {
			for i, r := range q.Rhs {
				if r == p && i < len(q.Lhs) {
					lhs = q.Lhs[i]
				}
			}
		}
		id, ok := an.Unparen(lhs).(*ast.Ident)
		if !ok {
			return "passed" // stored into a field / element: visible elsewhere
		}
		if id.Name == "_" {
			return "dropped: error result assigned to the blank identifier"
		}
		v := objOf(info, id)
		if v == nil {
			return "dropped: error variable unresolved"
		}
		at, ok := c22PointOf(fn, q)
		if !ok {
			return "passed"
		}
		// named result: a bare return / any return after the assignment publishes it
		if fn.Type.Results != nil {
			for _, f := range fn.Type.Results.List {
				for _, nm := range f.Names {
					if info.Defs[nm] == v {
						return "returned"
					}
				}
			}
		}
		uses := map[an.Point]bool{}
		kills := map[an.Point]bool{}
		for _, b := range fn.G.Blocks {
			if !b.Live {
				continue
			}
			for i, n := range b.Nodes {
				pt := an.Point{B: b, I: i}
				if pt == at {
					continue
				}
				reads, writes := c22ReadsWrites(info, n, v)
				if reads {
					uses[pt] = true
				} else if writes {
					kills[pt] = true
				}
			}
		}
		blocked := map[an.Point]bool{}
		for k := range uses {
			blocked[k] = true
		}
		for k := range kills {
			blocked[k] = true
		}
		reach := fn.Reach(at, blocked, nil)
		for pt := range reach {
			if kills[pt] {
				return "dropped: the error variable is overwritten before it is examined"
			}
		}
		if ex := fn.ExitsReachable(at, blocked, nil); len(ex) > 0 {
			return "dropped: a path from the call leaves the function without examining the error"
		}
		return "tested"
	case nil:
		return "passed"
	default:
		return "passed"
	}
}

// c22ReadsWrites: does node n read object v / (re)assign it.
func c22ReadsWrites(info *types.Info, n ast.Node, v types.Object) (reads, writes bool) {
	lhsIdents := map[*ast.Ident]bool{}
	ast.Inspect(n, func(x ast.Node) bool {
		if as, ok := x.(*ast.AssignStmt); ok && (as.Tok == token.ASSIGN || as.Tok == token.DEFINE) {
			for _, l := range as.Lhs {
				if id, ok := an.Unparen(l).(*ast.Ident); ok && objOf(info, id) == v {
					lhsIdents[id] = true
					writes = true
				}
			}
		}
		return true
	})
	ast.Inspect(n, func(x ast.Node) bool {
		if id, ok := x.(*ast.Ident); ok && !lhsIdents[id] && objOf(info, id) == v {
			reads = true
		}
		return true
	})
	return
}

// c22Atom is one atomic branch condition of the CFG.
type c22Atom struct {
	B    *cfg.Block
	Expr ast.Expr
	T, F an.Edge
}

func (a c22Atom) Point() an.Point { return an.Point{B: a.B, I: len(a.B.Nodes) - 1} }

// c22Atoms lists the live two-way branches whose last node is an expression.
func c22Atoms(fn *an.Fn) []c22Atom {
	var out []c22Atom
	for _, b := range fn.G.Blocks {
		if !b.Live {
			continue
		}
		t, f, ok := an.CondEdges(b)
		if !ok {
			continue
		}
		out = append(out, c22Atom{B: b, Expr: an.Unparen(b.Nodes[len(b.Nodes)-1].(ast.Expr)), T: t, F: f})
	}
	return out
}

// c22Val gives the truth value of an atomic condition under an assumption (known=false: the
// atom is not about the assumed facts).
type c22Val func(atom ast.Expr) (val, known bool)

// c22Vals combines valuations (first that knows wins).
func c22Vals(vs ...c22Val) c22Val {
	return func(e ast.Expr) (bool, bool) {
		for _, v := range vs {
			if v == nil {
				continue
			}
			if b, ok := v(e); ok {
				return b, true
			}
		}
		return false, false
	}
}

// c22Eval evaluates a branch condition three-valued through !, &&, || and parentheses.
func c22Eval(e ast.Expr, val c22Val) (bool, bool) {
	e = an.Unparen(e)
	if b, ok := val(e); ok {
		return b, true
	}
	switch x := e.(type) {
	case *ast.UnaryExpr:
		if x.Op == token.NOT {
			b, ok := c22Eval(x.X, val)
			return !b, ok
		}
	case *ast.BinaryExpr:
		switch x.Op {
		case token.LOR:
			l, lk := c22Eval(x.X, val)
			r, rk := c22Eval(x.Y, val)
			if (lk && l) || (rk && r) {
				return true, true
			}
			if lk && rk {
				return false, true
			}
		case token.LAND:
			l, lk := c22Eval(x.X, val)
			r, rk := c22Eval(x.Y, val)
			if (lk && !l) || (rk && !r) {
				return false, true
			}
			if lk && rk {
				return true, true
			}
		}
	}
	return false, false
}

// c22Impossible returns the CFG edges that cannot be taken under the valuation, and the
// number of branch conditions that test an assumed fact. Case expressions of an expression switch
// are presented to the valuation as `tag == caseExpr`.
func c22Impossible(fn *an.Fn, val c22Val) (map[an.Edge]bool, int) {
	caseTag := c22CaseTags(fn)
	out := map[an.Edge]bool{}
	n := 0
	for _, a := range c22Atoms(fn) {
		orig := a.B.Nodes[len(a.B.Nodes)-1].(ast.Expr)
		var cond ast.Expr = a.Expr
		if t, ok := caseTag[orig]; ok {
			cond = &ast.BinaryExpr{X: t, Op: token.EQL, Y: orig}
		}
		touched := false
		b, ok := c22Eval(cond, func(e ast.Expr) (bool, bool) {
			v, k := val(e)
			if k {
				touched = true
			}
			return v, k
		})
		if touched {
			n++ // the condition tests an assumed fact (even if other operands leave it undecided)
		}
		if !ok {
			continue
		}
		if b {
			out[a.F] = true
		} else {
			out[a.T] = true
		}
	}
	return out, n
}

// c22ZeroVal: the operand satisfying isX is assumed non-zero (nonzero=true) or zero. Atom
// forms: X != 0, X == 0, X > 0, len(X) != 0, len(X) == 0, len(X) > 0, X != "", X == "",
// X != nil, X == nil and a bare boolean X.
func c22ZeroVal(info *types.Info, isX func(ast.Expr) bool, nonzero bool) c22Val {
	return func(e ast.Expr) (bool, bool) {
		e = an.Unparen(e)
		if isX(e) && c22IsBool(info, e) {
			return nonzero, true
		}
		be, isBin := e.(*ast.BinaryExpr)
		if !isBin {
			return false, false
		}
		operand := func(x ast.Expr) bool {
			x = an.Unparen(x)
			if isX(x) {
				return true
			}
			if call, ok := x.(*ast.CallExpr); ok && len(call.Args) == 1 {
				if id, ok := call.Fun.(*ast.Ident); ok && id.Name == "len" {
					if _, isB := info.Uses[id].(*types.Builtin); isB {
						return isX(an.Unparen(call.Args[0]))
					}
				}
			}
			return false
		}
		zeroLit := func(x ast.Expr) bool {
			x = an.Unparen(x)
			if an.IsNilIdent(info, x) {
				return true
			}
			if v, ok := an.ConstInt(info, x); ok && v == 0 {
				return true
			}
			if s, ok := an.ConstString(info, x); ok && s == "" {
				return true
			}
			return false
		}
		op := be.Op
		switch {
		case operand(be.X) && zeroLit(be.Y):
		case operand(be.Y) && zeroLit(be.X):
			op = flipTok(op)
		default:
			return false, false
		}
		switch op {
		case token.NEQ, token.GTR:
			return nonzero, true
		case token.EQL, token.LEQ:
			return !nonzero, true
		}
		return false, false
	}
}

// c22CmpVal: the integer operand satisfying isX is assumed to hold value v; atoms are
// comparisons of X with a constant.
func c22CmpVal(info *types.Info, isX func(ast.Expr) bool, v int64) c22Val {
	return func(e ast.Expr) (bool, bool) {
		be, ok := an.Unparen(e).(*ast.BinaryExpr)
		if !ok {
			return false, false
		}
		strip := func(x ast.Expr) ast.Expr {
			x = an.Unparen(x)
			// integer conversion T(x)
			if call, ok := x.(*ast.CallExpr); ok && len(call.Args) == 1 {
				if tv, ok := info.Types[call.Fun]; ok && tv.IsType() {
					return an.Unparen(call.Args[0])
				}
			}
			return x
		}
		op := be.Op
		var k int64
		if isX(strip(be.X)) {
			c, ok := an.ConstInt(info, be.Y)
			if !ok {
				return false, false
			}
			k = c
		} else if isX(strip(be.Y)) {
			c, ok := an.ConstInt(info, be.X)
			if !ok {
				return false, false
			}
			k, op = c, flipTok(op)
		} else {
			return false, false
		}
		switch op {
		case token.LSS, token.LEQ, token.GTR, token.GEQ, token.EQL, token.NEQ:
			return c22Cmp(v, op, k), true
		}
		return false, false
	}
}

func c22Cmp(a int64, op token.Token, b int64) bool {
	switch op {
	case token.LSS:
		return a < b
	case token.LEQ:
		return a <= b
	case token.GTR:
		return a > b
	case token.GEQ:
		return a >= b
	case token.EQL:
		return a == b
	case token.NEQ:
		return a != b
	}
	return false
}

// c22IsObj returns a predicate: expression is an identifier bound to obj.
func c22IsObj(info *types.Info, obj types.Object) func(ast.Expr) bool {
	return func(e ast.Expr) bool {
		id, ok := an.Unparen(e).(*ast.Ident)
		return ok && obj != nil && objOf(info, id) == obj
	}
}

// c22World describes the exits of fn reachable from `from` under a valuation without
// passing the blocked points.
type c22World struct {
	Succ, Err []an.Point // success / error returns (fall-off ends count as success)
	Decided   int
	Reach     map[an.Point]bool
}

func c22Explore(fn *an.Fn, from an.Point, val c22Val, blockedPts map[an.Point]bool) c22World {
	be, n := c22Impossible(fn, val)
	w := c22World{Decided: n}
	w.Reach = fn.Reach(from, blockedPts, be)
	for _, ex := range fn.ExitsReachable(from, blockedPts, be) {
		if rs, ok := ex.Node().(*ast.ReturnStmt); ok && returnsError(fn, rs) {
			w.Err = append(w.Err, ex)
		} else {
			w.Succ = append(w.Succ, ex)
		}
	}
	return w
}

func c22IsBool(info *types.Info, e ast.Expr) bool {
	t := info.TypeOf(e)
	if t == nil {
		return false
	}
	b, ok := t.Underlying().(*types.Basic)
	return ok && b.Info()&types.IsBoolean != 0
}

// c22Init is one initialisation of a struct field: an assignment x.f = rhs or a composite
// literal element f: rhs.
type c22Init struct {
	P    an.Point
	Node ast.Node
	Rhs  ast.Expr
	Base ast.Expr // x in x.f (nil for literals)
}

// c22FieldInits lists the stores to owner.field within fn (not inside nested literals).
func c22FieldInits(fn *an.Fn, owner, field string) []c22Init {
	info := fn.Info
	var out []c22Init
	for _, h := range fn.FindNodes(func(n ast.Node) bool {
		switch x := n.(type) {
		case *ast.AssignStmt:
			for _, l := range x.Lhs {
				if an.FieldSel(info, an.Unparen(l), owner, field) {
					return true
				}
			}
		case *ast.CompositeLit:
			if an.TypeName(info.TypeOf(x)) == owner {
				for _, el := range x.Elts {
					if kv, ok := el.(*ast.KeyValueExpr); ok {
						if id, ok := kv.Key.(*ast.Ident); ok && id.Name == field {
							return true
						}
					}
				}
			}
		}
		return false
	}) {
		switch x := h.N.(type) {
		case *ast.AssignStmt:
			for i, l := range x.Lhs {
				if !an.FieldSel(info, an.Unparen(l), owner, field) {
					continue
				}
				var rhs ast.Expr
				if len(x.Rhs) == len(x.Lhs) {
					rhs = x.Rhs[i]
				} else if len(x.Rhs) == 1 {
					rhs = x.Rhs[0]
				}
				out = append(out, c22Init{P: h.P, Node: x, Rhs: rhs, Base: an.Unparen(l).(*ast.SelectorExpr).X})
			}
		case *ast.CompositeLit:
			for _, el := range x.Elts {
				if kv, ok := el.(*ast.KeyValueExpr); ok {
					if id, ok := kv.Key.(*ast.Ident); ok && id.Name == field {
						out = append(out, c22Init{P: h.P, Node: x, Rhs: kv.Value})
					}
				}
			}
		}
	}
	return out
}

// c22SuccessReturns lists the returns whose last result is the nil identifier (error
// functions) or the constant true (bool parsers).
func c22SuccessReturns(fn *an.Fn) []an.Point {
	var out []an.Point
	for _, p := range fn.Returns() {
		rs := p.Node().(*ast.ReturnStmt)
		if len(rs.Results) == 0 {
			continue
		}
		if !returnsError(fn, rs) {
			out = append(out, p)
		}
	}
	return out
}

// c22PtsSet turns a point list into a set.
func c22PtsSet(ps ...[]an.Point) map[an.Point]bool {
	m := map[an.Point]bool{}
	for _, l := range ps {
		for _, p := range l {
			m[p] = true
		}
	}
	return m
}

func c22EdgeSet(es ...[]an.Edge) map[an.Edge]bool {
	m := map[an.Edge]bool{}
	for _, l := range es {
		for _, e := range l {
			m[e] = true
		}
	}
	return m
}

// c22CaseTags maps every case expression of an expression switch in fn to the switch tag.
func c22CaseTags(fn *an.Fn) map[ast.Expr]ast.Expr {
	m := map[ast.Expr]ast.Expr{}
	an.Inner(fn.Body, func(n ast.Node) bool {
		sw, ok := n.(*ast.SwitchStmt)
		if !ok || sw.Tag == nil {
			return true
		}
		for _, cl := range sw.Body.List {
			for _, e := range cl.(*ast.CaseClause).List {
				m[e] = sw.Tag
			}
		}
		return true
	})
	return m
}

// c22MentionsObjOfType: n mentions an identifier bound to obj.
func c22Mentions(info *types.Info, n ast.Node, obj types.Object) bool {
	return obj != nil && n != nil && an.MentionsObj(info, n, obj)
}

// c22CalleeIs reports whether call resolves to Mod.(recv).name.
func (c *Ctx) c22CalleeIs(call *ast.CallExpr, recv, name string) bool {
	return an.FuncIs(an.Callee(c.Info(), call), Mod, recv, name)
}

// c22Calls returns the calls to Mod.(recv).name inside fn with their points.
func (c *Ctx) c22Calls(fn *an.Fn, recv, name string) []an.Hit {
	return fn.FindNodes(an.CallTo(c.Info(), Mod, recv, name))
}

func c22HitPts(hs []an.Hit) []an.Point {
	var out []an.Point
	for _, h := range hs {
		out = append(out, h.P)
	}
	return out
}

// c22ErrRule records one error-propagation obligation.
func (c *Ctx) c22ErrRule(rule string, fn *an.Fn, h an.Hit, what string) {
	call := h.N.(*ast.CallExpr)
	use := c22ErrUse(fn, call)
	cons := fn.Name + ":" + what + ":error"
	switch use {
	case "returned", "tested", "passed":
		c.R.Ok(rule, cons, c.Pos(call), "error result of %s is %s", what, use)
	case "no-error-result":
		c.R.Unknown(rule, cons, c.Pos(call), "%s has no error result", what)
	default:
		c.R.Bad(rule, cons, c.Pos(call), "error result of %s is %s", what, use)
	}
}

// c22Const looks up a package-level constant of the root package.
func (c *Ctx) c22Const(name string) (int64, bool) {
	o := c.P.TLS.Types.Scope().Lookup(name)
	cn, ok := o.(*types.Const)
	if !ok {
		return 0, false
	}
	return constInt64(cn)
}

func constInt64(cn *types.Const) (int64, bool) {
	v := cn.Val()
	if v == nil {
		return 0, false
	}
	s := v.ExactString()
	var n int64
	for _, ch := range s {
		if ch < '0' || ch > '9' {
			return 0, false
		}
		n = n*10 + int64(ch-'0')
	}
	return n, true
}

// c22FirstPointIn returns the first CFG point (in source order) whose node lies inside n.
func c22FirstPointIn(fn *an.Fn, n ast.Node) (an.Point, bool) {
	var best an.Point
	found := false
	for _, b := range fn.G.Blocks {
		if !b.Live {
			continue
		}
		for i, x := range b.Nodes {
			if n.Pos() <= x.Pos() && x.End() <= n.End() {
				if !found || x.Pos() < best.Node().Pos() {
					best, found = an.Point{B: b, I: i}, true
				}
			}
		}
	}
	return best, found
}

// c22WithAliases widens a predicate to local variables all of whose definitions in fn bind an
// expression satisfying it (x := hs.serverHello.cookie; if len(x) > 0 …).
func c22WithAliases(fn *an.Fn, isX func(ast.Expr) bool) func(ast.Expr) bool {
	info := fn.Info
	alias := map[types.Object]bool{}
	bad := map[types.Object]bool{}
	an.Inner(fn.Body, func(n ast.Node) bool {
		as, ok := n.(*ast.AssignStmt)
		if !ok || len(as.Lhs) != len(as.Rhs) {
			if ok {
				for _, l := range as.Lhs {
					if id, ok := l.(*ast.Ident); ok {
						if o := objOf(info, id); o != nil {
							bad[o] = true
						}
					}
				}
			}
			return true
		}
		for i, l := range as.Lhs {
			id, ok := l.(*ast.Ident)
			if !ok || id.Name == "_" {
				continue
			}
			o := objOf(info, id)
			if o == nil {
				continue
			}
			if isX(an.Unparen(as.Rhs[i])) {
				alias[o] = true
			} else {
				bad[o] = true
			}
		}
		return true
	})
	return func(e ast.Expr) bool {
		e = an.Unparen(e)
		if isX(e) {
			return true
		}
		id, ok := e.(*ast.Ident)
		if !ok {
			return false
		}
		o := objOf(info, id)
		return o != nil && alias[o] && !bad[o]
	}
}
