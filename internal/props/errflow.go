package props

import (
	"go/ast"
	"go/types"
	"sort"
	"strings"

	"verif/internal/an"
	"verif/internal/load"
)

// moduleReach computes the module functions (FuncDecls of package tls) reachable from the
// given roots through statically resolved calls; interface method calls on module interfaces
// are resolved to every implementation in the package (computed with types.Implements).
func moduleReach(c *Ctx, roots []*ast.FuncDecl) map[*ast.FuncDecl]bool {
	tls := c.P.TLS
	info := tls.TypesInfo
	byObj := map[types.Object]*ast.FuncDecl{}
	for _, fd := range load.AllFuncDecls(tls) {
		byObj[info.Defs[fd.Name]] = fd
	}
	// all named struct types of the package for interface dispatch
	var named []*types.Named
	scope := tls.Types.Scope()
	for _, n := range scope.Names() {
		if tn, ok := scope.Lookup(n).(*types.TypeName); ok && !tn.IsAlias() {
			if nt, ok := tn.Type().(*types.Named); ok {
				if _, isI := nt.Underlying().(*types.Interface); !isI {
					named = append(named, nt)
				}
			}
		}
	}
	seen := map[*ast.FuncDecl]bool{}
	var work []*ast.FuncDecl
	for _, r := range roots {
		if r != nil && !seen[r] {
			seen[r] = true
			work = append(work, r)
		}
	}
	for len(work) > 0 {
		fd := work[len(work)-1]
		work = work[:len(work)-1]
		ast.Inspect(fd.Body, func(n ast.Node) bool {
			call, ok := n.(*ast.CallExpr)
			if !ok {
				return true
			}
			fn, ok := an.Callee(info, call).(*types.Func)
			if !ok || fn.Pkg() != tls.Types {
				return true
			}
			var targets []*ast.FuncDecl
			if d := byObj[fn]; d != nil {
				targets = append(targets, d)
			} else if sig := fn.Type().(*types.Signature); sig.Recv() != nil {
				if it, ok := sig.Recv().Type().Underlying().(*types.Interface); ok {
					for _, nt := range named {
						for _, t := range []types.Type{nt, types.NewPointer(nt)} {
							if types.Implements(t, it) {
								ms := types.NewMethodSet(t)
								if sel := ms.Lookup(tls.Types, fn.Name()); sel != nil {
									if d := byObj[sel.Obj()]; d != nil {
										targets = append(targets, d)
									}
								}
								break
							}
						}
					}
				}
			}
			for _, d := range targets {
				if !seen[d] {
					seen[d] = true
					work = append(work, d)
				}
			}
			return true
		})
	}
	return seen
}

// droppedErrors lists calls in fd whose error result is discarded (expression statement, or `_`
// in the error position), skipping the idioms in accept.
type droppedErr struct {
	call *ast.CallExpr
	fn   *types.Func
	why  string
}

func droppedErrors(c *Ctx, fd *ast.FuncDecl) []droppedErr {
	info := c.Info()
	var out []droppedErr
	errType := types.Universe.Lookup("error").Type()
	lastIsErr := func(fn *types.Func) (int, bool) {
		sig, ok := fn.Type().(*types.Signature)
		if !ok || sig.Results().Len() == 0 {
			return 0, false
		}
		k := sig.Results().Len() - 1
		return k, types.Identical(sig.Results().At(k).Type(), errType)
	}
	// does the function test the error of Flush() on a bufio.Writer?
	flushChecked := false
	ast.Inspect(fd.Body, func(n ast.Node) bool {
		as, ok := n.(*ast.AssignStmt)
		if !ok || len(as.Rhs) != 1 {
			return true
		}
		if call, ok := as.Rhs[0].(*ast.CallExpr); ok {
			if f, ok := an.Callee(info, call).(*types.Func); ok && f.Pkg() != nil && f.Pkg().Path() == "bufio" && f.Name() == "Flush" {
				if id, ok := as.Lhs[0].(*ast.Ident); ok && id.Name != "_" {
					flushChecked = true
				}
			}
		}
		return true
	})
	accept := func(call *ast.CallExpr, fn *types.Func) bool {
		if fn.Pkg() == nil {
			return true
		}
		p := fn.Pkg().Path()
		switch {
		case p == "encoding/binary" && fn.Name() == "Write" && len(call.Args) == 3 && an.TypeName(info.TypeOf(call.Args[0])) == "Writer" && flushChecked:
			return true // bufio.Writer keeps the first error; it is tested at Flush()
		case p == "fmt" && strings.HasPrefix(fn.Name(), "Fp"), p == "fmt" && strings.HasPrefix(fn.Name(), "Print"):
			return true // diagnostics
		case p == "crypto/rand" && fn.Name() == "Read":
			return true // never fails (crashes the program instead) in the pinned toolchain
		case p == "hash" || p == "crypto/sha256" || p == "golang.org/x/crypto/sha3" || p == "crypto/hmac":
			return true // hash.Hash.Write never returns an error
		case p == "bytes" || p == "strings":
			return true // Buffer/Builder writes never fail
		}
		return false
	}
	ast.Inspect(fd.Body, func(n ast.Node) bool {
		switch st := n.(type) {
		case *ast.ExprStmt:
			call, ok := st.X.(*ast.CallExpr)
			if !ok {
				return true
			}
			fn, ok := an.Callee(info, call).(*types.Func)
			if !ok {
				return true
			}
			if _, isErr := lastIsErr(fn); isErr && !accept(call, fn) {
				out = append(out, droppedErr{call, fn, "result discarded"})
			}
		case *ast.AssignStmt:
			if len(st.Rhs) != 1 {
				return true
			}
			call, ok := st.Rhs[0].(*ast.CallExpr)
			if !ok {
				return true
			}
			fn, ok := an.Callee(info, call).(*types.Func)
			if !ok {
				return true
			}
			k, isErr := lastIsErr(fn)
			if !isErr || k >= len(st.Lhs) || accept(call, fn) {
				return true
			}
			if id, ok := st.Lhs[k].(*ast.Ident); ok && id.Name == "_" {
				out = append(out, droppedErr{call, fn, "error assigned to _"})
			}
		case *ast.DeferStmt, *ast.GoStmt:
			return false
		}
		return true
	})
	sort.Slice(out, func(i, j int) bool { return out[i].call.Pos() < out[j].call.Pos() })
	return out
}
