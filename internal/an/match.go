package an

import (
	"go/ast"
	"go/constant"
	"go/token"
	"go/types"
	"strings"
)

// FuncIs reports whether obj is the function/method pkgPath.(recv).name.
// recv == "" matches package-level functions; recv == "*" matches any receiver.
func FuncIs(obj types.Object, pkgPath, recv, name string) bool {
	fn, ok := obj.(*types.Func)
	if !ok || fn.Name() != name {
		return false
	}
	if fn.Pkg() == nil || (pkgPath != "" && fn.Pkg().Path() != pkgPath) {
		return false
	}
	sig := fn.Type().(*types.Signature)
	r := sig.Recv()
	if recv == "*" {
		return true
	}
	if r == nil {
		return recv == ""
	}
	return TypeName(r.Type()) == recv
}

// TypeName returns the name of the (pointer-to) named type, or "".
func TypeName(t types.Type) string {
	for {
		switch x := t.(type) {
		case *types.Pointer:
			t = x.Elem()
		case *types.Named:
			return x.Obj().Name()
		case *types.Alias:
			t = types.Unalias(x)
		default:
			return ""
		}
	}
}

// CallTo returns a predicate matching calls whose resolved callee is pkg.(recv).name.
func CallTo(info *types.Info, pkgPath, recv, name string) func(ast.Node) bool {
	return func(n ast.Node) bool {
		c, ok := n.(*ast.CallExpr)
		if !ok {
			return false
		}
		return FuncIs(Callee(info, c), pkgPath, recv, name)
	}
}

// IsCallTo tests one call.
func IsCallTo(info *types.Info, n ast.Node, pkgPath, recv, name string) bool {
	return CallTo(info, pkgPath, recv, name)(n)
}

// FieldSel reports whether e selects field `field` declared in struct type `owner`
// (the struct in which the field is declared, so promoted selections resolve).
func FieldSel(info *types.Info, e ast.Node, owner, field string) bool {
	se, ok := e.(*ast.SelectorExpr)
	if !ok {
		return false
	}
	if se.Sel.Name != field {
		return false
	}
	sel := info.Selections[se]
	if sel == nil || sel.Kind() != types.FieldVal {
		return false
	}
	v, ok := sel.Obj().(*types.Var)
	if !ok {
		return false
	}
	return FieldOwner(info, sel, v) == owner
}

// FieldOwner finds the name of the struct type declaring v by walking the selection path.
func FieldOwner(info *types.Info, sel *types.Selection, v *types.Var) string {
	t := sel.Recv()
	idx := sel.Index()
	for i, k := range idx {
		st, name := structOf(t)
		if st == nil {
			return ""
		}
		if i == len(idx)-1 {
			return name
		}
		t = st.Field(k).Type()
	}
	return ""
}

func structOf(t types.Type) (*types.Struct, string) {
	name := ""
	for {
		switch x := t.(type) {
		case *types.Pointer:
			t = x.Elem()
		case *types.Alias:
			t = types.Unalias(x)
		case *types.Named:
			name = x.Obj().Name()
			t = x.Underlying()
		case *types.Struct:
			return x, name
		default:
			return nil, ""
		}
	}
}

// MentionsField reports whether n contains a selection of owner.field.
func MentionsField(info *types.Info, n ast.Node, owner, field string) bool {
	found := false
	ast.Inspect(n, func(x ast.Node) bool {
		if x == nil || found {
			return false
		}
		if FieldSel(info, x, owner, field) {
			found = true
		}
		return !found
	})
	return found
}

// MentionsObj reports whether n contains an identifier resolving to obj.
func MentionsObj(info *types.Info, n ast.Node, obj types.Object) bool {
	found := false
	ast.Inspect(n, func(x ast.Node) bool {
		if found || x == nil {
			return false
		}
		if id, ok := x.(*ast.Ident); ok && (info.Uses[id] == obj || info.Defs[id] == obj) {
			found = true
		}
		return !found
	})
	return found
}

// Contains reports whether n has a sub-node satisfying pred.
func Contains(n ast.Node, pred func(ast.Node) bool) bool {
	found := false
	ast.Inspect(n, func(x ast.Node) bool {
		if found || x == nil {
			return false
		}
		if pred(x) {
			found = true
		}
		return !found
	})
	return found
}

// ConstInt returns the constant integer value of e if it has one.
func ConstInt(info *types.Info, e ast.Expr) (int64, bool) {
	tv, ok := info.Types[e]
	if !ok || tv.Value == nil {
		return 0, false
	}
	v := constant.ToInt(tv.Value)
	if v.Kind() != constant.Int {
		return 0, false
	}
	i, exact := constant.Int64Val(v)
	if !exact {
		u, ex := constant.Uint64Val(v)
		if ex {
			return int64(u), true
		}
		return 0, false
	}
	return i, true
}

// ConstString returns the constant string value of e.
func ConstString(info *types.Info, e ast.Expr) (string, bool) {
	tv, ok := info.Types[e]
	if !ok || tv.Value == nil || tv.Value.Kind() != constant.String {
		return "", false
	}
	return constant.StringVal(tv.Value), true
}

// Str renders an expression compactly.
func Str(e ast.Node) string {
	if x, ok := e.(ast.Expr); ok {
		return types.ExprString(x)
	}
	return ""
}

// Unparen strips parentheses.
func Unparen(e ast.Expr) ast.Expr {
	for {
		p, ok := e.(*ast.ParenExpr)
		if !ok {
			return e
		}
		e = p.X
	}
}

// IsNilIdent reports whether e is the predeclared nil.
func IsNilIdent(info *types.Info, e ast.Expr) bool {
	id, ok := Unparen(e).(*ast.Ident)
	if !ok {
		return false
	}
	_, isNil := info.Uses[id].(*types.Nil)
	return isNil
}

// AssignsTo returns a predicate matching assignments (=, :=, op=) or inc/dec whose LHS
// satisfies lhs.
func AssignsTo(lhs func(ast.Expr) bool) func(ast.Node) bool {
	return func(n ast.Node) bool {
		switch s := n.(type) {
		case *ast.AssignStmt:
			for _, l := range s.Lhs {
				if lhs(l) {
					return true
				}
			}
		case *ast.IncDecStmt:
			return lhs(s.X)
		}
		return false
	}
}

// BinaryWith matches a binary expression with operator in ops where one side satisfies a
// and the other b (either order). Returns the normalised operator as seen with a on the left.
func BinaryWith(n ast.Node, a, b func(ast.Expr) bool) (token.Token, bool) {
	be, ok := n.(*ast.BinaryExpr)
	if !ok {
		return 0, false
	}
	if a(be.X) && b(be.Y) {
		return be.Op, true
	}
	if a(be.Y) && b(be.X) {
		return flip(be.Op), true
	}
	return 0, false
}

func flip(op token.Token) token.Token {
	switch op {
	case token.LSS:
		return token.GTR
	case token.GTR:
		return token.LSS
	case token.LEQ:
		return token.GEQ
	case token.GEQ:
		return token.LEQ
	}
	return op
}

// ReturnsNonNilError reports whether the return statement's last result is syntactically
// not the nil identifier (or, for a bare return, unknown=false).
func ReturnsNonNilError(info *types.Info, r *ast.ReturnStmt) bool {
	if len(r.Results) == 0 {
		return false
	}
	last := r.Results[len(r.Results)-1]
	return !IsNilIdent(info, last)
}

// HasSuffixFile reports whether the file of pos ends with name.
func HasSuffixFile(file, name string) bool { return strings.HasSuffix(file, "/"+name) || file == name }
