// Package an holds the repository-independent analysis helpers: per-function CFG
// queries (dominance, must-pass-through, guarded effects) and type-resolved matchers.
package an

import (
	"go/ast"
	"go/token"
	"go/types"

	"golang.org/x/tools/go/cfg"
	"golang.org/x/tools/go/packages"
	"golang.org/x/tools/go/types/typeutil"
)

// Fn is a function body with its CFG.
type Fn struct {
	Pkg  *packages.Package
	Info *types.Info
	Name string
	Decl *ast.FuncDecl // nil for literals
	Type *ast.FuncType
	Body *ast.BlockStmt
	G    *cfg.CFG
	idom map[*cfg.Block]*cfg.Block
	rpo  []*cfg.Block
}

// Point is a CFG node position.
type Point struct {
	B *cfg.Block
	I int
}

func (p Point) Valid() bool { return p.B != nil }
func (p Point) Node() ast.Node {
	if p.B == nil || p.I >= len(p.B.Nodes) {
		return nil
	}
	return p.B.Nodes[p.I]
}

// Edge is the k-th successor edge of block B.
type Edge struct {
	B *cfg.Block
	K int
}

// NewFn builds the CFG of a declaration.
func NewFn(pkg *packages.Package, fd *ast.FuncDecl) *Fn {
	if fd == nil || fd.Body == nil {
		return nil
	}
	f := &Fn{Pkg: pkg, Info: pkg.TypesInfo, Name: fd.Name.Name, Decl: fd, Type: fd.Type, Body: fd.Body}
	f.build()
	return f
}

// NewLit builds the CFG of a function literal.
func NewLit(pkg *packages.Package, name string, fl *ast.FuncLit) *Fn {
	f := &Fn{Pkg: pkg, Info: pkg.TypesInfo, Name: name, Type: fl.Type, Body: fl.Body}
	f.build()
	return f
}

func (f *Fn) build() {
	f.G = cfg.New(f.Body, func(c *ast.CallExpr) bool {
		if id, ok := c.Fun.(*ast.Ident); ok && id.Name == "panic" {
			if _, isB := f.Info.Uses[id].(*types.Builtin); isB {
				return false
			}
		}
		return true
	})
}

// Entry returns the entry point.
func (f *Fn) Entry() *cfg.Block { return f.G.Blocks[0] }

// Inner walks n without descending into function literals.
func Inner(n ast.Node, fn func(ast.Node) bool) {
	ast.Inspect(n, func(x ast.Node) bool {
		if x == nil {
			return false
		}
		if _, ok := x.(*ast.FuncLit); ok && x != n {
			return false
		}
		return fn(x)
	})
}

// Find returns the CFG points whose node contains a sub-node satisfying pred
// (function literals are not entered). One point per matching sub-node.
func (f *Fn) Find(pred func(ast.Node) bool) []Point {
	var out []Point
	for _, b := range f.G.Blocks {
		if !b.Live {
			continue
		}
		for i, n := range b.Nodes {
			Inner(n, func(x ast.Node) bool {
				if pred(x) {
					out = append(out, Point{b, i})
				}
				return true
			})
		}
	}
	return out
}

// FindNodes is like Find but returns the matching sub-nodes with their points.
type Hit struct {
	P Point
	N ast.Node
}

func (f *Fn) FindNodes(pred func(ast.Node) bool) []Hit {
	var out []Hit
	for _, b := range f.G.Blocks {
		if !b.Live {
			continue
		}
		for i, n := range b.Nodes {
			Inner(n, func(x ast.Node) bool {
				if pred(x) {
					out = append(out, Hit{Point{b, i}, x})
				}
				return true
			})
		}
	}
	return out
}

// Returns lists the points of return statements plus (B,len) pseudo points for
// fall-off ends of live blocks without successors that do not end in return/panic.
func (f *Fn) Returns() []Point {
	var out []Point
	for _, b := range f.G.Blocks {
		if !b.Live {
			continue
		}
		for i, n := range b.Nodes {
			if _, ok := n.(*ast.ReturnStmt); ok {
				out = append(out, Point{b, i})
			}
		}
	}
	return out
}

// CondEdges: if block b ends in a boolean condition, returns its true/false edges.
func CondEdges(b *cfg.Block) (t, fl Edge, ok bool) {
	if len(b.Succs) != 2 || len(b.Nodes) == 0 {
		return
	}
	if _, isExpr := b.Nodes[len(b.Nodes)-1].(ast.Expr); !isExpr {
		return
	}
	return Edge{b, 0}, Edge{b, 1}, true
}

// Reach computes the set of points reachable from start (exclusive of start itself
// unless reached again), never stepping *through* a blocked point (a blocked point
// is reached but not continued from) and never taking a blocked edge.
func (f *Fn) Reach(start Point, blockedPts map[Point]bool, blockedEdges map[Edge]bool) map[Point]bool {
	seen := map[Point]bool{}
	var work []Point
	push := func(p Point) {
		if !seen[p] {
			seen[p] = true
			work = append(work, p)
		}
	}
	next := func(p Point) {
		if p.I+1 < len(p.B.Nodes) {
			push(Point{p.B, p.I + 1})
			return
		}
		for k, s := range p.B.Succs {
			if blockedEdges[Edge{p.B, k}] {
				continue
			}
			f.pushBlock(s, push, blockedEdges, map[*cfg.Block]bool{})
		}
	}
	next(start)
	for len(work) > 0 {
		p := work[len(work)-1]
		work = work[:len(work)-1]
		if blockedPts[p] {
			continue
		}
		next(p)
	}
	return seen
}

// pushBlock enters block s: pushes its first node, or skips through empty blocks.
func (f *Fn) pushBlock(s *cfg.Block, push func(Point), blockedEdges map[Edge]bool, visiting map[*cfg.Block]bool) {
	if len(s.Nodes) > 0 {
		push(Point{s, 0})
		return
	}
	if visiting[s] {
		return
	}
	visiting[s] = true
	// also record the empty block as a pseudo point so exits via empty blocks are visible
	push(Point{s, -1})
	for k, t := range s.Succs {
		if blockedEdges[Edge{s, k}] {
			continue
		}
		f.pushBlock(t, push, blockedEdges, visiting)
	}
}

// EntryPoint returns a pseudo point before the first node.
func (f *Fn) EntryPoint() Point { return Point{f.Entry(), -1} }

// ReachFromEntry is Reach starting before the first node of the function.
func (f *Fn) ReachFromEntry(blockedPts map[Point]bool, blockedEdges map[Edge]bool) map[Point]bool {
	seen := map[Point]bool{}
	e := f.Entry()
	start := Point{e, -1}
	r := f.Reach(start, blockedPts, blockedEdges)
	for k, v := range r {
		seen[k] = v
	}
	return seen
}

// MustPass reports whether every path from entry to target passes through one of
// the via points or takes one of the via edges.
func (f *Fn) MustPass(target Point, viaPts []Point, viaEdges []Edge) bool {
	bp := map[Point]bool{}
	for _, p := range viaPts {
		bp[p] = true
	}
	be := map[Edge]bool{}
	for _, e := range viaEdges {
		be[e] = true
	}
	if bp[target] {
		return true
	}
	r := f.ReachFromEntry(bp, be)
	return !r[target]
}

// MustPassFrom: every path from `from` to target passes via.
func (f *Fn) MustPassFrom(from, target Point, viaPts []Point, viaEdges []Edge) bool {
	bp := map[Point]bool{}
	for _, p := range viaPts {
		bp[p] = true
	}
	be := map[Edge]bool{}
	for _, e := range viaEdges {
		be[e] = true
	}
	r := f.Reach(from, bp, be)
	return !r[target] || bp[target]
}

// Reachable reports whether target is reachable from `from` at all.
func (f *Fn) Reachable(from, target Point) bool {
	return f.Reach(from, nil, nil)[target]
}

// ExitsReachable returns the return points (and fall-off ends) reachable from `from`
// without passing blocked points/edges. Fall-off ends are reported as Point{B,len(B.Nodes)}.
func (f *Fn) ExitsReachable(from Point, blockedPts map[Point]bool, blockedEdges map[Edge]bool) []Point {
	r := f.Reach(from, blockedPts, blockedEdges)
	var out []Point
	seenEnd := map[*cfg.Block]bool{}
	for p := range r {
		if blockedPts[p] {
			continue
		}
		if p.I >= 0 {
			if _, ok := p.Node().(*ast.ReturnStmt); ok {
				out = append(out, p)
				continue
			}
		}
		// fall-off: last node (or empty) of a block with no successors that is not a return
		last := p.I == len(p.B.Nodes)-1 || (p.I == -1 && len(p.B.Nodes) == 0)
		if last && len(p.B.Succs) == 0 && !seenEnd[p.B] {
			if p.I >= 0 {
				if _, ok := p.Node().(*ast.ReturnStmt); ok {
					continue
				}
				if isPanicStmt(p.Node()) {
					continue
				}
			}
			seenEnd[p.B] = true
			out = append(out, Point{p.B, len(p.B.Nodes)})
		}
	}
	return out
}

func isPanicStmt(n ast.Node) bool {
	es, ok := n.(*ast.ExprStmt)
	if !ok {
		return false
	}
	c, ok := es.X.(*ast.CallExpr)
	if !ok {
		return false
	}
	id, ok := c.Fun.(*ast.Ident)
	return ok && id.Name == "panic"
}

// Callee resolves the static callee of a call (function, method or builtin).
func Callee(info *types.Info, call *ast.CallExpr) types.Object {
	return typeutil.Callee(info, call)
}

// PosOf is a convenience for node positions.
func PosOf(n ast.Node) token.Pos {
	if n == nil {
		return token.NoPos
	}
	return n.Pos()
}

// PointOf returns the CFG point whose node contains n (outside function literals).
func (f *Fn) PointOf(n ast.Node) (Point, bool) {
	for _, b := range f.G.Blocks {
		if !b.Live {
			continue
		}
		for i, x := range b.Nodes {
			if x.Pos() <= n.Pos() && n.End() <= x.End() {
				found := false
				Inner(x, func(y ast.Node) bool {
					if y == n {
						found = true
					}
					return !found
				})
				if found {
					return Point{b, i}, true
				}
			}
		}
	}
	return Point{}, false
}
