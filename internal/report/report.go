// Package report collects obligations, matches known findings and writes evidence.
package report

import (
	"encoding/json"
	"fmt"
	"os"
	"path/filepath"
	"sort"
	"strconv"
	"strings"
	"time"
)

type Status string

const (
	OK        Status = "ok"
	Violation Status = "violation"
	Undecided Status = "undecided"
)

// Obligation is one decided (or undecidable) instance of a rule on a construct.
type Obligation struct {
	Rule      string `json:"rule"`
	Construct string `json:"construct"`
	Status    Status `json:"status"`
	Detail    string `json:"detail,omitempty"`
	Pos       string `json:"pos,omitempty"`
}

func (o Obligation) Key() string { return o.Rule + ":" + o.Construct }

type Report struct {
	Prop        string
	Tier        string
	Root        string // /verif
	Explanation string
	Assumptions []string
	NotDecided  string
	Technique   string
	Obls        []Obligation
	floors      map[string]int
	Counters    map[string]int
	Extra       map[string]any
	start       time.Time
}

func New(prop, tier, root string) *Report {
	return &Report{Prop: prop, Tier: tier, Root: root, floors: map[string]int{},
		Counters: map[string]int{}, Extra: map[string]any{}, start: time.Now()}
}

func (r *Report) add(rule, construct string, st Status, pos, detail string) {
	r.Obls = append(r.Obls, Obligation{Rule: rule, Construct: construct, Status: st, Detail: detail, Pos: pos})
}

// Ok records a discharged obligation.
func (r *Report) Ok(rule, construct, pos, format string, a ...any) {
	r.add(rule, construct, OK, pos, fmt.Sprintf(format, a...))
}

// Bad records a violated obligation.
func (r *Report) Bad(rule, construct, pos, format string, a ...any) {
	r.add(rule, construct, Violation, pos, fmt.Sprintf(format, a...))
}

// Unknown records an obligation the analysis could not decide (reported as a violation of kind undecided, exit 1).
func (r *Report) Unknown(rule, construct, pos, format string, a ...any) {
	r.add(rule, construct, Undecided, pos, fmt.Sprintf(format, a...))
}

// Check records ok/violation according to cond.
func (r *Report) Check(cond bool, rule, construct, pos, okDetail, badDetail string) bool {
	if cond {
		r.Ok(rule, construct, pos, "%s", okDetail)
	} else {
		r.Bad(rule, construct, pos, "%s", badDetail)
	}
	return cond
}

// Floor demands at least half of n obligations (any status) for rule; fewer => undecided.
func (r *Report) Floor(rule string, n int) {
	// n is the instance count confirmed by hand on the pinned tree. Removing or merging some
	// instances (a duplicated closure hoisted, a redundant assertion dropped) is not a
	// violation; losing more than half of them means the rule no longer sees its constructs.
	r.floors[rule] = (n + 1) / 2
}

func (r *Report) Count(k string, n int) { r.Counters[k] += n }

// Borrow runs f, a rule function written for another property, and keeps only the obligations
// and floors of the rules named in mapping, renamed to this property's rule ids. The same
// source facts can be a necessary condition of more than one property.
func (r *Report) Borrow(mapping map[string]string, f func()) { r.BorrowIf(mapping, nil, f) }

// BorrowIf is Borrow restricted to the obligations keep accepts (floors are not carried over).
func (r *Report) BorrowIf(mapping map[string]string, keep func(Obligation) bool, f func()) {
	n := len(r.Obls)
	floors := r.floors
	r.floors = map[string]int{}
	expl, tech, nd, as := r.Explanation, r.Technique, r.NotDecided, r.Assumptions
	f()
	r.Explanation, r.Technique, r.NotDecided, r.Assumptions = expl, tech, nd, as
	kept := r.Obls[:n:n]
	for _, o := range r.Obls[n:] {
		if to, ok := mapping[o.Rule]; ok && (keep == nil || keep(o)) {
			o.Rule = to
			kept = append(kept, o)
		}
	}
	r.Obls = kept
	for rule, k := range r.floors {
		if keep != nil {
			break
		}
		if to, ok := mapping[rule]; ok {
			if floors[to] < k {
				floors[to] = k
			}
		}
	}
	r.floors = floors
}

type knownFile struct {
	Findings []struct {
		Property string `json:"property"`
		Key      string `json:"key"`
		What     string `json:"what"`
	} `json:"findings"`
	Fixed []string `json:"fixed"`
}

// Abort reports that the analysis could not run at all (load failure, checker
// panic). The property is not shown to hold, so the verdict is a violation of
// kind "undecided".
func (r *Report) Abort(reason string) int {
	vdir := filepath.Join(r.Root, "evidence", r.Prop+".violations")
	os.RemoveAll(vdir)
	os.MkdirAll(vdir, 0o755)
	path := filepath.Join(vdir, "u0.json")
	b, _ := json.MarshalIndent(map[string]any{"property": r.Prop, "kind": "undecided", "detail": reason,
		"replay": fmt.Sprintf("bin/check %s %s", r.Prop, r.Tier)}, "", " ")
	os.WriteFile(path, b, 0o644)
	fmt.Printf("VIOLATION property=%s replay=%s kind=undecided\n", r.Prop, path)
	return 1
}

// Finish prints the verdict lines, writes evidence and returns the exit code.
func (r *Report) Finish() int {
	known := map[string]string{}
	if b, err := os.ReadFile(filepath.Join(r.Root, "known_findings.json")); err == nil {
		var kf knownFile
		if err := json.Unmarshal(b, &kf); err != nil {
			fmt.Printf("UNDECIDED property=%s reason=known_findings.json unreadable: %v\n", r.Prop, err)
			return 2
		}
		for _, f := range kf.Findings {
			if f.Property == r.Prop {
				known[f.Key] = f.What
			}
		}
	}
	perRule := map[string]int{}
	var viol, knownHit, und []Obligation
	okN := 0
	seen := map[string]bool{}
	for _, o := range r.Obls {
		perRule[o.Rule]++
		switch o.Status {
		case OK:
			okN++
		case Undecided:
			und = append(und, o)
		case Violation:
			if seen[o.Key()] {
				continue
			}
			seen[o.Key()] = true
			if _, ok := known[o.Key()]; ok {
				knownHit = append(knownHit, o)
			} else {
				viol = append(viol, o)
			}
		}
	}
	var rules []string
	for k := range r.floors {
		rules = append(rules, k)
	}
	sort.Strings(rules)
	for _, rule := range rules {
		if perRule[rule] < r.floors[rule] {
			und = append(und, Obligation{Rule: rule, Construct: "floor", Status: Undecided,
				Detail: fmt.Sprintf("rule matched %d instances, fewer than half of the count confirmed by hand (floor %d)", perRule[rule], r.floors[rule])})
		}
	}
	evDir := filepath.Join(r.Root, "evidence")
	os.MkdirAll(evDir, 0o755)
	vdir := filepath.Join(evDir, r.Prop+".violations")
	os.RemoveAll(vdir)

	for _, o := range knownHit {
		fmt.Printf("KNOWN-FINDING: property=%s %s %s [%s] (%s)\n", r.Prop, o.Key(), o.Detail, o.Pos, known[o.Key()])
	}
	for i, o := range viol {
		os.MkdirAll(vdir, 0o755)
		path := filepath.Join(vdir, strconv.Itoa(i)+".json")
		b, _ := json.MarshalIndent(map[string]any{"property": r.Prop, "rule": o.Rule, "construct": o.Construct,
			"pos": o.Pos, "detail": o.Detail, "key": o.Key(), "replay": fmt.Sprintf("bin/check %s %s", r.Prop, r.Tier)}, "", " ")
		os.WriteFile(path, b, 0o644)
		fmt.Printf("  violation %s at %s: %s\n", o.Key(), o.Pos, o.Detail)
		fmt.Printf("VIOLATION property=%s replay=%s\n", r.Prop, path)
	}
	// An obligation the analysis cannot discharge is reported as a violation of
	// kind "undecided": the property is not shown to hold on this tree, and the
	// interface has only two verdicts.
	for i, o := range und {
		os.MkdirAll(vdir, 0o755)
		path := filepath.Join(vdir, "u"+strconv.Itoa(i)+".json")
		b, _ := json.MarshalIndent(map[string]any{"property": r.Prop, "kind": "undecided", "rule": o.Rule, "construct": o.Construct,
			"pos": o.Pos, "detail": o.Detail, "replay": fmt.Sprintf("bin/check %s %s", r.Prop, r.Tier)}, "", " ")
		os.WriteFile(path, b, 0o644)
		fmt.Printf("UNDECIDED property=%s %s reason=%s [%s]\n", r.Prop, o.Key(), o.Detail, o.Pos)
		fmt.Printf("VIOLATION property=%s replay=%s kind=undecided\n", r.Prop, path)
	}

	// evidence
	var samples []any
	perRuleSample := map[string]int{}
	for _, o := range r.Obls {
		if perRuleSample[o.Rule] < 3 && len(samples) < 60 {
			perRuleSample[o.Rule]++
			samples = append(samples, fmt.Sprintf("%s %s [%s] %s: %s", o.Rule, o.Construct, o.Pos, o.Status, o.Detail))
		}
	}
	if len(samples) == 0 {
		samples = append(samples, "no obligations generated")
	}
	var kl []string
	for _, o := range knownHit {
		kl = append(kl, o.Key())
	}
	cov := map[string]any{
		"explanation":    r.Explanation,
		"obligations":    len(r.Obls),
		"discharged":     okN,
		"samples":        samples,
		"rule_instances": perRule,
		"known_findings": kl,
		"undecided":      len(und),
		"not_decided":    r.NotDecided,
		"technique":      r.Technique,
		"counters":       r.Counters,
	}
	for k, v := range r.Extra {
		cov[k] = v
	}
	seed, _ := strconv.Atoi(os.Getenv("VERIF_SEED"))
	ev := map[string]any{
		"property_id": r.Prop, "tier": r.Tier, "seed": seed, "level": "other",
		"coverage": cov, "assumptions": append([]string{"static analysis of /repo's working tree; no utls code is executed"}, r.Assumptions...),
		"wall_s": time.Since(r.start).Seconds(), "violations": len(viol),
	}
	b, _ := json.MarshalIndent(ev, "", " ")
	if err := os.WriteFile(filepath.Join(evDir, r.Prop+".json"), b, 0o644); err != nil {
		fmt.Printf("UNDECIDED property=%s reason=cannot write evidence: %v\n", r.Prop, err)
		return 2
	}
	if os.Getenv("VERIF_VERBOSE") != "" {
		for _, o := range r.Obls {
			fmt.Printf("  [%s] %s %s [%s] %s\n", o.Status, o.Rule, o.Construct, o.Pos, o.Detail)
		}
	}
	var rl []string
	for k, v := range perRule {
		rl = append(rl, fmt.Sprintf("%s=%d", k, v))
	}
	sort.Strings(rl)
	fmt.Printf("%s tier=%s obligations=%d discharged=%d violations=%d known=%d undecided=%d rules[%s]\n",
		r.Prop, r.Tier, len(r.Obls), okN, len(viol), len(knownHit), len(und), strings.Join(rl, " "))
	if len(viol) > 0 {
		return 1
	}
	if len(und) > 0 {
		return 1
	}
	return 0
}
