// Package load type-checks /repo's current working tree for the analyses.
package load

import (
	"fmt"
	"go/ast"
	"go/token"
	"go/types"
	"os"
	"sort"
	"strings"

	"golang.org/x/tools/go/packages"
	"golang.org/x/tools/go/ssa"
	"golang.org/x/tools/go/ssa/ssautil"
)

const ModPath = "github.com/refraction-networking/utls"

// Program is the type-checked module.
type Program struct {
	Dir   string
	Fset  *token.FileSet
	Pkgs  []*packages.Package // module packages (sorted by path)
	All   []*packages.Package // initial packages as returned by Load
	TLS   *packages.Package   // the root package
	ByPath map[string]*packages.Package

	ssaProg *ssa.Program
	ssaPkgs []*ssa.Package
}

// RepoDir returns the directory to analyse ($VERIF_REPO or /repo).
func RepoDir() string {
	if d := os.Getenv("VERIF_REPO"); d != "" {
		return d
	}
	return "/repo"
}

// Load loads ./... of the repository with full syntax for module packages.
// deps=true also loads dependencies' syntax (needed for whole-program SSA).
func Load(deps bool, overlay map[string][]byte) (*Program, error) {
	dir := RepoDir()
	mode := packages.NeedName | packages.NeedFiles | packages.NeedCompiledGoFiles |
		packages.NeedImports | packages.NeedTypes | packages.NeedTypesSizes |
		packages.NeedSyntax | packages.NeedTypesInfo | packages.NeedModule
	if deps {
		mode |= packages.NeedDeps
	}
	env := os.Environ()
	env = append(env, "GOFLAGS=-mod=mod", "GOPROXY=off", "GOWORK=off")
	cfg := &packages.Config{Mode: mode, Dir: dir, Env: env, Overlay: overlay, Tests: false}
	fset := token.NewFileSet()
	cfg.Fset = fset
	pkgs, err := packages.Load(cfg, "./...")
	if err != nil {
		return nil, err
	}
	if len(pkgs) == 0 {
		return nil, fmt.Errorf("no packages loaded from %s", dir)
	}
	p := &Program{Dir: dir, Fset: fset, All: pkgs, ByPath: map[string]*packages.Package{}}
	var errs []string
	for _, pk := range pkgs {
		for _, e := range pk.Errors {
			errs = append(errs, e.Error())
		}
		if pk.Module != nil && pk.Module.Path == ModPath || strings.HasPrefix(pk.PkgPath, ModPath) {
			p.Pkgs = append(p.Pkgs, pk)
			p.ByPath[pk.PkgPath] = pk
		}
		if pk.PkgPath == ModPath {
			p.TLS = pk
		}
	}
	if len(errs) > 0 {
		sort.Strings(errs)
		if len(errs) > 10 {
			errs = errs[:10]
		}
		return nil, fmt.Errorf("type errors: %s", strings.Join(errs, "; "))
	}
	if p.TLS == nil {
		return nil, fmt.Errorf("root package %s not found", ModPath)
	}
	sort.Slice(p.Pkgs, func(i, j int) bool { return p.Pkgs[i].PkgPath < p.Pkgs[j].PkgPath })
	return p, nil
}

// SSA builds (once) SSA for all loaded packages. Requires Load(deps=true) for
// whole-program call graphs; with deps=false only module packages have bodies.
func (p *Program) SSA() (*ssa.Program, []*ssa.Package) {
	if p.ssaProg == nil {
		// BuildSerially: a builder panic then surfaces in the calling goroutine, where the driver
		// turns it into a fail-closed verdict instead of a crashed process
		prog, pkgs := ssautil.AllPackages(p.All, ssa.InstantiateGenerics|ssa.BuildSerially)
		prog.Build()
		p.ssaProg, p.ssaPkgs = prog, pkgs
	}
	return p.ssaProg, p.ssaPkgs
}

// Pkg returns a module package by path suffix relative to the module ("" = root).
func (p *Program) Pkg(rel string) *packages.Package {
	if rel == "" {
		return p.TLS
	}
	return p.ByPath[ModPath+"/"+rel]
}

// Pos renders a position relative to the repo dir.
func (p *Program) Pos(pos token.Pos) string {
	if !pos.IsValid() {
		return "-"
	}
	ps := p.Fset.Position(pos)
	f := strings.TrimPrefix(ps.Filename, p.Dir+"/")
	return fmt.Sprintf("%s:%d", f, ps.Line)
}

// FuncDecl finds a function or method declaration in pkg. recv is the receiver's
// named type ("" for plain functions), pointer-ness ignored.
func FuncDecl(pkg *packages.Package, recv, name string) *ast.FuncDecl {
	for _, f := range pkg.Syntax {
		for _, d := range f.Decls {
			fd, ok := d.(*ast.FuncDecl)
			if !ok || fd.Name.Name != name {
				continue
			}
			if RecvName(fd) == recv {
				return fd
			}
		}
	}
	return nil
}

// RecvName returns the receiver's type name of fd ("" if none).
func RecvName(fd *ast.FuncDecl) string {
	if fd.Recv == nil || len(fd.Recv.List) == 0 {
		return ""
	}
	t := fd.Recv.List[0].Type
	for {
		switch x := t.(type) {
		case *ast.StarExpr:
			t = x.X
		case *ast.ParenExpr:
			t = x.X
		case *ast.IndexExpr:
			t = x.X
		case *ast.Ident:
			return x.Name
		default:
			return ""
		}
	}
}

// AllFuncDecls lists every FuncDecl with a body in pkg.
func AllFuncDecls(pkg *packages.Package) []*ast.FuncDecl {
	var out []*ast.FuncDecl
	for _, f := range pkg.Syntax {
		for _, d := range f.Decls {
			if fd, ok := d.(*ast.FuncDecl); ok && fd.Body != nil {
				out = append(out, fd)
			}
		}
	}
	return out
}

// Named looks up a named type in pkg's scope.
func Named(pkg *packages.Package, name string) *types.Named {
	o := pkg.Types.Scope().Lookup(name)
	if o == nil {
		return nil
	}
	tn, ok := o.(*types.TypeName)
	if !ok {
		return nil
	}
	n, _ := tn.Type().(*types.Named)
	return n
}
