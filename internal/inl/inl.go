// Package inl normalises a tree before analysis: calls to functions that the rules have never
// seen (functions that are not in the list of names recorded from the pinned tree, i.e. helpers
// introduced by a later refactoring) are inlined at their call sites, as a source-to-source
// transformation delivered as a go/packages overlay. The rules are intra-procedural with resolved
// callees to a stated depth; a block moved into a fresh helper would otherwise hide from them the
// very statements they decide. Inlining preserves behaviour, so the verdicts are verdicts about
// the tree as it is; which functions get inlined is only a heuristic. Every rewritten file is
// type-checked again by the loader; if that fails the tree is analysed as it is.
package inl

import (
	"bytes"
	"fmt"
	"go/ast"
	"go/token"
	"go/types"
	"os"
	"sort"
	"strings"

	"golang.org/x/tools/go/packages"
)

type edit struct {
	start, end int
	text       string
}

type helper struct {
	fd   *ast.FuncDecl
	obj  *types.Func
	pkg  *packages.Package
	file *ast.File
	name string
}

type ctx struct {
	fset    *token.FileSet
	src     map[string][]byte // filename -> original bytes
	helpers map[*types.Func]*helper
	seq     int
	log     []string
}

// QualName is "Recv.name" for methods and "name" for functions, prefixed by the package path
// relative to the module for non-root packages.
func QualName(pkgRel string, fd *ast.FuncDecl) string {
	n := fd.Name.Name
	if fd.Recv != nil && len(fd.Recv.List) > 0 {
		t := fd.Recv.List[0].Type
		for {
			switch x := t.(type) {
			case *ast.StarExpr:
				t = x.X
				continue
			case *ast.IndexExpr:
				t = x.X
				continue
			case *ast.ParenExpr:
				t = x.X
				continue
			}
			break
		}
		if id, ok := t.(*ast.Ident); ok {
			n = id.Name + "." + n
		}
	}
	if pkgRel != "" {
		n = pkgRel + ":" + n
	}
	return n
}

// Overlay computes the rewritten sources. known lists the function names of the pinned tree;
// mod is the module path. Returns nil when nothing is to be inlined.
func Overlay(pkgs []*packages.Package, fset *token.FileSet, mod string, known map[string]bool) (map[string][]byte, []string) {
	c := &ctx{fset: fset, src: map[string][]byte{}, helpers: map[*types.Func]*helper{}}
	for _, pk := range pkgs {
		rel := strings.TrimPrefix(strings.TrimPrefix(pk.PkgPath, mod), "/")
		for _, f := range pk.Syntax {
			fname := fset.Position(f.Pos()).Filename
			if strings.HasSuffix(fname, "_test.go") {
				continue
			}
			for _, d := range f.Decls {
				fd, ok := d.(*ast.FuncDecl)
				if !ok || fd.Body == nil {
					continue
				}
				if known[QualName(rel, fd)] {
					continue
				}
				obj, _ := pk.TypesInfo.Defs[fd.Name].(*types.Func)
				if obj == nil || !inlinable(pk, fd, obj) {
					continue
				}
				c.helpers[obj] = &helper{fd: fd, obj: obj, pkg: pk, file: f, name: QualName(rel, fd)}
			}
		}
	}
	if len(c.helpers) == 0 {
		return nil, nil
	}
	out := map[string][]byte{}
	for _, pk := range pkgs {
		for _, f := range pk.Syntax {
			fname := fset.Position(f.Pos()).Filename
			if strings.HasSuffix(fname, "_test.go") {
				continue
			}
			edits := c.fileEdits(pk, f)
			if len(edits) == 0 {
				continue
			}
			src := c.source(fname)
			if src == nil {
				continue
			}
			out[fname] = apply(src, edits)
		}
	}
	sort.Strings(c.log)
	return out, c.log
}

func (c *ctx) source(fname string) []byte {
	if b, ok := c.src[fname]; ok {
		return b
	}
	b, err := os.ReadFile(fname)
	if err != nil {
		c.src[fname] = nil
		return nil
	}
	c.src[fname] = b
	return b
}

func apply(src []byte, edits []edit) []byte {
	sort.Slice(edits, func(i, j int) bool { return edits[i].start > edits[j].start })
	out := append([]byte{}, src...)
	last := len(src) + 1
	for _, e := range edits {
		if e.end > last { // overlapping edits: keep the later (outer) one only
			continue
		}
		out = append(out[:e.start], append([]byte(e.text), out[e.end:]...)...)
		last = e.start
	}
	return out
}

// inlinable: plain function or method with a body that has no defer/go/recover/goto/labels, no
// named results, is not variadic, generic or recursive.
func inlinable(pk *packages.Package, fd *ast.FuncDecl, obj *types.Func) bool {
	sig := obj.Type().(*types.Signature)
	if sig.Variadic() || sig.TypeParams().Len() > 0 || sig.RecvTypeParams().Len() > 0 {
		return false
	}
	if fd.Type.Results != nil {
		for _, r := range fd.Type.Results.List {
			for _, n := range r.Names {
				if n.Name == "_" {
					return false
				}
			}
		}
	}
	for _, p := range fd.Type.Params.List {
		if len(p.Names) == 0 {
			return false
		}
		for _, n := range p.Names {
			if n.Name == "_" {
				return false
			}
		}
	}
	if fd.Recv != nil && (len(fd.Recv.List) != 1 || len(fd.Recv.List[0].Names) != 1 || fd.Recv.List[0].Names[0].Name == "_") {
		return false
	}
	ok := true
	ast.Inspect(fd.Body, func(n ast.Node) bool {
		switch x := n.(type) {
		case *ast.DeferStmt, *ast.GoStmt, *ast.LabeledStmt, *ast.SelectStmt:
			ok = false
		case *ast.BranchStmt:
			if x.Tok == token.GOTO || x.Label != nil {
				ok = false
			}
		case *ast.CallExpr:
			if id, isID := x.Fun.(*ast.Ident); isID && id.Name == "recover" {
				ok = false
			}
			if f, _ := calleeOf(pk.TypesInfo, x).(*types.Func); f == obj {
				ok = false // recursive
			}
		}
		return ok
	})
	return ok
}

func calleeOf(info *types.Info, call *ast.CallExpr) types.Object {
	fun := ast.Unparen(call.Fun)
	switch f := fun.(type) {
	case *ast.Ident:
		return info.Uses[f]
	case *ast.SelectorExpr:
		if sel := info.Selections[f]; sel != nil {
			if sel.Kind() == types.MethodVal {
				return sel.Obj()
			}
			return nil
		}
		return info.Uses[f.Sel]
	}
	return nil
}

func (c *ctx) off(p token.Pos) int { return c.fset.Position(p).Offset }

func (c *ctx) text(fname string, from, to token.Pos) string {
	src := c.source(fname)
	return string(src[c.off(from):c.off(to)])
}

// fileEdits finds the statements of f that call a helper in a supported position and rewrites them.
func (c *ctx) fileEdits(pk *packages.Package, f *ast.File) []edit {
	info := pk.TypesInfo
	fname := c.fset.Position(f.Pos()).Filename
	var edits []edit
	for _, d := range f.Decls {
		fd, ok := d.(*ast.FuncDecl)
		if !ok || fd.Body == nil {
			continue
		}
		callerLocals := localNames(info, fd)
		var visit func(list []ast.Stmt)
		visitBlock := func(b *ast.BlockStmt) {
			if b != nil {
				visit(b.List)
			}
		}
		var visitStmt func(s ast.Stmt)
		visitStmt = func(s ast.Stmt) {
			switch x := s.(type) {
			case *ast.BlockStmt:
				visitBlock(x)
			case *ast.IfStmt:
				visitBlock(x.Body)
				if x.Else != nil {
					visitStmt(x.Else)
				}
			case *ast.ForStmt:
				visitBlock(x.Body)
			case *ast.RangeStmt:
				visitBlock(x.Body)
			case *ast.SwitchStmt:
				for _, cc := range x.Body.List {
					visit(cc.(*ast.CaseClause).Body)
				}
			case *ast.TypeSwitchStmt:
				for _, cc := range x.Body.List {
					visit(cc.(*ast.CaseClause).Body)
				}
			case *ast.LabeledStmt:
				visitStmt(x.Stmt)
			}
		}
		visit = func(list []ast.Stmt) {
			for _, s := range list {
				if e, ok := c.rewriteStmt(pk, f, fname, fd, s, callerLocals); ok {
					edits = append(edits, e)
					continue // nested statements are part of the replaced text
				}
				visitStmt(s)
			}
		}
		visit(fd.Body.List)
		_ = info
	}
	return edits
}

func localNames(info *types.Info, fd *ast.FuncDecl) map[string]bool {
	out := map[string]bool{}
	ast.Inspect(fd, func(n ast.Node) bool {
		if id, ok := n.(*ast.Ident); ok {
			if o := info.Defs[id]; o != nil && o.Parent() != nil && o.Parent() != o.Pkg().Scope() {
				out[id.Name] = true
			}
		}
		return true
	})
	return out
}

// headCall finds the helper call evaluated first and unconditionally by statement s:
// the whole expression of an expression statement, the single right-hand side of an assignment,
// the single result of a return, or the condition of an if (bare, negated, or compared with a
// side-effect-free operand).
func (c *ctx) headCall(info *types.Info, s ast.Stmt) (*ast.CallExpr, *helper, ast.Stmt) {
	pick := func(e ast.Expr) (*ast.CallExpr, *helper) {
		e = ast.Unparen(e)
		if u, ok := e.(*ast.UnaryExpr); ok && u.Op == token.NOT {
			e = ast.Unparen(u.X)
		}
		if be, ok := e.(*ast.BinaryExpr); ok {
			switch be.Op {
			case token.EQL, token.NEQ, token.LSS, token.LEQ, token.GTR, token.GEQ:
				if simple(be.Y) {
					e = ast.Unparen(be.X)
				} else if simple(be.X) {
					e = ast.Unparen(be.Y)
				}
			}
		}
		call, ok := e.(*ast.CallExpr)
		if !ok {
			return nil, nil
		}
		f, _ := calleeOf(info, call).(*types.Func)
		if f == nil {
			return nil, nil
		}
		h := c.helpers[f.Origin()]
		if h == nil {
			return nil, nil
		}
		return call, h
	}
	switch x := s.(type) {
	case *ast.ExprStmt:
		if call, h := pick(x.X); call != nil && ast.Unparen(x.X) == ast.Expr(call) {
			return call, h, nil
		}
	case *ast.AssignStmt:
		if len(x.Rhs) == 1 {
			if call, h := pick(x.Rhs[0]); call != nil {
				return call, h, nil
			}
		}
	case *ast.ReturnStmt:
		if len(x.Results) == 1 {
			if call, h := pick(x.Results[0]); call != nil {
				return call, h, nil
			}
		}
	case *ast.IfStmt:
		if x.Init == nil {
			if call, h := pick(x.Cond); call != nil {
				return call, h, nil
			}
		} else if call, h, _ := c.headCall(info, x.Init); call != nil {
			return call, h, x.Init
		}
	}
	return nil, nil, nil
}

func simple(e ast.Expr) bool {
	switch x := ast.Unparen(e).(type) {
	case *ast.Ident, *ast.BasicLit:
		return true
	case *ast.SelectorExpr:
		return simple(x.X)
	case *ast.UnaryExpr:
		return x.Op == token.SUB && simple(x.X)
	}
	return false
}

func (c *ctx) rewriteStmt(pk *packages.Package, f *ast.File, fname string, caller *ast.FuncDecl, s ast.Stmt, callerLocals map[string]bool) (edit, bool) {
	info := pk.TypesInfo
	call, h, init := c.headCall(info, s)
	if call == nil || h.pkg != pk {
		return edit{}, false
	}
	if h.fd == caller {
		return edit{}, false
	}
	// names the helper body takes from outside itself must mean the same thing at the call site
	if !c.namesAgree(h, f, callerLocals) {
		return edit{}, false
	}
	c.seq++
	suffix := fmt.Sprintf("__inl%d", c.seq)
	sig := h.obj.Type().(*types.Signature)
	hfile := c.fset.Position(h.fd.Pos()).Filename
	var b bytes.Buffer
	// result variables
	var resNames []string
	if h.fd.Type.Results != nil {
		i := 0
		for _, r := range h.fd.Type.Results.List {
			n := len(r.Names)
			if n == 0 {
				n = 1
			}
			for k := 0; k < n; k++ {
				name := fmt.Sprintf("res%d%s", i, suffix)
				resNames = append(resNames, name)
				fmt.Fprintf(&b, "var %s %s\n", name, c.text(hfile, r.Type.Pos(), r.Type.End()))
				i++
			}
		}
	}
	_ = sig
	b.WriteString("{\n")
	// bindings: receiver first, then parameters, in call order
	type bind struct {
		name   string
		typ    string
		arg    string
		obj     types.Object
		simple  bool
		argExpr ast.Expr
	}
	var binds []bind
	if h.fd.Recv != nil {
		se, ok := ast.Unparen(call.Fun).(*ast.SelectorExpr)
		if !ok {
			return edit{}, false
		}
		rf := h.fd.Recv.List[0]
		recvText := c.text(fname, se.X.Pos(), se.X.End())
		rt := c.text(hfile, rf.Type.Pos(), rf.Type.End())
		// auto address / dereference
		_, wantPtr := rf.Type.(*ast.StarExpr)
		_, havePtr := info.TypeOf(se.X).Underlying().(*types.Pointer)
		switch {
		case wantPtr && !havePtr:
			recvText = "&" + recvText
		case !wantPtr && havePtr:
			recvText = "*" + recvText
		}
		binds = append(binds, bind{rf.Names[0].Name, rt, recvText, h.pkg.TypesInfo.Defs[rf.Names[0]], simple(se.X) && recvText == c.text(fname, se.X.Pos(), se.X.End()), se.X})
	}
	ai := 0
	for _, p := range h.fd.Type.Params.List {
		for _, n := range p.Names {
			if ai >= len(call.Args) {
				return edit{}, false
			}
			a := call.Args[ai]
			binds = append(binds, bind{n.Name, c.text(hfile, p.Type.Pos(), p.Type.End()), c.text(fname, a.Pos(), a.End()), h.pkg.TypesInfo.Defs[n], simple(a) && sameType(info.TypeOf(a), h.pkg.TypesInfo.Defs[n].Type()), a})
			ai++
		}
	}
	if ai != len(call.Args) {
		return edit{}, false
	}
	// a parameter that the helper never assigns and whose argument is a plain access path or
	// literal is replaced by the argument text itself, so the inlined statements read exactly like
	// the code the helper was extracted from; the others are bound to fresh variables
	subst := map[types.Object]string{}
	argIdents := map[string]bool{}
	for _, bd := range binds {
		for _, w := range identWords(bd.arg) {
			argIdents[w] = true
		}
	}
	for _, bd := range binds {
		if bd.simple && !assignedIn(h.pkg.TypesInfo, h.fd.Body, bd.obj) && c.stableArg(info, caller, h, bd.obj, bd.argExpr) {
			subst[bd.obj] = bd.arg
			continue
		}
		fmt.Fprintf(&b, "var %s%s %s = %s\n_ = %s%s\n", bd.name, suffix, bd.typ, bd.arg, bd.name, suffix)
	}
	// body with locals renamed (only where a name would capture one used by an argument) and
	// returns rewritten
	var directTexts []string
	// helper locals leak into the enclosing block in direct mode: any name the caller also uses is renamed
	for n := range callerLocals {
		argIdents[n] = true
	}
	if as, isAs := s.(*ast.AssignStmt); isAs && as.Tok == token.DEFINE {
		// not wrapped in a block (the defined variables must stay visible): every helper local gets
		// a name of its own, two inlinings in one scope must not redeclare each other's locals
		argIdents["*"] = true
	}
	body, ok := c.bodyText(h, suffix, resNames, subst, argIdents, &directTexts)
	if !ok {
		return edit{}, false
	}
	repl := strings.Join(resNames, ", ")
	if len(directTexts) == len(resNames) && len(resNames) > 0 {
		// no result variables, no inner block: statements, then the call replaced by what was returned
		var nb bytes.Buffer
		for _, l := range strings.Split(b.String(), "\n") {
			if strings.HasPrefix(l, "var res") || l == "{" {
				continue
			}
			nb.WriteString(l + "\n")
		}
		b = nb
		b.WriteString(body)
		repl = strings.Join(directTexts, ", ")
	} else {
		b.WriteString(body)
		b.WriteString("}\n")
	}
	// the statement itself with the call replaced by the result variable(s)
	stmtText := func(st ast.Stmt) string {
		src := c.source(fname)
		so, eo := c.off(st.Pos()), c.off(st.End())
		co, ce := c.off(call.Pos()), c.off(call.End())
		return string(src[so:co]) + repl + string(src[ce:eo])
	}
	var out bytes.Buffer
	out.WriteString("{ // inlined " + h.name + "\n")
	switch x := s.(type) {
	case *ast.ExprStmt:
		out.Write(b.Bytes())
		if len(directTexts) == len(resNames) && len(resNames) > 0 {
			// the value is discarded, the returned expressions are still evaluated
			for _, t := range directTexts {
				fmt.Fprintf(&out, "_ = %s\n", t)
			}
		} else {
			for _, r := range resNames {
				fmt.Fprintf(&out, "_ = %s\n", r)
			}
		}
		out.WriteString("}")
	case *ast.IfStmt:
		if init != nil {
			// { <inline>; init'; if cond {...} }: the init statement's variables stay visible to the if
			out.Write(b.Bytes())
			out.WriteString(stmtText(init) + "\n")
			src := c.source(fname)
			out.WriteString("if " + string(src[c.off(x.Cond.Pos()):c.off(x.End())]))
			out.WriteString("\n}")
		} else {
			out.Write(b.Bytes())
			out.WriteString(stmtText(s))
			out.WriteString("\n}")
		}
	default:
		if as, isAs := s.(*ast.AssignStmt); isAs && as.Tok == token.DEFINE {
			// assignment with := must keep its variables visible after the statement: no outer braces
			out.Reset()
			out.WriteString("// inlined " + h.name + "\n")
			out.Write(b.Bytes())
			out.WriteString(stmtText(s))
		} else {
			out.Write(b.Bytes())
			out.WriteString(stmtText(s))
			out.WriteString("\n}")
		}
	}
	c.log = append(c.log, h.name+" into "+QualName("", caller))
	return edit{c.off(s.Pos()), c.off(s.End()), out.String()}, true
}

// namesAgree: every package-level or universe name the helper body uses resolves to the same
// thing in the caller (no caller local of that name), and every imported package it names is
// imported under the same name by the caller's file.
func (c *ctx) namesAgree(h *helper, callerFile *ast.File, callerLocals map[string]bool) bool {
	info := h.pkg.TypesInfo
	imports := map[string]string{}
	for _, im := range callerFile.Imports {
		path := strings.Trim(im.Path.Value, `"`)
		name := path[strings.LastIndex(path, "/")+1:]
		if im.Name != nil {
			name = im.Name.Name
		}
		imports[name] = path
	}
	ok := true
	check := func(n ast.Node) {
		ast.Inspect(n, func(x ast.Node) bool {
			id, isID := x.(*ast.Ident)
			if !isID {
				return true
			}
			o := info.Uses[id]
			if o == nil {
				return true
			}
			if pn, isPkg := o.(*types.PkgName); isPkg {
				if imports[id.Name] != pn.Imported().Path() {
					ok = false
				}
				return true
			}
			if o.Parent() == types.Universe || (o.Pkg() != nil && o.Parent() == o.Pkg().Scope()) {
				if callerLocals[id.Name] {
					ok = false
				}
			}
			return true
		})
	}
	check(h.fd.Body)
	check(h.fd.Type)
	if h.fd.Recv != nil {
		check(h.fd.Recv)
	}
	return ok
}

// bodyText renders the helper's statements with its own variables renamed and its returns
// turned into assignments to the result variables. A body whose only return is its last statement
// is emitted flat; otherwise it is wrapped in a single-iteration labelled loop and each return
// becomes an assignment followed by a break out of that loop.
func (c *ctx) bodyText(h *helper, suffix string, res []string, subst map[types.Object]string, argIdents map[string]bool, direct *[]string) (string, bool) {
	info := h.pkg.TypesInfo
	fname := c.fset.Position(h.fd.Pos()).Filename
	src := c.source(fname)
	if src == nil {
		return "", false
	}
	var rets []*ast.ReturnStmt
	var walk func(n ast.Node)
	walk = func(n ast.Node) {
		ast.Inspect(n, func(x ast.Node) bool {
			switch r := x.(type) {
			case *ast.FuncLit:
				return false
			case *ast.ReturnStmt:
				rets = append(rets, r)
			}
			return true
		})
	}
	walk(h.fd.Body)
	list := h.fd.Body.List
	flat := len(rets) == 0 || (len(rets) == 1 && len(list) > 0 && list[len(list)-1] == ast.Stmt(rets[0]))
	// direct mode: the only return is the last statement; the
	// statements are emitted without it and the call is replaced by the returned expressions
	useDirect := false
	if direct != nil && flat && len(rets) == 1 && len(rets[0].Results) == len(res) && len(res) > 0 {
		// (a bare return of named results has no expressions to put in place of the call)
		// the returned expressions are evaluated last, and the call is the first thing its statement
		// evaluates: putting them in its place keeps the order of evaluation
		useDirect = true
	}
	label := "L" + suffix
	var edits []edit
	var named []string
	if h.fd.Type.Results != nil {
		for _, r := range h.fd.Type.Results.List {
			for _, n := range r.Names {
				if argIdents[n.Name] || argIdents["*"] {
					named = append(named, n.Name+suffix)
				} else {
					named = append(named, n.Name)
				}
			}
		}
	}
	// renames
	paramObj := map[types.Object]bool{}
	if h.fd.Recv != nil {
		paramObj[info.Defs[h.fd.Recv.List[0].Names[0]]] = true
	}
	for _, p := range h.fd.Type.Params.List {
		for _, n := range p.Names {
			paramObj[info.Defs[n]] = true
		}
	}
	lo, hi := h.fd.Pos(), h.fd.End()
	// the symbolic variable of a type switch has no object of its own (one implicit object per
	// clause, positioned at the identifier): rename the identifier whenever its uses are renamed
	ast.Inspect(h.fd.Body, func(x ast.Node) bool {
		ts, ok := x.(*ast.TypeSwitchStmt)
		if !ok {
			return true
		}
		if as, ok := ts.Assign.(*ast.AssignStmt); ok && len(as.Lhs) == 1 {
			if id, ok := as.Lhs[0].(*ast.Ident); ok && id.Name != "_" && (argIdents[id.Name] || argIdents["*"]) {
				edits = append(edits, edit{c.off(id.Pos()), c.off(id.End()), id.Name + suffix})
			}
		}
		return true
	})
	ast.Inspect(h.fd.Body, func(x ast.Node) bool {
		id, ok := x.(*ast.Ident)
		if !ok || id.Name == "_" {
			return true
		}
		o := info.Defs[id]
		if o == nil {
			o = info.Uses[id]
		}
		if o == nil || o.Pos() < lo || o.Pos() >= hi {
			return true
		}
		if v, isVar := o.(*types.Var); isVar && v.IsField() {
			return true
		}
		if o.Parent() == nil || (o.Pkg() != nil && o.Parent() == o.Pkg().Scope()) {
			return true
		}
		if txt, ok := subst[o]; ok {
			edits = append(edits, edit{c.off(id.Pos()), c.off(id.End()), txt})
			return true
		}
		if _, isParam := paramObj[o]; !isParam && !argIdents[id.Name] && !argIdents["*"] {
			return true // a helper local whose name no argument uses keeps its name (own block scope)
		}
		edits = append(edits, edit{c.off(id.Pos()), c.off(id.End()), id.Name + suffix})
		return true
	})
	// returns
	for _, r := range rets {
		var t bytes.Buffer
		if useDirect {
			edits = append(edits, edit{c.off(r.Pos()), c.off(r.End()), "{ }"})
			continue
		}
		t.WriteString("{ ")
		switch {
		case len(r.Results) == len(res):
			for i, e := range r.Results {
				fmt.Fprintf(&t, "%s = %s; ", res[i], "\x00"+fmt.Sprint(c.off(e.Pos()))+":"+fmt.Sprint(c.off(e.End()))+"\x00")
			}
		case len(r.Results) == 1 && len(res) > 1:
			fmt.Fprintf(&t, "%s = %s; ", strings.Join(res, ", "), "\x00"+fmt.Sprint(c.off(r.Results[0].Pos()))+":"+fmt.Sprint(c.off(r.Results[0].End()))+"\x00")
		case len(r.Results) == 0 && len(res) == 0:
		case len(r.Results) == 0 && len(named) == len(res):
			for i, nm := range named {
				fmt.Fprintf(&t, "%s = %s; ", res[i], nm)
			}
		default:
			return "", false
		}
		if !flat {
			t.WriteString("break " + label + " ")
		}
		t.WriteString("}")
		_ = t
		edits = append(edits, edit{c.off(r.Pos()), c.off(r.End()), t.String()})
	}
	// apply edits inside the body range; return edits embed expression ranges (\x00from:to\x00) that
	// must themselves receive the renames, so renames are applied first on a copy used for lookups
	bodyLo, bodyHi := c.off(h.fd.Body.Lbrace)+1, c.off(h.fd.Body.Rbrace)
	renamed := func(from, to int) string {
		var es []edit
		for _, e := range edits {
			if e.start >= from && e.end <= to && !strings.HasPrefix(e.text, "{ ") {
				es = append(es, edit{e.start - from, e.end - from, e.text})
			}
		}
		return string(apply(append([]byte{}, src[from:to]...), es))
	}
	var final []edit
	for _, e := range edits {
		if strings.HasPrefix(e.text, "{ ") {
			txt := e.text
			for {
				i := strings.IndexByte(txt, 0)
				if i < 0 {
					break
				}
				j := strings.IndexByte(txt[i+1:], 0) + i + 1
				var from, to int
				fmt.Sscanf(txt[i+1:j], "%d:%d", &from, &to)
				txt = txt[:i] + renamed(from, to) + txt[j+1:]
			}
			final = append(final, edit{e.start - bodyLo, e.end - bodyLo, txt})
		}
	}
	for _, e := range edits {
		if strings.HasPrefix(e.text, "{ ") {
			continue
		}
		inside := false
		for _, r := range rets {
			if e.start >= c.off(r.Pos()) && e.end <= c.off(r.End()) {
				inside = true
			}
		}
		if !inside {
			final = append(final, edit{e.start - bodyLo, e.end - bodyLo, e.text})
		}
	}
	body := string(apply(append([]byte{}, src[bodyLo:bodyHi]...), final))
	// named results are ordinary variables of the helper, declared before its statements
	if h.fd.Type.Results != nil {
		decl := ""
		for _, r := range h.fd.Type.Results.List {
			for _, n := range r.Names {
				name := n.Name
				if argIdents[name] || argIdents["*"] {
					name += suffix
				}
				decl += "var " + name + " " + string(src[c.off(r.Type.Pos()):c.off(r.Type.End())]) + "\n_ = " + name + "\n"
			}
		}
		body = decl + body
	}
	if useDirect {
		var rtypes []string
		if h.fd.Type.Results != nil {
			for _, r := range h.fd.Type.Results.List {
				n := len(r.Names)
				if n == 0 {
					n = 1
				}
				for k := 0; k < n; k++ {
					rtypes = append(rtypes, string(src[c.off(r.Type.Pos()):c.off(r.Type.End())]))
				}
			}
		}
		for i, e := range rets[0].Results {
			txt := renamed(c.off(e.Pos()), c.off(e.End()))
			untyped := false
			if tv, ok := info.Types[e]; ok && tv.Type != nil {
				if b, isB := tv.Type.(*types.Basic); isB && b.Info()&types.IsUntyped != 0 {
					untyped = true
				}
			}
			switch {
			case untyped && i < len(rtypes):
				txt = "(" + rtypes[i] + ")(" + txt + ")" // nil or a constant takes the declared result type
			case !simple(e):
				if _, isCall := ast.Unparen(e).(*ast.CallExpr); !isCall {
					txt = "(" + txt + ")"
				}
			}
			*direct = append(*direct, txt)
		}
	}
	if flat {
		return body + "\n", true
	}
	return label + ":\nfor {\n" + body + "\nbreak " + label + "\n}\n", true
}

func sameType(a, b types.Type) bool { return a != nil && b != nil && types.Identical(a, b) }

// identWords lists the identifier-like words of a source fragment.
func identWords(s string) []string {
	var out []string
	cur := ""
	for _, r := range s + " " {
		if r == '_' || (r >= 'a' && r <= 'z') || (r >= 'A' && r <= 'Z') || (r >= '0' && r <= '9' && cur != "") {
			cur += string(r)
			continue
		}
		if cur != "" {
			out = append(out, cur)
			cur = ""
		}
	}
	return out
}

// assignedIn: is obj assigned, incremented, ranged into or address-taken in body?
func assignedIn(info *types.Info, body ast.Node, obj types.Object) bool {
	found := false
	isObj := func(e ast.Expr) bool {
		id, ok := ast.Unparen(e).(*ast.Ident)
		return ok && (info.Uses[id] == obj || info.Defs[id] == obj)
	}
	ast.Inspect(body, func(n ast.Node) bool {
		switch x := n.(type) {
		case *ast.AssignStmt:
			for _, l := range x.Lhs {
				if isObj(l) {
					found = true
				}
			}
		case *ast.IncDecStmt:
			if isObj(x.X) {
				found = true
			}
		case *ast.UnaryExpr:
			if x.Op == token.AND && isObj(x.X) {
				found = true
			}
		case *ast.RangeStmt:
			if (x.Key != nil && isObj(x.Key)) || (x.Value != nil && isObj(x.Value)) {
				found = true
			}
		}
		return !found
	})
	return found
}

// stableArg: may the parameter be replaced by the argument expression itself? Only when the
// expression denotes the same value throughout the helper's execution and afterwards:
//   - a literal or constant;
//   - a local variable of the caller whose address is never taken, provided the parameter is not
//     captured by a function literal of the helper (a closure would see later assignments);
//   - a field path rooted at such a variable, provided the helper itself does not assign, increment
//     or take the address of a field of one of those names (that calls made by the helper leave the
//     fields of the path alone is the assumption the intra-procedural rules make anyway).
func (c *ctx) stableArg(info *types.Info, caller *ast.FuncDecl, h *helper, param types.Object, arg ast.Expr) bool {
	hinfo := h.pkg.TypesInfo
	captured := false
	ast.Inspect(h.fd.Body, func(n ast.Node) bool {
		if fl, ok := n.(*ast.FuncLit); ok {
			ast.Inspect(fl, func(m ast.Node) bool {
				if id, ok := m.(*ast.Ident); ok && hinfo.Uses[id] == param {
					captured = true
				}
				return !captured
			})
			return false
		}
		return !captured
	})
	if captured {
		return false
	}
	var fields []string
	e := ast.Unparen(arg)
	for {
		switch x := e.(type) {
		case *ast.BasicLit:
			return true
		case *ast.UnaryExpr:
			e = ast.Unparen(x.X)
			continue
		case *ast.SelectorExpr:
			if _, isPkg := info.Uses[identOf(x.X)].(*types.PkgName); isPkg {
				_, isConst := info.Uses[x.Sel].(*types.Const)
				return isConst
			}
			fields = append(fields, x.Sel.Name)
			e = ast.Unparen(x.X)
			continue
		case *ast.Ident:
			o := info.Uses[x]
			switch v := o.(type) {
			case *types.Const, *types.Nil:
				return true
			case *types.Var:
				if v.Pkg() != nil && v.Parent() == v.Pkg().Scope() {
					return false // package-level variable
				}
				if addressTaken(info, caller.Body, v) {
					return false
				}
			default:
				return false
			}
		default:
			return false
		}
		break
	}
	if len(fields) == 0 {
		return true
	}
	name := map[string]bool{}
	for _, f := range fields {
		name[f] = true
	}
	ok := true
	touches := func(e ast.Expr) bool {
		se, isSel := ast.Unparen(e).(*ast.SelectorExpr)
		return isSel && name[se.Sel.Name]
	}
	ast.Inspect(h.fd.Body, func(n ast.Node) bool {
		switch x := n.(type) {
		case *ast.AssignStmt:
			for _, l := range x.Lhs {
				if touches(l) {
					ok = false
				}
			}
		case *ast.IncDecStmt:
			if touches(x.X) {
				ok = false
			}
		case *ast.UnaryExpr:
			if x.Op == token.AND && touches(x.X) {
				ok = false
			}
		}
		return ok
	})
	return ok
}

func identOf(e ast.Expr) *ast.Ident {
	id, _ := ast.Unparen(e).(*ast.Ident)
	return id
}

func addressTaken(info *types.Info, body ast.Node, v types.Object) bool {
	found := false
	ast.Inspect(body, func(n ast.Node) bool {
		if u, ok := n.(*ast.UnaryExpr); ok && u.Op == token.AND {
			if id, ok := ast.Unparen(u.X).(*ast.Ident); ok && info.Uses[id] == v {
				found = true
			}
		}
		return !found
	})
	return found
}
