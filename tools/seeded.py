#!/usr/bin/env python3
"""Evaluates independently written breaking changes (seeded mutations) against the checks.
usage: seeded.py <dir-with-mutation-dirs> [--keep] [-j N] [--only NAME]
For each <dir>/<PROP>-<n>/ (patch.diff, zz_demo_*_test.go, meta.json): in a scratch copy of /repo
verify that (a) the patch applies and builds, (b) the demo passes without and fails with the patch,
(c) the repo suite still passes with the patch; then run every registered check on the patched copy and
record which of them report a violation. With --keep the confirmed mutation is stored under /verif/seeded/."""
import json, os, subprocess, sys, shutil, tempfile, argparse, glob, re
from concurrent.futures import ThreadPoolExecutor
ROOT = os.path.dirname(os.path.dirname(os.path.abspath(__file__)))
REPO = "/repo"
ENV = dict(os.environ, GOFLAGS="-mod=mod", GOPROXY="off")
for k in ("GOWORK", "GOTOOLCHAIN", "GOSUMDB"):
    ENV.pop(k, None)
CHECKS = [c["property_id"] for c in json.load(open(os.path.join(ROOT, "MANIFEST.json")))["checks"]]

def sh(cmd, cwd, timeout=900, env=ENV):
    try:
        p = subprocess.run(cmd, cwd=cwd, env=env, capture_output=True, text=True, timeout=timeout)
        return p.returncode, p.stdout + p.stderr
    except subprocess.TimeoutExpired as e:
        return 124, "TIMEOUT"

def test_names(path):
    return re.findall(r"^func (Test\w+)\(", open(path).read(), re.M)

def evaluate(mdir, args):
    mdir = os.path.abspath(mdir)
    name = os.path.basename(mdir.rstrip("/"))
    prop = name.split("-")[0]
    if args.renumber:
        # a later round: continue the numbering of the changes already kept for this property
        name = prop + "-" + str(int(name.split("-")[1]) + RENUM.get(prop, 0))
    res = {"id": name, "property": prop}
    patch = os.path.join(mdir, "patch.diff")
    demos = sorted(glob.glob(os.path.join(mdir, "zz_demo*_test.go")) + glob.glob(os.path.join(mdir, "*_test.go")))
    demos = sorted(set(demos))
    if not os.path.exists(patch) or not demos:
        res["status"] = "incomplete"
        return res
    d = tempfile.mkdtemp(prefix="seed.", dir="/root/scratch-main")
    try:
        repo = os.path.join(d, "repo")
        subprocess.run(["rsync", "-a", "--exclude", ".git", REPO + "/", repo + "/"], check=True)
        for f in demos:
            shutil.copy(f, repo)
        tests = sum((test_names(f) for f in demos), [])
        run = "^(" + "|".join(tests) + ")$"
        if args.checks_only:
            rc0 = 0
        else:
            rc0, out0 = sh(["go", "test", "-vet=off", "-count=1", "-timeout", "120s", "-run", run, "."], repo)
        res["demo_without_patch"] = "pass" if rc0 == 0 else "FAIL"
        rc, out = sh(["patch", "-p1", "--no-backup-if-mismatch", "-i", patch], repo)
        if rc != 0:
            res["status"] = "patch-does-not-apply"
            res["detail"] = out[-300:]
            return res
        rc, out = sh(["go", "build", "./..."], repo)
        if rc != 0:
            res["status"] = "no-build"
            res["detail"] = out[-300:]
            return res
        if args.checks_only:
            rc1, out1 = 1, ""
        else:
            rc1, out1 = sh(["go", "test", "-vet=off", "-count=1", "-timeout", "120s", "-run", run, "."], repo)
        res["demo_with_patch"] = "fail" if rc1 != 0 else "PASS"
        res["demo_excerpt"] = "\n".join(l for l in out1.splitlines() if "---" in l or "panic" in l or "_test.go" in l)[:400]
        # suite with patch (without the demo files)
        for f in demos:
            os.remove(os.path.join(repo, os.path.basename(f)))
        if args.checks_only:
            rcs, outs = 0, ""
        else:
            rcs, outs = sh(["go", "test", "-vet=off", "-count=1", "-timeout", "20m", "./..."], repo, timeout=1500)
        bad = [l for l in outs.splitlines() if re.match(r"\s*--- FAIL|panic|.*\[build failed\]", l) and "TestVerifyHostname" not in l]
        res["suite_with_patch"] = "pass" if not bad else "FAIL: " + "; ".join(bad)[:300]
        # checks
        vroot = os.path.join(d, "verif")
        os.makedirs(vroot)
        shutil.copy(os.path.join(ROOT, "known_findings.json"), vroot)
        env = dict(ENV, VERIF_REPO=repo)
        detected, undecided, details = [], [], {}
        c = subprocess.run([os.path.join(ROOT, "bin/utlsverify"), "-prop", "all", "-tier", "quick", "-root", vroot], env=env, capture_output=True, text=True)
        cur = []
        for l in c.stdout.splitlines():
            if l.startswith("RESULT "):
                _, pid, rc = l.split()
                if rc != "0":
                    hard = [x for x in cur if x.startswith("VIOLATION") and "kind=undecided" not in x]
                    if hard:
                        detected.append(pid)
                        details[pid] = [x.strip()[:260] for x in cur if x.strip().startswith("violation")][:3]
                    else:
                        undecided.append(pid)
                        details[pid] = [x.strip()[:260] for x in cur if "UNDECIDED" in x][:3]
                cur = []
            else:
                cur.append(l)
        res["detected_by"] = detected
        res["undecided"] = undecided
        res["details"] = details
        ok = res["demo_without_patch"] == "pass" and res["demo_with_patch"] == "fail" and res["suite_with_patch"] == "pass"
        res["status"] = "confirmed" if ok else "not-confirmed"
        res["caught"] = prop in detected
        if args.checks_only and ok:
            mp = os.path.join(mdir, "meta.json")
            meta = json.load(open(mp))
            meta.update({"detected_by_checks": detected, "undecided_checks": undecided, "target_check_detects": prop in detected, "target_check_fails_closed": prop in undecided, "violations_reported": details.get(prop, [])})
            json.dump(meta, open(mp, "w"), indent=1)
        if args.keep and ok and not args.checks_only:
            dst = os.path.join(ROOT, "seeded", name)
            os.makedirs(dst, exist_ok=True)
            shutil.copy(patch, dst)
            for f in demos:
                shutil.copy(f, dst)
            meta = {}
            mp = os.path.join(mdir, "meta.json")
            if os.path.exists(mp):
                try:
                    meta = json.load(open(mp))
                except Exception:
                    meta = {}
            meta.update({"property": prop, "confirmed_by": "tools/seeded.py: demo passes on the unmodified tree, fails with the patch; repo suite passes with the patch (TestVerifyHostname excluded)",
                         "detected_by_checks": detected, "undecided_checks": undecided, "target_check_detects": prop in detected, "target_check_fails_closed": prop in undecided,
                         "violations_reported": details.get(prop, [])})
            json.dump(meta, open(os.path.join(dst, "meta.json"), "w"), indent=1)
        return res
    finally:
        shutil.rmtree(d, ignore_errors=True)

RENUM = {}
for _d in glob.glob(os.path.join(ROOT, "seeded", "C*-*")):
    _p, _n = os.path.basename(_d).split("-")[:2]
    try:
        RENUM[_p] = max(RENUM.get(_p, 0), int(_n))
    except ValueError:
        pass

def main():
    ap = argparse.ArgumentParser()
    ap.add_argument("dirs", nargs="+")
    ap.add_argument("--keep", action="store_true")
    ap.add_argument("-j", type=int, default=6)
    ap.add_argument("--only")
    ap.add_argument("--renumber", action="store_true", help="number the changes after those already kept under seeded/")
    ap.add_argument("--checks-only", action="store_true", help="re-run only the checks on already confirmed mutations (directories under /verif/seeded)")
    args = ap.parse_args()
    mdirs = []
    for d in args.dirs:
        for m in sorted(glob.glob(os.path.join(d, "C*-*"))):
            if os.path.isdir(m) and (not args.only or args.only in m):
                mdirs.append(m)
    subprocess.run([os.path.join(ROOT, "bin/check"), "--build-only"], env=ENV)
    out = []
    with ThreadPoolExecutor(args.j) as ex:
        for r in ex.map(lambda m: evaluate(m, args), mdirs):
            out.append(r)
            print(f"{r['id']:10s} {r.get('status','?'):14s} demo(w/o={r.get('demo_without_patch')},with={r.get('demo_with_patch')}) suite={r.get('suite_with_patch','-')[:30]} caught={r.get('caught')} by={r.get('detected_by')} undecided={r.get('undecided')}", flush=True)
    json.dump(out, open("/tmp/seeded_results.json", "w"), indent=1)
main()
