#!/usr/bin/env python3
"""Checker self-validation: applies each catalogued source mutation to a scratch copy of
/repo (never /repo itself), verifies the mutant still builds, and demands that the
property's check exits 1 naming the expected rule. Usage: selfcheck.py [-p PROP] [-m ID] [-j N] [--tests]"""
import json, os, subprocess, sys, shutil, tempfile, argparse, re
from concurrent.futures import ThreadPoolExecutor
ROOT = os.path.dirname(os.path.dirname(os.path.abspath(__file__)))
REPO = os.environ.get("VERIF_REPO", "/repo")
ENV = dict(os.environ, GOFLAGS="-mod=mod", GOPROXY="off")
for k in ("GOWORK", "GOTOOLCHAIN", "GOSUMDB"):
    ENV.pop(k, None)

def run_one(m, args):
    d = tempfile.mkdtemp(prefix="utlsmut.", dir="/root/scratch-main")
    try:
        repo = os.path.join(d, "repo")
        subprocess.run(["rsync", "-a", "--exclude", ".git", REPO + "/", repo + "/"], check=True)
        for e in m.get("edits", [m]):
            p = os.path.join(repo, e["file"])
            s = open(p).read()
            cnt = s.count(e["old"])
            if (e.get("count", 1) == -1 and cnt == 0) or (e.get("count", 1) != -1 and cnt != e.get("count", 1)):
                return (m["id"], "STALE", f"pattern occurs {cnt} times in {e['file']}")
            s = s.replace(e["old"], e["new"])
            open(p, "w").write(s)
        b = subprocess.run(["go", "build", "./..."], cwd=repo, env=ENV, capture_output=True, text=True)
        if b.returncode != 0:
            return (m["id"], "NOBUILD", b.stderr[-400:])
        if args.tests:
            t = subprocess.run(["go", "test", "-vet=off", "-count=1", "."], cwd=repo, env=ENV, capture_output=True, text=True)
            if t.returncode != 0 and "TestVerifyHostname" not in t.stdout:
                return (m["id"], "TESTS-FAIL", t.stdout[-600:])
        vroot = os.path.join(d, "verif")
        os.makedirs(vroot)
        shutil.copy(os.path.join(ROOT, "known_findings.json"), vroot)
        res = []
        for prop in m["props"] if "props" in m else [m["prop"]]:
            env = dict(ENV, VERIF_REPO=repo)
            c = subprocess.run([os.path.join(ROOT, "bin/utlsverify"), "-prop", prop, "-tier", "quick", "-root", vroot], env=env, capture_output=True, text=True)
            out = c.stdout
            want = m.get("expect", "")
            hit = c.returncode == 1 and "VIOLATION property=" + prop in out and (want == "" or re.search(r"violation " + re.escape(want), out))
            if not hit:
                return (m["id"], "SURVIVED", f"{prop} exit={c.returncode} " + "\n".join(l for l in out.splitlines() if "violation" in l or "UNDECIDED" in l)[:600])
            res.append(prop)
        return (m["id"], "KILLED", ",".join(res))
    finally:
        shutil.rmtree(d, ignore_errors=True)

def main():
    ap = argparse.ArgumentParser()
    ap.add_argument("-p", "--prop")
    ap.add_argument("-m", "--mutant")
    ap.add_argument("-j", type=int, default=4)
    ap.add_argument("--tests", action="store_true")
    args = ap.parse_args()
    muts = []
    for f in sorted(os.listdir(os.path.join(ROOT, "selfcheck"))):
        if f.endswith(".json"):
            muts += json.load(open(os.path.join(ROOT, "selfcheck", f)))
    if args.prop:
        muts = [m for m in muts if args.prop in (m.get("props") or [m["prop"]])]
    if args.mutant:
        muts = [m for m in muts if m["id"] == args.mutant or (args.mutant.endswith("-") and m["id"].startswith(args.mutant))]
    subprocess.run([os.path.join(ROOT, "bin/check"), "--build-only"], env=ENV)
    bad = 0
    with ThreadPoolExecutor(args.j) as ex:
        for mid, st, info in ex.map(lambda m: run_one(m, args), muts):
            print(f"{st:10s} {mid}: {info}")
            if st != "KILLED":
                bad += 1
    print(f"mutants={len(muts)} not_killed={bad}")
    sys.exit(1 if bad else 0)
main()
