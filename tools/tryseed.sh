#!/bin/bash
# usage: tools/tryseed.sh <seed-dir-with-patch.diff> <Cxx>...   (scratch copy of /repo, never /repo itself)
set -u
cd "$(dirname "$0")/.."
S=$(realpath "$1"); shift
d=/root/scratch-main/tryseed.$$
rm -rf $d; mkdir -p $d
rsync -a --exclude .git /repo/ $d/repo/
(cd $d/repo && patch -p1 -s < "$S/patch.diff") || { echo "patch failed"; rm -rf $d; exit 3; }
cp known_findings.json $d/
for p in "$@"; do
  VERIF_REPO=$d/repo bin/utlsverify -prop $p -tier ${TIER:-quick} -root $d | grep -v "^C[0-9][0-9] tier" | cut -c1-420
done
rm -rf $d
