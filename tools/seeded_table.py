#!/usr/bin/env python3
"""Prints the markdown table of DESIGN.md 7.1 from seeded/*/meta.json (first-pass results are
kept in notes/seeded_round1_firstpass.json and notes/seeded_round2_firstpass.json)."""
import json, glob, os, re
ROOT = os.path.dirname(os.path.dirname(os.path.abspath(__file__)))
first = {}
for f in ("notes/seeded_round1_firstpass.json", "notes/seeded_round2_firstpass.json", "notes/seeded_round3_firstpass.json"):
    p = os.path.join(ROOT, f)
    if os.path.exists(p):
        for r in json.load(open(p)):
            if r.get("status") == "confirmed":
                first[r["id"]] = r
def key(d):
    p, n = os.path.basename(d).split("-")[:2]
    return (p, int(n))
print("| change | site | what breaks | first pass: target / other checks | now |")
print("|---|---|---|---|---|")
tot = hit = 0
for d in sorted(glob.glob(os.path.join(ROOT, "seeded", "C*-*")), key=key):
    sid = os.path.basename(d)
    m = json.load(open(os.path.join(d, "meta.json")))
    hunks = [l for l in open(os.path.join(d, "patch.diff"), errors="replace") if l.startswith("@@")]
    funcs = sorted(set(re.sub(r"^@@.*@@ ?", "", h).strip() for h in hunks))
    site = ", ".join(m.get("files", [])[:2])
    fn = "; ".join(re.sub(r"^func ", "", f).split("{")[0].strip()[:60] for f in funcs[:2] if f)
    clause = re.sub(r"\s+", " ", str(m.get("clause", "")))[:110].replace("|", "/")
    fp = first.get(sid)
    if fp:
        others = [x for x in fp.get("detected_by", []) if x != m["property"]]
        fps = ("caught" if fp.get("caught") else ("fails closed" if m["property"] in fp.get("undecided", []) else "missed")) + (" / " + ",".join(others) if others else "")
    else:
        fps = "-"
    now = "reported" if m.get("target_check_detects") else ("fails closed" if m.get("target_check_fails_closed") else "**not reported**")
    det = [x for x in m.get("detected_by_checks", []) if x != m["property"]]
    if det:
        now += " (+" + ",".join(det) + ")"
    tot += 1
    hit += 1 if m.get("target_check_detects") else 0
    print(f"| {sid} | {site}: {fn} | {clause} | {fps} | {now} |")
print(f"\n{hit} of {tot} kept changes are reported as a violation by the check of the property they were aimed at.")
