#!/bin/bash
# Runs the repo's suite and reports failing tests other than the baseline's always-failing TestVerifyHostname.
cd ${1:-/repo} && unset GOWORK; export GOFLAGS=-mod=mod GOPROXY=off
out=$(go test -vet=off -count=1 -timeout 25m ./... 2>&1)
bad=$(echo "$out" | grep -E "^\s*--- FAIL|^panic|\[build failed\]|cannot|undefined" | grep -v "TestVerifyHostname")
if [ -z "$bad" ]; then echo "SUITE-OK (only baseline failure TestVerifyHostname, if any)"; else echo "SUITE-FAIL"; echo "$bad"; fi
