#!/bin/bash
# Runs /repo's pinned suite (root package + subpackages) and prints failing tests other than the baseline's always-failing one.
cd ${1:-/repo} && unset GOWORK; export GOFLAGS=-mod=mod GOPROXY=off
go test -vet=off -count=1 -timeout 25m ./... 2>&1 | grep -E "^(--- FAIL|FAIL|ok|panic)" | grep -v "TestVerifyHostname" 
