#!/bin/bash
# Runs every registered check (quick) in parallel and reports the ones that do not exit 0.
cd "$(dirname "$0")/.."
bin/check --build-only
ids=$(jq -r '.checks[].property_id' MANIFEST.json)
fail=0
tmp=$(mktemp -d)
for p in $ids; do ( bin/utlsverify -prop $p -tier ${1:-quick} -root "$PWD" > $tmp/$p.out 2>&1; echo $? > $tmp/$p.rc ) & 
  while [ $(jobs -r | wc -l) -ge 8 ]; do sleep 0.2; done
done
wait
for p in $ids; do rc=$(cat $tmp/$p.rc); if [ "$rc" != "0" ]; then echo "NONZERO $p rc=$rc"; grep -v "^  \[" $tmp/$p.out | cut -c1-300 | head -5; fail=1; fi; done
[ $fail = 0 ] && echo "ALL $(echo $ids | wc -w) CHECKS EXIT 0"
rm -rf $tmp
exit $fail
