#!/usr/bin/env python3
"""Runs every check against behaviour-preserving refactorings (directories holding patch.diff +
meta.json). Each is applied to a scratch copy of /repo (never /repo itself); the copy must build;
any check that exits non-zero is an alarm on code where the property holds.
Usage: benign.py <dir-of-changes>... [-j N] [--suite] [--keep]"""
import json, os, subprocess, sys, shutil, tempfile, argparse, glob
from concurrent.futures import ThreadPoolExecutor
ROOT = os.path.dirname(os.path.dirname(os.path.abspath(__file__)))
REPO = os.environ.get("VERIF_REPO", "/repo")
ENV = dict(os.environ, GOFLAGS="-mod=mod", GOPROXY="off")
for k in ("GOWORK", "GOTOOLCHAIN", "GOSUMDB"):
    ENV.pop(k, None)
CHECKS = [c["property_id"] for c in json.load(open(os.path.join(ROOT, "MANIFEST.json")))["checks"]]

def evaluate(mdir, args):
    mdir = os.path.abspath(mdir)
    name = os.path.basename(os.path.dirname(mdir)) + "/" + os.path.basename(mdir)
    res = {"id": name, "dir": mdir}
    patch = os.path.join(mdir, "patch.diff")
    if not os.path.exists(patch):
        res["status"] = "incomplete"; return res
    d = tempfile.mkdtemp(prefix="benign.", dir="/root/scratch-main")
    try:
        repo = os.path.join(d, "repo")
        subprocess.run(["rsync", "-a", "--exclude", ".git", REPO + "/", repo + "/"], check=True)
        p = subprocess.run(["patch", "-p1", "--no-backup-if-mismatch", "-i", patch], cwd=repo, capture_output=True, text=True)
        if p.returncode != 0:
            res["status"] = "patch-does-not-apply"; res["detail"] = p.stdout[-200:]; return res
        b = subprocess.run(["go", "build", "./..."], cwd=repo, env=ENV, capture_output=True, text=True)
        if b.returncode != 0:
            res["status"] = "no-build"; res["detail"] = b.stderr[-300:]; return res
        if args.suite:
            t = subprocess.run(["go", "test", "-vet=off", "-count=1", "-timeout", "20m", "./..."], cwd=repo, env=ENV, capture_output=True, text=True)
            bad = [l for l in t.stdout.splitlines() if ("--- FAIL" in l or "panic" in l or "[build failed]" in l) and "TestVerifyHostname" not in l]
            if bad:
                res["status"] = "suite-fails"; res["detail"] = "; ".join(bad)[:300]; return res
        vroot = os.path.join(d, "verif"); os.makedirs(vroot)
        shutil.copy(os.path.join(ROOT, "known_findings.json"), vroot)
        alarms = {}
        c = subprocess.run([os.path.join(ROOT, "bin/utlsverify"), "-prop", "all", "-tier", "quick", "-root", vroot], env=dict(ENV, VERIF_REPO=repo), capture_output=True, text=True)
        cur = []
        seen = 0
        for l in c.stdout.splitlines():
            if l.startswith("RESULT "):
                _, pid, rc = l.split()
                seen += 1
                if rc != "0":
                    alarms[pid] = [x.strip()[:300] for x in cur if x.strip().startswith("violation") or "UNDECIDED" in x][:4]
                cur = []
            else:
                cur.append(l)
        if seen < len(CHECKS):
            alarms["LOAD"] = [c.stdout[-300:]]
        res["status"] = "evaluated"; res["alarms"] = alarms
        return res
    finally:
        shutil.rmtree(d, ignore_errors=True)

def main():
    ap = argparse.ArgumentParser()
    ap.add_argument("dirs", nargs="+"); ap.add_argument("-j", type=int, default=6)
    ap.add_argument("--suite", action="store_true"); ap.add_argument("--out", default="/root/scratch-main/benign_results.json")
    args = ap.parse_args()
    subprocess.run([os.path.join(ROOT, "bin/check"), "--build-only"], env=ENV)
    ms = []
    for d in args.dirs:
        ms += sorted(x for x in glob.glob(os.path.join(d, "C*-*")) if os.path.isdir(x))
    out = []
    with ThreadPoolExecutor(args.j) as ex:
        for r in ex.map(lambda m: evaluate(m, args), ms):
            out.append(r)
            print(f"{r['id']:22s} {r['status']:12s} alarms={sorted(r.get('alarms', {}).keys())} {r.get('detail','')[:120]}", flush=True)
    json.dump(out, open(args.out, "w"), indent=1)
    n = sum(1 for r in out if r.get("alarms"))
    print(f"changes={len(out)} with_alarms={n}")
main()
