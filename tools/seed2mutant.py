#!/usr/bin/env python3
"""Converts the confirmed seeded changes (seeded/<id>/patch.diff) into catalogue mutants
(selfcheck/seeded.json): each hunk becomes one old/new text edit, so the thorough tier and
tools/selfcheck.py re-apply them to the current tree as overlays."""
import json, os, re, glob
ROOT = os.path.dirname(os.path.dirname(os.path.abspath(__file__)))
out = []
for d in sorted(glob.glob(os.path.join(ROOT, "seeded", "C*-*"))):
    sid = os.path.basename(d)
    prop = sid.split("-")[0]
    edits, cur, old, new = [], None, [], []
    def flush():
        global old, new
        if cur and (old or new):
            edits.append({"file": cur, "old": "".join(old), "new": "".join(new)})
        old, new = [], []
    for line in open(os.path.join(d, "patch.diff"), errors="replace"):
        if line.startswith("diff --git"):
            flush(); cur = None
        elif line.startswith("+++ "):
            cur = re.sub(r"^b/", "", line[4:].strip())
        elif line.startswith("--- ") or line.startswith("index ") or line.startswith("new file") or line.startswith("\\"):
            continue
        elif line.startswith("@@"):
            flush()
        elif cur is not None:
            if line.startswith("+"):
                new.append(line[1:])
            elif line.startswith("-"):
                old.append(line[1:])
            else:
                body = line[1:] if line.startswith(" ") else line
                old.append(body); new.append(body)
    flush()
    edits = [e for e in edits if e["old"] != e["new"]]
    for e in edits:
        # a hunk whose text occurs several times in the file (repeated parrot tables): apply it to all
        try:
            if open(os.path.join(os.environ.get("VERIF_REPO", "/repo"), e["file"]), errors="replace").read().count(e["old"]) > 1:
                e["count"] = -1
        except OSError:
            pass
    meta = json.load(open(os.path.join(d, "meta.json")))
    if not meta.get("target_check_detects"):
        # not (yet) reported by the check of the property it was aimed at: listed in DESIGN.md 7.1,
        # and not part of the self-validation catalogue (which demands a report)
        continue
    out.append({"id": "seeded-" + sid, "prop": prop, "edits": edits, "expect": "", "clause": meta.get("clause", "")})
json.dump(out, open(os.path.join(ROOT, "selfcheck", "seeded.json"), "w"), indent=1)
print("mutants:", len(out))
