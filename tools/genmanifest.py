#!/usr/bin/env python3
"""Regenerates MANIFEST.json from tools/props_meta.json (one entry per claimed property)."""
import json, os, sys
root = os.path.dirname(os.path.dirname(os.path.abspath(__file__)))
meta = json.load(open(os.path.join(root, "tools", "props_meta.json")))
props = [json.loads(l) for l in open(os.path.join(root, "properties.jsonl")) if l.strip()]
baseline = json.load(open("/root/.vp/BASELINE.json"))["cmd"] if os.path.exists("/root/.vp/BASELINE.json") else ""
checks, na = [], []
for p in props:
    pid = p["id"]
    m = meta["claimed"].get(pid)
    if m is None:
        na.append({"property_id": pid, "reason": meta["not_applicable"].get(pid, "no static check built for this property yet; see DESIGN.md section 4")})
        continue
    checks.append({
        "property_id": pid,
        "quick_cmd": f"bin/check {pid} quick",
        "thorough_cmd": f"bin/check {pid} thorough",
        "evidence_file": f"/verif/evidence/{pid}.json",
        "replay_cmd_template": f"bin/check {pid} quick",
        "engine": "utlsverify",
        "level_claimed": {"category": "other", "text": m["text"], "design_ref": f"DESIGN.md section 4, {pid}"},
        "level_note": m["note"],
        "technique": m["technique"],
    })
man = {
    "version": 1,
    "setup_cmd": "bin/setup",
    "hooks": {"guard": "verif", "enable": "none: static analysis needs no instrumentation; checks read /repo's sources as they are",
              "baseline_off_cmd": baseline, "source_commits": [], "add_only": True},
    "engines": [{"name": "utlsverify", "path": "cmd/utlsverify", "serves_properties": [c["property_id"] for c in checks],
                 "kind_free_text": "repository-specific static analyser (go/packages, go/types, go/cfg, go/ssa; x/tools v0.29.0)"}],
    "checks": checks,
    "notes": "Every check decides structural necessary conditions of its property from /repo's current source; see DESIGN.md. known_findings.json lists genuine defects recorded rather than repaired.",
    "not_applicable": na,
}
json.dump(man, open(os.path.join(root, "MANIFEST.json"), "w"), indent=1)
print(f"claimed={len(checks)} not_applicable={len(na)}")
