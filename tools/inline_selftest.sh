#!/bin/bash
# Validates the source-level inliner (internal/inl): every inlinable function of the module is
# inlined at every supported call site into a scratch copy of /repo; the copy must build and pass
# the library's own test suite (TestVerifyHostname needs the network and fails in the baseline too).
set -u
cd "$(dirname "$0")/.."
export GOFLAGS=-mod=mod GOPROXY=off
unset GOWORK GOTOOLCHAIN GOSUMDB 2>/dev/null
d=/root/scratch-main/inltest.$$
rm -rf $d; mkdir -p $d
rsync -a --exclude .git ${VERIF_REPO:-/repo}/ $d/
go run ./cmd/inlinecheck $d || { rm -rf $d; exit 1; }
(cd $d && go build ./... && go test -vet=off -count=1 -timeout 20m ./... 2>&1 | grep -v "^ok\|no test files")
rm -rf $d
