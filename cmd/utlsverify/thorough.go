package main

import (
	"encoding/json"
	"fmt"
	"os"
	"os/exec"
	"path/filepath"
	"sort"
	"strings"
	"sync"

	"verif/internal/load"
	"verif/internal/report"
)

// A mutant is one catalogued source mutation (selfcheck/*.json): a textual edit of the
// current tree that still type-checks and breaks the property.
type mutEdit struct {
	File  string `json:"file"`
	Old   string `json:"old"`
	New   string `json:"new"`
	Count *int   `json:"count"`
}

type mutant struct {
	ID     string    `json:"id"`
	Prop   string    `json:"prop"`
	Expect string    `json:"expect"`
	Edits  []mutEdit `json:"edits"`
	mutEdit
}

func (m *mutant) edits() []mutEdit {
	if len(m.Edits) > 0 {
		return m.Edits
	}
	return []mutEdit{m.mutEdit}
}

func loadMutants(root, prop string) ([]mutant, error) {
	files, _ := filepath.Glob(filepath.Join(root, "selfcheck", "*.json"))
	sort.Strings(files)
	var out []mutant
	for _, f := range files {
		b, err := os.ReadFile(f)
		if err != nil {
			return nil, err
		}
		var ms []mutant
		if err := json.Unmarshal(b, &ms); err != nil {
			return nil, fmt.Errorf("%s: %v", f, err)
		}
		for _, m := range ms {
			if prop == "" || m.Prop == prop {
				out = append(out, m)
			}
		}
	}
	return out, nil
}

// overlayFor applies the mutant's edits to the current sources in memory. stale is set when
// an edit's pattern does not occur the expected number of times in this tree.
func overlayFor(m *mutant) (ov map[string][]byte, stale string, err error) {
	ov = map[string][]byte{}
	dir := load.RepoDir()
	for _, e := range m.edits() {
		p := filepath.Join(dir, e.File)
		src, ok := ov[p]
		if !ok {
			b, err := os.ReadFile(p)
			if err != nil {
				return nil, "", err
			}
			src = b
		}
		s := string(src)
		n := strings.Count(s, e.Old)
		want := 1
		if e.Count != nil {
			want = *e.Count
		}
		if (want == -1 && n == 0) || (want != -1 && n != want) {
			return nil, fmt.Sprintf("pattern occurs %d times in %s", n, e.File), nil
		}
		ov[p] = []byte(strings.ReplaceAll(s, e.Old, e.New))
	}
	return ov, "", nil
}

// selfValidate is the extra depth of the thorough tier: every catalogued mutation of this
// property is applied to the current tree as an in-memory overlay (nothing is written into
// /repo), the tree is type-checked again and the property's rules must report a violation.
// A mutation whose pattern is gone, or that no longer type-checks, is skipped and counted.
// A surviving mutation means the rules no longer see the construct they were written for.
func selfValidate(r *report.Report, prop, root string) {
	ms, err := loadMutants(root, prop)
	if err != nil {
		r.Unknown("SELF", "catalogue", "", "cannot read the mutant catalogue: %v", err)
		return
	}
	if len(ms) == 0 {
		r.Count("selfcheck_mutants", 0)
		return
	}
	exe, err := os.Executable()
	if err != nil {
		r.Unknown("SELF", "catalogue", "", "cannot locate the checker binary: %v", err)
		return
	}
	scratch := filepath.Join(root, "evidence", ".selfcheck-"+prop)
	os.RemoveAll(scratch)
	defer os.RemoveAll(scratch)
	type res struct{ status, detail string }
	results := make([]res, len(ms))
	sem := make(chan struct{}, 4)
	var wg sync.WaitGroup
	for i := range ms {
		wg.Add(1)
		go func(i int) {
			defer wg.Done()
			sem <- struct{}{}
			defer func() { <-sem }()
			m := &ms[i]
			croot := filepath.Join(scratch, m.ID)
			os.MkdirAll(croot, 0o755)
			cmd := exec.Command(exe, "-prop", prop, "-tier", "quick", "-root", croot, "-mutant", m.ID, "-catalogue", root)
			cmd.Env = os.Environ()
			out, _ := cmd.CombinedOutput()
			s := string(out)
			switch {
			case strings.Contains(s, "MUTANT-STALE"):
				results[i] = res{"stale", firstLine(s, "MUTANT-STALE")}
			case strings.Contains(s, "MUTANT-NOBUILD"):
				results[i] = res{"nobuild", firstLine(s, "MUTANT-NOBUILD")}
			case strings.Contains(s, "  violation "):
				results[i] = res{"killed", firstLine(s, "  violation ")}
			case strings.Contains(s, "VIOLATION property="):
				results[i] = res{"closed", firstLine(s, "UNDECIDED")}
			default:
				results[i] = res{"survived", lastLine(s)}
			}
		}(i)
	}
	wg.Wait()
	counts := map[string]int{}
	for i, m := range ms {
		counts[results[i].status]++
		switch results[i].status {
		case "killed":
			r.Ok("SELF", m.ID, "", "mutation of the current tree is reported: %s", trim(results[i].detail, 160))
		case "closed":
			r.Ok("SELF", m.ID, "", "mutation of the current tree makes the check fail closed: %s", trim(results[i].detail, 160))
		case "survived":
			r.Unknown("SELF", m.ID, "", "checker self-validation: the catalogued mutation %q applies to this tree, still type-checks, and is not reported (expected %s): the rule no longer sees the construct it was written for", m.ID, m.Expect)
		}
	}
	for k, v := range counts {
		r.Count("selfcheck_"+k, v)
	}
	r.Count("selfcheck_mutants", len(ms))
}

func firstLine(s, marker string) string {
	for _, l := range strings.Split(s, "\n") {
		if strings.Contains(l, marker) {
			return strings.TrimSpace(l)
		}
	}
	return ""
}

func lastLine(s string) string {
	ls := strings.Split(strings.TrimSpace(s), "\n")
	return ls[len(ls)-1]
}

func trim(s string, n int) string {
	if len(s) > n {
		return s[:n] + "…"
	}
	return s
}
