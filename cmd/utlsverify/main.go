// Command utlsverify decides one property of /repo's current source by static analysis.
package main

import (
	"flag"
	"fmt"
	"go/ast"
	"os"
	"path/filepath"
	"runtime/debug"
	"sort"
	"strings"

	"verif/internal/inl"

	"verif/internal/load"
	"verif/internal/props"
	"verif/internal/report"
)

func main() {
	prop := flag.String("prop", "", "property id (C01..C36)")
	tier := flag.String("tier", "quick", "quick|thorough")
	root := flag.String("root", "/verif", "verif root (evidence, known findings)")
	list := flag.Bool("list", false, "list registered properties")
	listFuncs := flag.Bool("listfuncs", false, "print the function names of the tree (recorded as known_functions.txt)")
	mutantID := flag.String("mutant", "", "internal (thorough tier): analyse the tree with this catalogued mutation applied as an overlay")
	catalogue := flag.String("catalogue", "", "internal: root holding selfcheck/ when -mutant is given")
	flag.Parse()
	if *listFuncs {
		listFunctions()
		return
	}
	if *list {
		ids := props.IDs()
		sort.Strings(ids)
		for _, id := range ids {
			fmt.Println(id)
		}
		return
	}
	if *prop == "all" {
		os.Exit(runAll(*tier, *root))
	}
	p := props.Get(*prop)
	if p == nil {
		fmt.Printf("UNDECIDED property=%s reason=no checker registered\n", *prop)
		os.Exit(2)
	}
	r := report.New(*prop, *tier, *root)
	code := 2
	func() {
		defer func() {
			if e := recover(); e != nil {
				fmt.Printf("UNDECIDED property=%s reason=checker panic: %v\n%s\n", *prop, e, debug.Stack())
				code = r.Abort(fmt.Sprintf("checker panic: %v", e))
			}
		}()
		var overlay map[string][]byte
		if *mutantID != "" {
			ms, err := loadMutants(*catalogue, *prop)
			if err != nil {
				fmt.Printf("MUTANT-NOBUILD %v\n", err)
				code = 3
				return
			}
			for i := range ms {
				if ms[i].ID == *mutantID {
					ov, stale, err := overlayFor(&ms[i])
					if err != nil || stale != "" {
						fmt.Printf("MUTANT-STALE %s %v\n", stale, err)
						code = 3
						return
					}
					overlay = ov
				}
			}
			if overlay == nil {
				fmt.Printf("MUTANT-STALE not in catalogue\n")
				code = 3
				return
			}
		}
		prog, err := loadNormalised(p.NeedDeps, overlay, *root)
		if err != nil && *mutantID != "" {
			fmt.Printf("MUTANT-NOBUILD %v\n", err)
			code = 3
			return
		}
		if err != nil {
			fmt.Printf("UNDECIDED property=%s reason=load failed: %v\n", *prop, err)
			code = r.Abort(fmt.Sprintf("load failed: %v", err))
			return
		}
		r.Count("packages", len(prog.Pkgs))
		p.Run(&props.Ctx{P: prog, R: r, Tier: *tier})
		if *tier == "thorough" && *mutantID == "" {
			selfValidate(r, *prop, *root)
		}
		code = r.Finish()
	}()
	os.Exit(code)
}

// runAll decides every registered property on one load of the tree (evaluation harnesses
// only; the registered commands run one property per process). Prints "RESULT <id> <rc>".
func runAll(tier, root string) int {
	prog, err := loadNormalised(true, nil, root)
	if err != nil {
		fmt.Printf("LOAD-FAILED %v\n", err)
		return 1
	}
	ids := props.IDs()
	sort.Strings(ids)
	worst := 0
	for _, id := range ids {
		if id[0] != 'C' {
			continue
		}
		p := props.Get(id)
		r := report.New(id, tier, root)
		code := 1
		func() {
			defer func() {
				if e := recover(); e != nil {
					fmt.Printf("UNDECIDED property=%s reason=checker panic: %v\n", id, e)
					code = r.Abort(fmt.Sprintf("checker panic: %v", e))
				}
			}()
			r.Count("packages", len(prog.Pkgs))
			p.Run(&props.Ctx{P: prog, R: r, Tier: tier})
			code = r.Finish()
		}()
		fmt.Printf("RESULT %s %d\n", id, code)
		if code > worst {
			worst = code
		}
	}
	return worst
}

// loadNormalised loads the tree and, when it contains functions the rules have never seen
// (names absent from known_functions.txt), loads it again with their call sites inlined.
func loadNormalised(deps bool, overlay map[string][]byte, root string) (*load.Program, error) {
	// with an overlay every package is loaded from source (see below)
	prog, err := load.Load(deps || overlay != nil, overlay)
	if err != nil {
		return nil, err
	}
	known := knownFunctions(root)
	if known == nil || os.Getenv("VERIF_NO_INLINE") != "" {
		return prog, nil
	}
	if overlay != nil {
		// the overlay mutants are edits of known functions; inlining reads sources from disk
		return prog, nil
	}
	ov, log := inl.Overlay(prog.Pkgs, prog.Fset, load.ModPath, known)
	if len(ov) == 0 {
		return prog, nil
	}
	if d := os.Getenv("VERIF_DUMP_INLINE"); d != "" {
		os.MkdirAll(d, 0o755)
		for f, b := range ov {
			os.WriteFile(filepath.Join(d, filepath.Base(f)), b, 0o644)
		}
	}
	// with an overlay, packages that depend on rewritten files are type-checked from source while
	// the others would come from export data: load everything from source so that each package
	// exists once (the SSA builder relies on that)
	prog2, err := load.Load(true, ov)
	if err != nil {
		fmt.Printf("NOTE inlining of new helper functions did not type-check (%v); analysing the tree as it is\n", err)
		return prog, nil
	}
	fmt.Printf("NOTE analysed with new helper functions inlined at their call sites: %s\n", strings.Join(log, "; "))
	return prog2, nil
}

func knownFunctions(root string) map[string]bool {
	b, err := os.ReadFile(filepath.Join(root, "known_functions.txt"))
	if err != nil {
		if exe, e2 := os.Executable(); e2 == nil {
			b, err = os.ReadFile(filepath.Join(filepath.Dir(filepath.Dir(exe)), "known_functions.txt"))
		}
	}
	if err != nil {
		return nil
	}
	m := map[string]bool{}
	for _, l := range strings.Split(string(b), "\n") {
		if l = strings.TrimSpace(l); l != "" {
			m[l] = true
		}
	}
	return m
}

func listFunctions() {
	prog, err := load.Load(false, nil)
	if err != nil {
		fmt.Println("load failed:", err)
		os.Exit(1)
	}
	var names []string
	for _, pk := range prog.Pkgs {
		rel := strings.TrimPrefix(strings.TrimPrefix(pk.PkgPath, load.ModPath), "/")
		for _, f := range pk.Syntax {
			for _, d := range f.Decls {
				if fd, ok := d.(*ast.FuncDecl); ok {
					names = append(names, inl.QualName(rel, fd))
				}
			}
		}
	}
	sort.Strings(names)
	for _, n := range names {
		fmt.Println(n)
	}
}
