// Command utlsverify decides one property of /repo's current source by static analysis.
package main

import (
	"flag"
	"fmt"
	"os"
	"runtime/debug"
	"sort"

	"verif/internal/load"
	"verif/internal/props"
	"verif/internal/report"
)

func main() {
	prop := flag.String("prop", "", "property id (C01..C36)")
	tier := flag.String("tier", "quick", "quick|thorough")
	root := flag.String("root", "/verif", "verif root (evidence, known findings)")
	list := flag.Bool("list", false, "list registered properties")
	flag.Parse()
	if *list {
		ids := props.IDs()
		sort.Strings(ids)
		for _, id := range ids {
			fmt.Println(id)
		}
		return
	}
	p := props.Get(*prop)
	if p == nil {
		fmt.Printf("UNDECIDED property=%s reason=no checker registered\n", *prop)
		os.Exit(2)
	}
	r := report.New(*prop, *tier, *root)
	code := 2
	func() {
		defer func() {
			if e := recover(); e != nil {
				fmt.Printf("UNDECIDED property=%s reason=checker panic: %v\n%s\n", *prop, e, debug.Stack())
				code = r.Abort(fmt.Sprintf("checker panic: %v", e))
			}
		}()
		prog, err := load.Load(p.NeedDeps, nil)
		if err != nil {
			fmt.Printf("UNDECIDED property=%s reason=load failed: %v\n", *prop, err)
			code = r.Abort(fmt.Sprintf("load failed: %v", err))
			return
		}
		r.Count("packages", len(prog.Pkgs))
		p.Run(&props.Ctx{P: prog, R: r, Tier: *tier})
		code = r.Finish()
	}()
	os.Exit(code)
}
