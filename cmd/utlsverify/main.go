// Command utlsverify decides one property of /repo's current source by static analysis.
package main

import (
	"flag"
	"fmt"
	"os"
	"runtime/debug"
	"sort"

	"verif/internal/load"
	"verif/internal/props"
	"verif/internal/report"
)

func main() {
	prop := flag.String("prop", "", "property id (C01..C36)")
	tier := flag.String("tier", "quick", "quick|thorough")
	root := flag.String("root", "/verif", "verif root (evidence, known findings)")
	list := flag.Bool("list", false, "list registered properties")
	mutantID := flag.String("mutant", "", "internal (thorough tier): analyse the tree with this catalogued mutation applied as an overlay")
	catalogue := flag.String("catalogue", "", "internal: root holding selfcheck/ when -mutant is given")
	flag.Parse()
	if *list {
		ids := props.IDs()
		sort.Strings(ids)
		for _, id := range ids {
			fmt.Println(id)
		}
		return
	}
	p := props.Get(*prop)
	if p == nil {
		fmt.Printf("UNDECIDED property=%s reason=no checker registered\n", *prop)
		os.Exit(2)
	}
	r := report.New(*prop, *tier, *root)
	code := 2
	func() {
		defer func() {
			if e := recover(); e != nil {
				fmt.Printf("UNDECIDED property=%s reason=checker panic: %v\n%s\n", *prop, e, debug.Stack())
				code = r.Abort(fmt.Sprintf("checker panic: %v", e))
			}
		}()
		var overlay map[string][]byte
		if *mutantID != "" {
			ms, err := loadMutants(*catalogue, *prop)
			if err != nil {
				fmt.Printf("MUTANT-NOBUILD %v\n", err)
				code = 3
				return
			}
			for i := range ms {
				if ms[i].ID == *mutantID {
					ov, stale, err := overlayFor(&ms[i])
					if err != nil || stale != "" {
						fmt.Printf("MUTANT-STALE %s %v\n", stale, err)
						code = 3
						return
					}
					overlay = ov
				}
			}
			if overlay == nil {
				fmt.Printf("MUTANT-STALE not in catalogue\n")
				code = 3
				return
			}
		}
		prog, err := load.Load(p.NeedDeps, overlay)
		if err != nil && *mutantID != "" {
			fmt.Printf("MUTANT-NOBUILD %v\n", err)
			code = 3
			return
		}
		if err != nil {
			fmt.Printf("UNDECIDED property=%s reason=load failed: %v\n", *prop, err)
			code = r.Abort(fmt.Sprintf("load failed: %v", err))
			return
		}
		r.Count("packages", len(prog.Pkgs))
		p.Run(&props.Ctx{P: prog, R: r, Tier: *tier})
		if *tier == "thorough" && *mutantID == "" {
			selfValidate(r, *prop, *root)
		}
		code = r.Finish()
	}()
	os.Exit(code)
}
