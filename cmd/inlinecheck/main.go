// Command inlinecheck validates internal/inl: it inlines every inlinable module function at every
// supported call site (empty list of known functions) and writes the rewritten files into a
// scratch copy of the repository given as argument; tools/inline_selftest.sh then builds that copy
// and runs the library's own test suite on it.
package main

import (
	"fmt"
	"os"
	"strings"

	"verif/internal/inl"
	"verif/internal/load"
)

func main() {
	prog, err := load.Load(false, nil)
	if err != nil {
		fmt.Println("load:", err)
		os.Exit(1)
	}
	ov, log := inl.Overlay(prog.Pkgs, prog.Fset, load.ModPath, map[string]bool{})
	fmt.Println("files rewritten:", len(ov), "inlined call sites:", len(log))
	for f, b := range ov {
		out := strings.Replace(f, load.RepoDir(), os.Args[1], 1)
		if err := os.WriteFile(out, b, 0o644); err != nil {
			fmt.Println(err)
		}
	}
}
